//! Correspondence (model vs implementation) on untampered objects:
//!  * every GCM tag the store wrote verifies under the *model's* nonce and AAD (metadata seal and each chunk),
//!  * the ciphertext range `get_opts` requests from the backend, the plaintext range it reports, and the
//!    spans `get_ranges` fetches equal the model's plan,
//!  * the decryption stream agrees with the model for arbitrary segmentations and for a backend stream
//!    that delivers fewer / more / different bytes.
//! The independent oracle here: returned bytes == slice of the plaintext written (HTTP range semantics
//! re-implemented below), backend never sees plaintext, no nonce carries two different chunks.

use crate::metadoc::{self, MetaDoc};
use crate::recstore::StreamFault;
use crate::world::{GetOut, Gcm, World, classify, get_collect};
use crate::{Failure, Outcome};
use object_store::{path::Path, *};
use std::collections::{BTreeMap, HashSet};
use vh_common::{ModelProc, Rng, hex};

/// One driver request, counted by model op and answer class (branch coverage of the model under the
/// correspondence run; lands in the evidence histogram as `model:<op>:<class>`).
pub fn ask(m: &mut ModelProc, out: &mut Outcome, line: &str) -> String {
    let ans = m.ask(line);
    let op = line.split(' ').next().unwrap_or("?");
    let first = ans.split(' ').next().unwrap_or("");
    let class = if first.starts_with("ok") || first.starts_with("err") { first } else { "value" };
    out.hit(&format!("model:{op}:{class}"));
    ans
}

pub fn unhex(s: &str) -> Option<Vec<u8>> {
    if s.len() % 2 != 0 {
        return None;
    }
    (0..s.len() / 2).map(|i| u8::from_str_radix(&s[2 * i..2 * i + 2], 16).ok()).collect()
}

fn opt_s(o: &Option<String>) -> String {
    match o {
        None => "-".into(),
        Some(s) => format!("={}", hex(s.as_bytes())),
    }
}

fn opt_n(o: &Option<u64>) -> String {
    o.map(|n| n.to_string()).unwrap_or_else(|| "-".into())
}

pub fn maad_line(loc: &str, d: &MetaDoc) -> String {
    let tags = if d.t.is_empty() { "-".to_string() } else { d.t.iter().map(|t| hex(t)).collect::<Vec<_>>().join(",") };
    format!(
        "maad {} {} {} {} {} {} {} {} {} {} {}",
        hex(loc.as_bytes()),
        d.s,
        opt_s(&d.e),
        opt_s(&d.o),
        opt_s(&d.v),
        hex(&d.n),
        opt_n(&d.c),
        opt_n(&d.av),
        tags,
        opt_s(&d.g),
        opt_n(&d.m)
    )
}

fn opt_b(o: &Option<Vec<u8>>) -> String {
    match o {
        None => "-".into(),
        Some(b) => format!("={}", hex(b)),
    }
}

pub fn cbor_line(d: &MetaDoc) -> String {
    let tags = if d.t.is_empty() { "-".to_string() } else { d.t.iter().map(|t| hex(t)).collect::<Vec<_>>().join(",") };
    format!("cbor {} {} {} {} {} {} {} {} {} {} {} {}", d.s, opt_s(&d.e), opt_s(&d.o), opt_s(&d.v), hex(&d.n), opt_n(&d.c), opt_n(&d.av), tags, opt_b(&d.an), opt_b(&d.at), opt_s(&d.g), opt_n(&d.m))
}

pub fn shape_of(d: &MetaDoc, payload_len: usize) -> String {
    let b = |x: bool| x as u8;
    format!("s={} ntags={} c={} av={} o={} v={} an={} at={} g={} m={} payload={}", d.s, d.t.len(), opt_n(&d.c), opt_n(&d.av), b(d.o.is_some()), b(d.v.is_some()), b(d.an.is_some()), b(d.at.is_some()), b(d.g.is_some()), b(d.m.is_some()), payload_len)
}

/// Independent re-implementation of `derive_gcm_nonce` (oracle side: nonce-uniqueness check).
pub fn derive_nonce(base: &[u8], idx: u64) -> Vec<u8> {
    let mut n = base.to_vec();
    if n.len() == 12 {
        let c = u64::from_le_bytes(n[4..12].try_into().unwrap()).wrapping_add(idx);
        n[4..12].copy_from_slice(&c.to_le_bytes());
    }
    n
}

#[derive(Clone, Debug)]
pub enum RangeSpec {
    None,
    Bounded(u64, u64),
    Offset(u64),
    Suffix(u64),
}

impl RangeSpec {
    pub fn token(&self) -> String {
        match self {
            RangeSpec::None => "-".into(),
            RangeSpec::Bounded(s, e) => format!("b:{s}:{e}"),
            RangeSpec::Offset(o) => format!("o:{o}"),
            RangeSpec::Suffix(n) => format!("s:{n}"),
        }
    }
    pub fn opts(&self, head: bool) -> GetOptions {
        let o = GetOptions::new().with_head(head);
        match self {
            RangeSpec::None => o,
            RangeSpec::Bounded(s, e) => o.with_range(Some(GetRange::Bounded(*s..*e))),
            RangeSpec::Offset(n) => o.with_range(Some(GetRange::Offset(*n))),
            RangeSpec::Suffix(n) => o.with_range(Some(GetRange::Suffix(*n))),
        }
    }
    /// RFC 9110 range resolution against an object of `len` bytes, written independently:
    /// `None` = unsatisfiable.
    pub fn resolve(&self, len: u64) -> Option<(u64, u64)> {
        match *self {
            RangeSpec::None => Some((0, len)),
            RangeSpec::Bounded(s, e) => (s < e && s < len).then(|| (s, e.min(len))),
            RangeSpec::Offset(o) => (o < len).then_some((o, len)),
            RangeSpec::Suffix(n) => Some((len.saturating_sub(n), len)),
        }
    }
}

pub fn interesting_ranges(size: u64, c: u64, rng: &mut Rng, budget: usize) -> Vec<RangeSpec> {
    let mut v = vec![RangeSpec::None, RangeSpec::Suffix(1), RangeSpec::Suffix(c), RangeSpec::Suffix(size + 3), RangeSpec::Offset(0), RangeSpec::Offset(size / 2), RangeSpec::Offset(size), RangeSpec::Bounded(0, 1), RangeSpec::Bounded(0, size + 5), RangeSpec::Bounded(size, size + 1), RangeSpec::Bounded(3, 3), RangeSpec::Bounded(4, 2), RangeSpec::Suffix(0)];
    if size > 0 {
        v.push(RangeSpec::Bounded(size - 1, size));
        for k in [c.saturating_sub(1), c, c + 1, 2 * c - 1, 2 * c, 2 * c + 1] {
            if k < size {
                v.push(RangeSpec::Bounded(k, (k + 1).min(size)));
                v.push(RangeSpec::Bounded(k, size));
                v.push(RangeSpec::Bounded(0, k + 1));
                v.push(RangeSpec::Bounded(k, (k + c).min(size + 1)));
            }
        }
        if size <= 12 {
            for s in 0..size {
                for e in s + 1..=size {
                    v.push(RangeSpec::Bounded(s, e));
                }
            }
        }
        for _ in 0..budget {
            let s = rng.below(size);
            let e = s + 1 + rng.below(size - s + 2);
            v.push(RangeSpec::Bounded(s, e));
        }
    }
    v
}

fn runs_to_positions(s: &str) -> Option<Vec<usize>> {
    let mut out = Vec::new();
    if s == "-" || s.is_empty() {
        return Some(out);
    }
    for r in s.split(',') {
        let (a, n) = r.split_once('+')?;
        let a: usize = a.parse().ok()?;
        let n: usize = n.parse().ok()?;
        out.extend(a..a + n);
    }
    Some(out)
}

fn runs_of(symbols: &[Option<u64>]) -> String {
    // Some(p) = original position p, None = modified byte
    let mut parts: Vec<String> = Vec::new();
    let mut i = 0;
    while i < symbols.len() {
        match symbols[i] {
            None => {
                let mut j = i;
                while j < symbols.len() && symbols[j].is_none() {
                    j += 1;
                }
                parts.push(format!("x{}", j - i));
                i = j;
            }
            Some(p) => {
                let mut j = i;
                while j < symbols.len() && symbols[j] == Some(p + (j - i) as u64) {
                    j += 1;
                }
                parts.push(format!("{p}+{}", j - i));
                i = j;
            }
        }
    }
    if parts.is_empty() { String::new() } else { parts.join(",") }
}

fn seg_token(symbols: &[Option<u64>], segs: &[usize]) -> String {
    let mut parts = Vec::new();
    let mut off = 0;
    for &s in segs {
        let e = (off + s).min(symbols.len());
        parts.push(runs_of(&symbols[off..e]));
        off = e;
    }
    if off < symbols.len() {
        parts.push(runs_of(&symbols[off..]));
    }
    if parts.is_empty() { "-".into() } else { parts.join("/") }
}

fn payload_reads(w: &World) -> Vec<crate::recstore::ReadRec> {
    w.rec.take_log().into_iter().filter(|r| r.path.starts_with("gen/") || r.path.starts_with("data/")).collect()
}

fn impl_get_line(o: &GetOut, rr: &str) -> String {
    match (o.range, o.err) {
        (None, Some(e)) => e.to_string(),
        (Some((s, e)), None) => format!("ok {s} {e} {rr}"),
        (Some((s, e)), Some(err)) => format!("ok {s} {e} {rr} then {err}"),
        (None, None) => "ok".into(),
    }
}

/// Runs the correspondence and the clean-state oracle checks for every committed key.
pub async fn check_world(w: &mut World, rng: &mut Rng, mut model: Option<&mut ModelProc>, out: &mut Outcome, thorough: bool) {
    let gcm = Gcm::new(w.key);
    let snap = w.snapshot().await;
    let keys: Vec<String> = w.truth.keys().cloned().collect();
    for loc in keys {
        let t = w.truth[&loc].clone();
        let size = t.plain.len() as u64;
        let Some(meta_bytes) = snap.get(&format!("meta/{loc}")) else {
            out.fail(Failure::new("clean:meta-missing", "no metadata document for a committed key", None, "present", "absent"));
            continue;
        };
        let doc = match metadoc::decode(meta_bytes) {
            Ok(d) => d,
            Err(e) => {
                out.disagree("metadata document not understood by the harness decoder", "decodable", &e);
                continue;
            }
        };
        // the chunk size the reader uses: the model's `read_chunk_size` when a driver is attached
        let c = match model.as_deref_mut() {
            Some(m) => ask(m, out, &format!("rcs {} {}", w.chunk, opt_n(&doc.c))).parse::<u64>().unwrap_or(0).max(1),
            None => doc.c.filter(|c| *c > 0).unwrap_or(w.chunk).max(1),
        };
        let legacy_aad = doc.av == Some(0) || (doc.av.is_none() && !(doc.an.is_some() && doc.at.is_some()));
        let payload = snap.get(&t.payload_path).cloned().unwrap_or_default();

        // -- structure the oracle expects of a fresh write ------------------------------------------
        let n_chunks = size.div_ceil(c);
        if !t.legacy && (doc.s != size || doc.t.len() as u64 != n_chunks || payload.len() as u64 != size || doc.an.is_none() || doc.at.is_none() || doc.g.is_none()) {
            out.fail(Failure::new(
                "clean:layout",
                "committed document/payload do not have the sealed generation layout",
                None,
                &format!("s={size} tags={n_chunks} payload={size} sealed with generation"),
                &format!("s={} tags={} payload={} an={} at={} g={}", doc.s, doc.t.len(), payload.len(), doc.an.is_some(), doc.at.is_some(), doc.g.is_some()),
            ));
        }

        // -- (1) every tag verifies under the model's nonce and AAD ---------------------------------
        if let Some(m) = model.as_deref_mut() {
            let aad = unhex(&ask(m, out, &maad_line(&loc, &doc)));
            let ok = match (&aad, &doc.an, &doc.at) {
                (Some(aad), Some(an), Some(at)) => gcm.open(an, aad, &[], at).is_some(),
                (Some(_), None, None) => t.legacy, // genuine unsealed legacy document: nothing to verify
                _ => false,
            };
            out.model_compared += 1;
            out.hit("tie:meta-seal");
            if !ok {
                out.disagree(
                    &format!("metadata seal of `{loc}` does not verify under the model's metadata_auth_aad (model AAD != code AAD)"),
                    &aad.map(|a| hex(&a)).unwrap_or_else(|| "<driver error>".into()),
                    "GCM tag written by the store",
                );
            }
            let cap = if thorough { 4096 } else { 600 };
            for i in 0..(n_chunks.min(cap)) {
                let s = (i * c) as usize;
                let e = ((i + 1) * c).min(size) as usize;
                if e > payload.len() || (i as usize) >= doc.t.len() {
                    break;
                }
                let nonce = unhex(&ask(m, out, &format!("nonce {} {}", hex(&doc.n), i)));
                let caad = if legacy_aad { Some(vec![]) } else { unhex(&ask(m, out, &format!("caad {c} {i}"))) };
                let pt = match (&nonce, &caad) {
                    (Some(n), Some(a)) => gcm.open(n, a, &payload[s..e], &doc.t[i as usize]),
                    _ => None,
                };
                out.model_compared += 1;
                out.hit("tie:chunk-tag");
                match pt {
                    Some(p) if p == t.plain[s..e] => {}
                    Some(_) => out.fail(Failure::new("clean:chunk-plaintext", "chunk decrypts to something else than what was written", None, "plaintext chunk", "different bytes")),
                    None => out.disagree(
                        &format!("chunk {i} of `{loc}` (chunk size {c}) does not verify under the model's nonce / chunk AAD"),
                        &format!("nonce={:?} aad={:?}", nonce.map(|x| hex(&x)), caad.map(|x| hex(&x))),
                        "GCM tag written by the store",
                    ),
                }
            }
        }

        // -- (2) get_opts: plan vs recorded backend request; bytes vs plaintext slice ---------------
        let ranges = interesting_ranges(size, c, rng, if thorough { 60 } else { 12 });
        for (ri, r) in ranges.iter().enumerate() {
            for head in [false, true] {
                if head && ri % 4 != 0 {
                    continue;
                }
                w.rec.take_log();
                let o = get_collect(&w.store, &loc, r.opts(head)).await;
                let reads = payload_reads(w);
                let rr = match reads.as_slice() {
                    [] => "none".to_string(),
                    [one] => match one.range {
                        Some((s, e)) => format!("{s}:{e}"),
                        None => "-".into(),
                    },
                    _ => "multiple".into(),
                };
                // oracle
                let expect = r.resolve(size).map(|(s, e)| if head { (s, s) } else { (s, e) });
                match (expect, o.err, o.range) {
                    (Some((s, e)), None, Some(got)) => {
                        if got != (s, e) || o.bytes != t.plain[s as usize..e as usize] {
                            out.fail(Failure::new("clean:get", &format!("get_opts({}, head={head}) returned wrong range/bytes", r.token()), None, &format!("{s}..{e} of the plaintext"), &format!("{got:?}, {} bytes", o.bytes.len())));
                        }
                        if let Some(m) = &o.meta
                            && (m.size != size || m.e_tag != t.e_tag)
                        {
                            out.fail(Failure::new("clean:get-meta", "get_opts reports another size/e_tag than head did after the write", None, &format!("{size} {:?}", t.e_tag), &format!("{} {:?}", m.size, m.e_tag)));
                        }
                    }
                    (None, Some(_), _) => {}
                    (None, None, _) => out.fail(Failure::new("clean:get-range", &format!("unsatisfiable range {} was served", r.token()), None, "error", "ok")),
                    (Some(_), _, _) => out.fail(Failure::new("clean:get", &format!("get_opts({}) failed on an untampered object", r.token()), None, "ok", o.err.unwrap_or("?"))),
                }
                out.eval(&format!("get {size} {c} {} {head}", r.token()), o.err.is_none() && !o.bytes.is_empty());
                out.hit(if o.err.is_some() { "get:err" } else if head { "get:head" } else { "get:ok" });
                // model
                if let Some(m) = model.as_deref_mut() {
                    let ans = ask(m, out, &format!("plan {size} {c} {} {}", r.token(), head as u8));
                    let model_line = match ans.split(' ').collect::<Vec<_>>().as_slice() {
                        ["ok", s, e, rr, _si, _so, _len] => format!("ok {s} {e} {rr}"),
                        _ => ans.clone(),
                    };
                    let impl_line = match (o.range, o.err) {
                        (Some(_), None) => impl_get_line(&o, &rr),
                        (_, Some(e)) => e.to_string(),
                        _ => "?".into(),
                    };
                    out.model_compared += 1;
                    if model_line != impl_line {
                        out.disagree(&format!("get_opts plan: size={size} chunk={c} range={} head={head}", r.token()), &model_line, &impl_line);
                    }
                }
            }
        }

        // -- (3) get_ranges: fetched spans and results -----------------------------------------------
        if size > 0 {
            let rounds = if thorough { 12 } else { 4 };
            for round in 0..rounds {
                let n = 1 + rng.usize(5);
                let mut rs: Vec<(u64, u64)> = Vec::new();
                let mut base = rng.below(size);
                for _ in 0..n {
                    // clustered (to hit the span cache) or anywhere; occasionally invalid
                    let s = if rng.chance(2, 3) { (base + rng.below(c + 1)).min(size - 1) } else { rng.below(size) };
                    let e = (s + 1 + rng.below(2 * c + 1)).min(size);
                    rs.push((s, e));
                    base = s;
                }
                if round == 0 {
                    rs = vec![(0, size), (size - 1, size), (0, 1)];
                }
                if rng.chance(1, 8) {
                    rs.push(match rng.below(3) {
                        0 => (size, size + 1),
                        1 => (1.min(size - 1), 1.min(size - 1)),
                        _ => (0, size + 1),
                    });
                }
                w.rec.take_log();
                let ranges: Vec<std::ops::Range<u64>> = rs.iter().map(|(s, e)| *s..*e).collect();
                let res = w.store.get_ranges(&Path::from(loc.as_str()), &ranges).await;
                let fetched: Vec<String> = payload_reads(w).iter().map(|r| r.range.map(|(s, e)| format!("{s}:{e}")).unwrap_or("-".into())).collect();
                let valid = rs.iter().all(|(s, e)| s < e && *e <= size);
                match &res {
                    Ok(v) => {
                        let good = valid && v.len() == rs.len() && v.iter().zip(&rs).all(|(b, (s, e))| b[..] == t.plain[*s as usize..*e as usize]);
                        if !good {
                            out.fail(Failure::new("clean:get_ranges", &format!("get_ranges({rs:?}) returned wrong bytes"), None, "plaintext slices", "different"));
                        }
                    }
                    Err(e) => {
                        if valid {
                            out.fail(Failure::new("clean:get_ranges", &format!("get_ranges({rs:?}) failed on an untampered object"), None, "ok", classify(e)));
                        }
                    }
                }
                out.eval(&format!("ranges {size} {c} {rs:?}"), res.is_ok());
                out.hit(if res.is_ok() { "get_ranges:ok" } else { "get_ranges:err" });
                if let Some(m) = model.as_deref_mut()
                    && size <= 4096
                {
                    let tok = rs.iter().map(|(s, e)| format!("{s}:{e}")).collect::<Vec<_>>().join(",");
                    let ans = ask(m, out, &format!("ranges {size} {c} 0+{size} {tok}"));
                    let impl_line = match &res {
                        Ok(v) => {
                            let outs: Vec<String> = rs.iter().zip(v).map(|((s, _), b)| if b.is_empty() { "-".into() } else { format!("{s}+{}", b.len()) }).collect();
                            format!("ok {} fetched {}", outs.join(";"), if fetched.is_empty() { "-".into() } else { fetched.join(",") })
                        }
                        Err(e) => classify(e).to_string(),
                    };
                    out.model_compared += 1;
                    if ans != impl_line {
                        out.disagree(&format!("get_ranges: size={size} chunk={c} ranges={tok}"), &ans, &impl_line);
                    }
                }
            }
        }

        // -- (4) the decryption stream under re-segmentation and a lying backend stream -------------
        if size > 0 && size <= 4096 {
            let rounds = if thorough { 40 } else { 10 };
            for round in 0..rounds {
                let r = if round % 3 == 0 {
                    RangeSpec::None
                } else {
                    let s = rng.below(size);
                    RangeSpec::Bounded(s, s + 1 + rng.below(size - s))
                };
                let (ps, pe) = r.resolve(size).unwrap();
                // the model's plan tells which ciphertext positions the backend is asked for
                let rr_s = ps / c * c;
                let rr_e = (((pe - 1) / c + 1) * c).min(size);
                let mut symbols: Vec<Option<u64>> = (rr_s..rr_e).map(Some).collect();
                let fault = match rng.below(6) {
                    0 => Some(StreamFault::DropTail(1 + rng.usize(symbols.len().min(2 * c as usize + 1)))),
                    1 => Some(StreamFault::Append(1 + rng.usize(2 * c as usize + 1))),
                    2 => Some(StreamFault::Flip(rng.usize(symbols.len()))),
                    _ => None,
                };
                match &fault {
                    Some(StreamFault::DropTail(n)) => {
                        let keep = symbols.len().saturating_sub(*n);
                        symbols.truncate(keep);
                    }
                    Some(StreamFault::Append(n)) => symbols.extend(std::iter::repeat_n(None, *n)),
                    Some(StreamFault::Flip(i)) => {
                        let k = i % symbols.len();
                        symbols[k] = None;
                    }
                    None => {}
                }
                let mut segs: Vec<usize> = Vec::new();
                let mut left = symbols.len();
                while left > 0 && segs.len() < 40 {
                    let s = match rng.below(4) {
                        0 => 0,
                        1 => 1 + rng.usize(3),
                        2 => c as usize,
                        _ => 1 + rng.usize(2 * c as usize + 2),
                    }
                    .min(left);
                    segs.push(s);
                    left -= s;
                }
                w.rec.set_segs(Some(segs.clone()));
                w.rec.set_fault(fault.clone());
                let o = get_collect(&w.store, &loc, r.opts(false)).await;
                w.rec.set_segs(None);
                w.rec.set_fault(None);
                w.rec.take_log();
                let want = &t.plain[ps as usize..pe as usize];
                // oracle: complete and equal, or an error after a correct prefix
                let prefix_ok = o.bytes.len() <= want.len() && o.bytes[..] == want[..o.bytes.len()];
                if !(prefix_ok && (o.err.is_some() || o.bytes.len() == want.len())) {
                    out.fail(Failure::new(
                        "stream:wrong-bytes",
                        &format!("decryption stream yielded bytes that are not (a prefix of) the requested plaintext; range={} fault={fault:?} segs={segs:?}", r.token()),
                        None,
                        "requested slice, or an error after a correct prefix",
                        &format!("{} bytes, err={:?}", o.bytes.len(), o.err),
                    ));
                }
                if fault.is_none() && o.err.is_some() {
                    out.fail(Failure::new("stream:resegment", &format!("re-segmented backend stream failed: range={} segs={segs:?}", r.token()), None, "ok", o.err.unwrap_or("?")));
                }
                out.eval(&format!("stream {size} {c} {} {fault:?} {segs:?}", r.token()), o.err.is_none());
                out.hit(match (&fault, o.err) {
                    (None, _) => "stream:reseg",
                    (Some(_), None) => "stream:fault-ok",
                    (Some(_), Some(_)) => "stream:fault-err",
                });
                if let Some(m) = model.as_deref_mut() {
                    let ans = ask(m, out, &format!("stream {size} {c} {} {} {} {}", rr_s / c, ps - rr_s, pe - ps, seg_token(&symbols, &segs)));
                    let impl_line = match o.err {
                        None => format!("ok {}", if o.bytes.is_empty() { "-".into() } else { format!("{ps}+{}", o.bytes.len()) }),
                        Some(e) => format!("{e} {}", if o.bytes.is_empty() { "-".into() } else { format!("{ps}+{}", o.bytes.len()) }),
                    };
                    // the model prints runs of positions; normalise through positions
                    let norm = |line: &str| -> String {
                        let mut it = line.splitn(2, ' ');
                        let head = it.next().unwrap_or("");
                        let runs = it.next().unwrap_or("-");
                        format!("{head} {:?}", runs_to_positions(runs).map(|p| (p.first().copied(), p.len())))
                    };
                    out.model_compared += 1;
                    if norm(&ans) != norm(&impl_line) {
                        out.disagree(&format!("decryption stream: size={size} chunk={c} range={} fault={fault:?} segs={segs:?}", r.token()), &ans, &impl_line);
                    }
                }
            }
        }
    }

    // -- (4b) byte layout and writer shape of every commit the store made ---------------------------------
    if let Some(m) = model.as_deref_mut() {
        commit_layouts(w, m, out);
    }

    // -- (5) reverse tie: what the model writes, the store reads ------------------------------------------
    if let Some(m) = model.as_deref_mut() {
        model_written_objects(w, rng, m, out).await;
    }

    // -- (6) nothing the store wrote contains plaintext; no nonce carries two different chunks ----------
    scan_plaintext(w, &snap, out);
    nonce_uniqueness(w, out);
}

/// Model vs implementation on what every commit handed to the backend:
///  * the sidecar document byte for byte (`encodeDoc`, keys/omission rules generated from the serde attributes),
///  * the backend keys (`metaPath`, `payloadPath`),
///  * the shape of the document and of the ciphertext object for `put_opts` (`writeObject`), for multipart
///    uploads incl. the sizes of the parts forwarded to the backend upload (`mpPutPart`/`mpComplete`; the
///    driver also evaluates `multipart = put` on the instance), and for copies/renames (`copyMeta`: pinned
///    chunk-AAD version, cleared legacy fields, verbatim nonce/tags/size).
pub fn commit_layouts(w: &World, m: &mut ModelProc, out: &mut Outcome) {
    for (hi, h) in w.history.iter().enumerate() {
        let toks: Vec<&str> = h.op.split(' ').collect();
        if toks[0] == "legacy" {
            continue; // written by the harness, not by the store
        }
        let Ok(doc) = metadoc::decode(&h.meta_bytes) else { continue };
        // document bytes
        let ans = ask(m, out, &cbor_line(&doc));
        out.model_compared += 1;
        out.hit("tie:document-bytes");
        if ans != hex(&h.meta_bytes) {
            out.disagree(&format!("sidecar document of `{}` ({}) is not what the model's encodeDoc writes", h.loc, h.op), &ans, &hex(&h.meta_bytes));
        }
        // backend keys
        let g = opt_s(&doc.g);
        let ans = ask(m, out, &format!("paths {} {g}", hex(h.loc.as_bytes())));
        let impl_paths = format!("{} {}", hex(format!("meta/{}", h.loc).as_bytes()), hex(h.payload_path.as_bytes()));
        out.model_compared += 1;
        out.hit("tie:backend-keys");
        if ans != impl_paths || !h.writes.iter().any(|(p, _)| p == &format!("meta/{}", h.loc)) {
            out.disagree(&format!("backend keys of `{}` ({})", h.loc, h.op), &ans, &impl_paths);
        }
        let body_writes: Vec<usize> = h.writes.iter().filter(|(p, _)| p == &h.payload_path).map(|(_, n)| *n).collect();
        let foreign: Vec<&(String, usize)> = h.writes.iter().filter(|(p, _)| p != &h.payload_path && p != &format!("meta/{}", h.loc)).collect();
        if !foreign.is_empty() {
            out.disagree(&format!("`{}` wrote to backend keys the model does not know", h.op), "only the payload object and the commit point", &format!("{foreign:?}"));
        }
        let shape = shape_of(&doc, h.payload_bytes.len());
        match toks[0] {
            "put" | "puta" if h.plain.len() <= 4096 => {
                let c = doc.c.unwrap_or(w.chunk);
                let ans = ask(m, out, &format!("putshape {} {c}", h.plain.len()));
                out.model_compared += 1;
                out.hit("tie:put-shape");
                if ans != shape || body_writes != vec![h.plain.len()] {
                    out.disagree(&format!("shape of what `{}` wrote", h.op), &format!("{ans} bodies=[{}]", h.plain.len()), &format!("{shape} bodies={body_writes:?}"));
                }
            }
            "mput" if h.plain.len() <= 4096 => {
                let c = doc.c.unwrap_or(w.chunk);
                let ans = ask(m, out, &format!("mput {c} {}", toks[3]));
                let fwd = if body_writes.is_empty() { "-".to_string() } else { body_writes.iter().map(|n| n.to_string()).collect::<Vec<_>>().join(",") };
                let impl_line = format!("fwd={fwd} {shape} eqput=1");
                out.model_compared += 1;
                out.hit("tie:multipart-shape");
                if ans != impl_line {
                    out.disagree(&format!("multipart upload `{}`: forwarded part sizes / document shape (or multipart != put in the model)", h.op), &ans, &impl_line);
                }
            }
            "copy" | "rename" => {
                // the source commit: the latest earlier one of the source key
                let Some(src) = w.history[..hi].iter().rev().find(|x| x.loc == toks[1]) else { continue };
                let Ok(sd) = metadoc::decode(&src.meta_bytes) else { continue };
                let ans = ask(m, out, &format!("copyshape {} {} {}", opt_n(&sd.av), sd.an.is_some() as u8, sd.at.is_some() as u8));
                let impl_line = format!("av={} o={} v={} g={} m={} an={} at={}", opt_n(&doc.av), doc.o.is_some() as u8, doc.v.is_some() as u8, doc.g.is_some() as u8, doc.m.is_some() as u8, doc.an.is_some() as u8, doc.at.is_some() as u8);
                out.model_compared += 1;
                out.hit("tie:copy-shape");
                let verbatim = doc.s == sd.s && doc.n == sd.n && doc.t == sd.t && doc.c == sd.c && h.payload_bytes == src.payload_bytes && doc.e != sd.e && doc.g != sd.g;
                if ans != impl_line || !verbatim {
                    out.disagree(&format!("document of `{}` (source document av={:?})", h.op, sd.av), &format!("{ans} + size/nonce/tags/chunk size/ciphertext verbatim, e_tag and generation new"), &format!("{impl_line} verbatim={verbatim}"));
                }
            }
            _ => {}
        }
    }
}

/// Reverse tie: objects *written by the model* (nonces, chunk AAD and metadata AAD from the Lean driver,
/// AES-GCM from the `aes-gcm` crate, document encoded by the harness) must be readable through the real
/// store. This reaches inputs the store's own writer never produces: a base nonce whose counter wraps
/// around, legacy `o`/`v` fields, documents without generation (payload under `data/`), without commit
/// time, without recorded chunk size, with the legacy (empty) chunk AAD.
pub async fn model_written_objects(w: &World, rng: &mut Rng, model: &mut ModelProc, out: &mut Outcome) {
    use cbor2::Value;
    let gcm = Gcm::new(w.key);
    for variant in 0..9u64 {
        let loc = format!("zz-model/{variant}");
        let doc_c: Option<u64> = match variant {
            4 => None,
            6 => Some(0), // a recorded chunk size of 0 falls back to the store's
            _ => Some(*rng.pick(&[1u64, 3, 8, 16])),
        };
        // the chunk size the *reader* will use — asked of the model, then used to lay the object out
        let c = ask(model, out, &format!("rcs {} {}", w.chunk, opt_n(&doc_c))).parse::<u64>().unwrap_or(1).max(1);
        let size = if variant == 7 { (c + 1 + rng.below(3 * c)) as usize } else { (rng.below(4 * c + 2)) as usize };
        let plain = crate::world::data(rng.next_u64(), size);
        // counter part of the base nonce close to 2^64: chunk indices wrap it around
        let mut base = [0u8; 12];
        for b in base.iter_mut() {
            *b = rng.next_u64() as u8;
        }
        let ctr = u64::MAX - rng.below(3);
        base[4..12].copy_from_slice(&ctr.to_le_bytes());
        let doc = MetaDoc {
            s: size as u64,
            e: if variant == 1 { None } else { Some(format!("etag-{variant}")) },
            o: if variant == 2 { Some("inner-etag".into()) } else { None },
            v: if variant == 2 { Some("inner-version".into()) } else { None },
            n: base.to_vec(),
            t: vec![],
            c: doc_c,
            av: match variant {
                3 => Some(0),
                5 => None, // sealed without av: bound AAD by default
                8 => Some(5), // an AAD version the reader does not know
                _ => Some(1),
            },
            an: None,
            at: None,
            g: if variant == 2 || variant == 3 { None } else { Some(format!("{:016x}-{:08x}", 1_700_000_000_000u64 + variant, 7)) },
            m: if variant == 0 || variant == 4 { Some(1_700_000_000_123) } else { None },
        };
        let mut doc = doc;
        let mut payload = Vec::new();
        let mut ok = true;
        for (i, ch) in plain.chunks(c as usize).enumerate() {
            let nonce = unhex(&ask(model, out, &format!("nonce {} {i}", hex(&doc.n))));
            let aad = if doc.av == Some(0) { Some(vec![]) } else { unhex(&ask(model, out, &format!("caad {c} {i}"))) };
            match (nonce, aad) {
                (Some(n), Some(a)) => match gcm.seal(&n, &a, ch) {
                    Some((ct, tag)) => {
                        payload.extend_from_slice(&ct);
                        doc.t.push(tag);
                    }
                    None => ok = false,
                },
                _ => ok = false,
            }
        }
        let mut an = [0u8; 12];
        for b in an.iter_mut() {
            *b = rng.next_u64() as u8;
        }
        if variant == 7 {
            doc.t.pop(); // one chunk tag short: the reader must stop at the chunk without a tag
        }
        let aad = unhex(&ask(model, out, &maad_line(&loc, &doc)));
        let Some((_, at)) = aad.as_ref().and_then(|a| gcm.seal(&an, a, &[])) else {
            out.disagree("driver did not answer for a model-written object", "hex", "?");
            continue;
        };
        if !ok {
            out.disagree("driver did not answer for a model-written object", "hex", "?");
            continue;
        }
        let mut entries: Vec<(Value, Value)> = vec![
            (Value::Text("s".into()), Value::Integer(doc.s.into())),
            (Value::Text("e".into()), doc.e.clone().map(Value::Text).unwrap_or(Value::Null)),
            (Value::Text("o".into()), doc.o.clone().map(Value::Text).unwrap_or(Value::Null)),
            (Value::Text("v".into()), doc.v.clone().map(Value::Text).unwrap_or(Value::Null)),
            (Value::Text("n".into()), Value::Bytes(doc.n.clone())),
            (Value::Text("t".into()), Value::Array(doc.t.iter().map(|t| Value::Bytes(t.clone())).collect())),
        ];
        if let Some(c) = doc.c {
            entries.push((Value::Text("c".into()), Value::Integer(c.into())));
        }
        if let Some(av) = doc.av {
            entries.push((Value::Text("av".into()), Value::Integer(av.into())));
        }
        entries.push((Value::Text("an".into()), Value::Bytes(an.to_vec())));
        entries.push((Value::Text("at".into()), Value::Bytes(at)));
        if let Some(g) = &doc.g {
            entries.push((Value::Text("g".into()), Value::Text(g.clone())));
        }
        if let Some(m) = doc.m {
            entries.push((Value::Text("m".into()), Value::Integer(m.into())));
        }
        let meta_bytes = metadoc::encode_value(&Value::Map(entries));
        let payload_path = match &doc.g {
            Some(g) => format!("gen/{loc}/{g}"),
            None => format!("data/{loc}"),
        };
        w.raw_put(&payload_path, &payload).await;
        w.raw_put(&format!("meta/{loc}"), &meta_bytes).await;
        let cold = w.cold();
        let o = get_collect(&cold, &loc, GetOptions::new()).await;
        if variant == 7 || variant == 8 {
            // error branches of the model reached through a *sealed* document
            let model_line = if variant == 7 {
                ask(model, out, &format!("stream {size} {c} 0 0 {size} 0+{size} tags={}", doc.t.len()))
            } else {
                format!("{} -", ask(model, out, &format!("verify {} 1 1 5 {} 1 1 head", w.strict as u8, doc.g.is_some() as u8)))
            };
            let impl_line = format!("{} {}", o.err.unwrap_or("ok"), if o.bytes.is_empty() { "-".to_string() } else { format!("0+{}", o.bytes.len()) });
            out.model_compared += 1;
            out.hit(&format!("tie:model-written-object:variant{variant}"));
            out.eval(&format!("model-written {variant} {size} {c}"), true);
            if model_line != impl_line || (o.err.is_none()) || o.bytes[..] != plain[..o.bytes.len().min(plain.len())] {
                out.disagree(&format!("sealed document with {} (size={size} chunk={c})", if variant == 7 { "one chunk tag missing" } else { "chunk-AAD version 5" }), &model_line, &impl_line);
            }
            w.raw_delete(&payload_path).await;
            w.raw_delete(&format!("meta/{loc}")).await;
            continue;
        }
        let mut impl_line = match o.err {
            None if o.bytes == plain => "ok".to_string(),
            None => "ok-but-other-bytes".to_string(),
            Some(e) => e.to_string(),
        };
        if impl_line == "ok" && size > 1 {
            // a ranged read and get_ranges across the wrap-around as well
            let (s, e) = (1u64, size as u64);
            let r = get_collect(&cold, &loc, GetOptions::new().with_range(Some(GetRange::Bounded(s..e)))).await;
            let gr = cold.get_ranges(&Path::from(loc.as_str()), &[s..e, 0..1]).await;
            if r.err.is_some() || r.bytes != plain[1..] {
                impl_line = format!("ranged:{:?}", r.err);
            }
            match gr {
                Ok(v) if v.len() == 2 && v[0][..] == plain[1..] && v[1][..] == plain[..1] => {}
                Ok(_) => impl_line = "get_ranges:other-bytes".into(),
                Err(e) => impl_line = format!("get_ranges:{}", classify(&e)),
            }
        }
        out.model_compared += 1;
        out.hit(&format!("tie:model-written-object:variant{variant}"));
        out.eval(&format!("model-written {variant} {size} {c} {ctr}"), size > 0);
        if impl_line != "ok" {
            out.disagree(
                &format!("object written with the model's nonce/AAD (variant {variant}: size={size} chunk={c} base counter={ctr:#x} av={:?} g={:?} m={:?} o={:?}) is not readable through the store", doc.av, doc.g, doc.m, doc.o),
                "ok",
                &impl_line,
            );
        }
        w.raw_delete(&payload_path).await;
        w.raw_delete(&format!("meta/{loc}")).await;
    }
}

pub fn scan_plaintext(w: &World, snap: &BTreeMap<String, Vec<u8>>, out: &mut Outcome) {
    const W: usize = 8;
    let mut windows: HashSet<[u8; W]> = HashSet::new();
    let mut scanned_plain = 0u64;
    for p in &w.plaintexts {
        if p.len() < W {
            out.hit("scan:plaintext-too-short");
            continue;
        }
        scanned_plain += 1;
        for win in p.windows(W) {
            windows.insert(win.try_into().unwrap());
        }
    }
    // the secret key must not reach the backend either
    let mut key_windows: HashSet<[u8; W]> = HashSet::new();
    for win in w.key.windows(W) {
        key_windows.insert(win.try_into().unwrap());
    }
    let writes = w.rec.shared.writes.lock().unwrap();
    let scan = |what: &str, bytes: &[u8], out: &mut Outcome| {
        out.hit_n("scan:backend-bytes", bytes.len() as u64);
        for (i, win) in bytes.windows(W).enumerate() {
            let k: [u8; W] = win.try_into().unwrap();
            if key_windows.contains(&k) {
                out.fail(Failure::new("leak:key-window", &format!("{W} consecutive bytes of the AES key appear in {what} at offset {i}"), None, "no key material in anything handed to the backend", &hex(win)));
                return;
            }
            if windows.contains(&k) {
                out.fail(Failure::new("leak:plaintext-window", &format!("{W} consecutive plaintext bytes appear in backend object {what} at offset {i}"), None, "no plaintext window in any backend byte", &hex(win)));
                return;
            }
        }
    };
    for (path, bytes) in writes.iter() {
        scan(path, bytes, out);
        // the backend key itself, and (below) attributes / tags that travel with a write
        scan(&format!("the path {path}"), path.as_bytes(), out);
    }
    for (path, side) in w.rec.shared.side.lock().unwrap().iter() {
        scan(&format!("the attributes/tags of the write to {path}"), side.as_bytes(), out);
        // the Debug text escapes bytes; also look for hex / decimal renderings of a plaintext window
        for p in &w.plaintexts {
            if p.len() >= W && (side.contains(&hex(&p[..W])) || side.contains(&format!("{:?}", &p[..W]))) {
                out.fail(Failure::new("leak:plaintext-window", &format!("a rendering of the first {W} plaintext bytes appears in the attributes/tags of the write to {path}"), None, "no plaintext in attributes/tags", side));
            }
        }
        out.hit("scan:side-channels");
    }
    for (path, bytes) in snap {
        scan(path, bytes, out);
    }
    out.hit_n("scan:plaintexts", scanned_plain);
}

pub fn nonce_uniqueness(w: &World, out: &mut Outcome) {
    // nonce -> (what it sealed)
    let mut seen: BTreeMap<Vec<u8>, (Vec<u8>, Vec<u8>, String)> = BTreeMap::new();
    let mut count = 0u64;
    let gcm = Gcm::new(w.key);
    for h in &w.history {
        let Ok(doc) = metadoc::decode(&h.meta_bytes) else { continue };
        let c = doc.c.unwrap_or(w.chunk).max(1) as usize;
        for (i, tag) in doc.t.iter().enumerate() {
            let s = i * c;
            let e = ((i + 1) * c).min(h.payload_bytes.len());
            if s > e {
                break;
            }
            let nonce = derive_nonce(&doc.n, i as u64);
            // the nonce set is only observable through verification: the chunk must open under the
            // independently re-derived nonce (documented scheme: salt kept, counter + index, wrapping)
            let mut aad = b"anda_object_store.encrypted.chunk.v1".to_vec();
            aad.extend_from_slice(&(c as u64).to_le_bytes());
            aad.extend_from_slice(&(i as u64).to_le_bytes());
            let legacy_aad = doc.av == Some(0) || (doc.av.is_none() && !(doc.an.is_some() && doc.at.is_some()));
            if !legacy_aad && gcm.open(&nonce, &aad, &h.payload_bytes[s..e], tag).is_none() {
                out.fail(Failure::new("nonce:not-rederivable", &format!("chunk {i} of `{}` (chunk size {c}) does not open under nonce = base + {i}: the nonces in use cannot be re-derived, uniqueness cannot be established", h.loc), None, "opens under the derived nonce", "tag mismatch"));
            }
            let sealed = (h.payload_bytes[s..e].to_vec(), tag.clone(), format!("chunk {i} of {}", h.loc));
            count += 1;
            if let Some(prev) = seen.get(&nonce) {
                if prev.0 != sealed.0 || prev.1 != sealed.1 {
                    out.fail(Failure::new("nonce:reuse", &format!("nonce {} seals two different chunks: {} and {}", hex(&nonce), prev.2, sealed.2), None, "one (ciphertext, tag) per nonce under one key", "two"));
                }
            } else {
                seen.insert(nonce, sealed);
            }
        }
        if let (Some(an), Some(at)) = (&doc.an, &doc.at) {
            count += 1;
            let sealed = (vec![], at.clone(), format!("metadata seal of {}", h.loc));
            if let Some(prev) = seen.get(an) {
                if prev.1 != sealed.1 {
                    out.fail(Failure::new("nonce:reuse", &format!("nonce {} is used by {} and {}", hex(an), prev.2, sealed.2), None, "fresh nonce per seal", "repeat"));
                }
            } else {
                seen.insert(an.clone(), sealed);
            }
        }
    }
    out.hit_n("nonce:derived", count);
    out.measured_nonces += count;
}
