//! `SchedStore` — an `ObjectStore` wrapper that parks every backend call until the explorer
//! releases it — and the manual, deterministic single-threaded executor that drives the calls.
//!
//! Between two parked calls the code under test is atomic (nothing else is polled), so a schedule
//! is a list of choices `Start(task)` / `Release(task)`.  After every choice the executor polls
//! every woken task (lowest index first) until nothing is runnable ("settle"): a released task
//! continues up to its next backend call, a lock it cannot get, or its end; tasks that a released
//! lock wakes continue likewise.  tokio's locks are FIFO-fair and hand the lock over at release
//! time; the Lean driver mirrors that policy when it expands the choice list into a schedule of
//! the model's atomic actions.
use async_trait::async_trait;
use futures::{StreamExt, stream::BoxStream};
use object_store::{path::Path, *};
use std::future::Future;
use std::pin::Pin;
use std::sync::atomic::{AtomicBool, Ordering};
use std::sync::{Arc, Mutex};
use std::task::{Context, Poll, Wake, Waker};

#[derive(Clone, Debug, PartialEq, Eq)]
pub struct CallInfo {
    pub task: usize,
    /// 'G' get, 'P' put, 'D' delete
    pub method: char,
    pub path: String,
}

struct Slot {
    info: CallInfo,
    released: AtomicBool,
    waker: Mutex<Option<Waker>>,
}

#[derive(Default)]
struct CtlInner {
    park: bool,
    /// also park *after* the backend applied a call, before the caller sees the result
    post: bool,
    current: Option<usize>,
    parked: Vec<Arc<Slot>>,
    /// payloads of applied PUTs: (task, path, bytes)
    puts: Vec<(usize, String, Vec<u8>)>,
}

#[derive(Default)]
pub struct Ctl {
    inner: Mutex<CtlInner>,
}

impl std::fmt::Debug for Ctl {
    fn fmt(&self, f: &mut std::fmt::Formatter<'_>) -> std::fmt::Result {
        f.write_str("Ctl")
    }
}

impl Ctl {
    pub fn set_park(&self, on: bool) {
        self.inner.lock().unwrap().park = on;
    }
    pub fn set_post(&self, on: bool) {
        self.inner.lock().unwrap().post = on;
    }
    fn post(&self) -> bool {
        self.inner.lock().unwrap().post
    }
    pub fn set_current(&self, t: Option<usize>) {
        self.inner.lock().unwrap().current = t;
    }
    /// tasks that have at least one parked, unreleased call (ascending, deduplicated)
    pub fn parked_tasks(&self) -> Vec<usize> {
        let g = self.inner.lock().unwrap();
        let mut v: Vec<usize> = g.parked.iter().map(|s| s.info.task).collect();
        v.sort();
        v.dedup();
        v
    }
    /// releases the oldest parked call of `task`
    pub fn release(&self, task: usize) -> Option<CallInfo> {
        let slot = {
            let mut g = self.inner.lock().unwrap();
            let pos = g.parked.iter().position(|s| s.info.task == task)?;
            g.parked.remove(pos)
        };
        slot.released.store(true, Ordering::SeqCst);
        if let Some(w) = slot.waker.lock().unwrap().take() {
            w.wake();
        }
        Some(slot.info.clone())
    }
    pub fn take_puts(&self) -> Vec<(usize, String, Vec<u8>)> {
        std::mem::take(&mut self.inner.lock().unwrap().puts)
    }
    fn park(self: &Arc<Self>, method: char, path: &Path) -> ParkFut {
        ParkFut { ctl: self.clone(), method, path: path.to_string(), slot: None }
    }
    fn record_put(&self, task: Option<usize>, path: &Path, bytes: Vec<u8>) {
        if let Some(t) = task {
            self.inner.lock().unwrap().puts.push((t, path.to_string(), bytes));
        }
    }
}

struct ParkFut {
    ctl: Arc<Ctl>,
    method: char,
    path: String,
    slot: Option<Arc<Slot>>,
}

impl Future for ParkFut {
    /// the task on whose behalf the call runs (None in pass-through mode)
    type Output = Option<usize>;
    fn poll(mut self: Pin<&mut Self>, cx: &mut Context<'_>) -> Poll<Option<usize>> {
        if let Some(slot) = &self.slot {
            if slot.released.load(Ordering::SeqCst) {
                return Poll::Ready(Some(slot.info.task));
            }
            *slot.waker.lock().unwrap() = Some(cx.waker().clone());
            return Poll::Pending;
        }
        let mut g = self.ctl.inner.lock().unwrap();
        if !g.park {
            return Poll::Ready(None);
        }
        let task = g.current.expect("backend call outside a scheduled task");
        let slot = Arc::new(Slot {
            info: CallInfo { task, method: self.method, path: self.path.clone() },
            released: AtomicBool::new(false),
            waker: Mutex::new(Some(cx.waker().clone())),
        });
        g.parked.push(slot.clone());
        drop(g);
        self.slot = Some(slot);
        Poll::Pending
    }
}

#[derive(Debug)]
pub struct SchedStore {
    inner: Arc<dyn ObjectStore>,
    ctl: Arc<Ctl>,
}

impl SchedStore {
    pub fn wrap(inner: Arc<dyn ObjectStore>) -> (SchedStore, Arc<Ctl>) {
        let ctl = Arc::new(Ctl::default());
        (SchedStore { inner, ctl: ctl.clone() }, ctl)
    }
}

impl std::fmt::Display for SchedStore {
    fn fmt(&self, f: &mut std::fmt::Formatter<'_>) -> std::fmt::Result {
        write!(f, "SchedStore({})", self.inner)
    }
}

#[async_trait]
impl ObjectStore for SchedStore {
    async fn put_opts(&self, location: &Path, payload: PutPayload, opts: PutOptions) -> Result<PutResult> {
        let task = self.ctl.park('P', location).await;
        let bytes: Vec<u8> = payload.iter().flat_map(|b| b.iter().copied()).collect();
        let r = self.inner.put_opts(location, payload, opts).await;
        if r.is_ok() {
            self.ctl.record_put(task, location, bytes);
        }
        if self.ctl.post() {
            self.ctl.park('p', location).await;
        }
        r
    }

    async fn put_multipart_opts(&self, location: &Path, opts: PutMultipartOptions) -> Result<Box<dyn MultipartUpload>> {
        self.inner.put_multipart_opts(location, opts).await
    }

    async fn get_opts(&self, location: &Path, options: GetOptions) -> Result<GetResult> {
        self.ctl.park('G', location).await;
        let r = self.inner.get_opts(location, options).await;
        if self.ctl.post() {
            self.ctl.park('g', location).await;
        }
        r
    }

    fn delete_stream(&self, locations: BoxStream<'static, Result<Path>>) -> BoxStream<'static, Result<Path>> {
        let ctl = self.ctl.clone();
        let inner = self.inner.clone();
        locations
            .then(move |location| {
                let ctl = ctl.clone();
                let inner = inner.clone();
                async move {
                    let location = location?;
                    ctl.park('D', &location).await;
                    let r = inner.delete(&location).await;
                    if ctl.post() {
                        ctl.park('d', &location).await;
                    }
                    r?;
                    Ok(location)
                }
            })
            .boxed()
    }

    fn list(&self, prefix: Option<&Path>) -> BoxStream<'static, Result<ObjectMeta>> {
        self.inner.list(prefix)
    }

    fn list_with_offset(&self, prefix: Option<&Path>, offset: &Path) -> BoxStream<'static, Result<ObjectMeta>> {
        self.inner.list_with_offset(prefix, offset)
    }

    async fn list_with_delimiter(&self, prefix: Option<&Path>) -> Result<ListResult> {
        self.inner.list_with_delimiter(prefix).await
    }

    async fn copy_opts(&self, from: &Path, to: &Path, options: CopyOptions) -> Result<()> {
        self.inner.copy_opts(from, to, options).await
    }
}

// ---------------------------------------------------------------------------------------------
// executor
// ---------------------------------------------------------------------------------------------

struct WakeFlag(AtomicBool);

impl Wake for WakeFlag {
    fn wake(self: Arc<Self>) {
        self.0.store(true, Ordering::SeqCst);
    }
    fn wake_by_ref(self: &Arc<Self>) {
        self.0.store(true, Ordering::SeqCst);
    }
}

pub type TaskFut = Pin<Box<dyn Future<Output = String>>>;

struct TaskSlot {
    fut: Option<TaskFut>,
    flag: Arc<WakeFlag>,
    started: bool,
    result: Option<String>,
    start_clock: u64,
    finish_clock: u64,
}

#[derive(Clone, Copy, Debug, PartialEq, Eq)]
pub enum Choice {
    Start(usize),
    Release(usize),
}

impl Choice {
    pub fn text(&self) -> String {
        match self {
            Choice::Start(t) => format!("s{t}"),
            Choice::Release(t) => format!("r{t}"),
        }
    }
    pub fn parse(s: &str) -> Option<Choice> {
        let t: usize = s.get(1..)?.parse().ok()?;
        match s.as_bytes().first()? {
            b's' => Some(Choice::Start(t)),
            b'r' => Some(Choice::Release(t)),
            _ => None,
        }
    }
}

pub struct Exec {
    tasks: Vec<TaskSlot>,
    ctl: Arc<Ctl>,
    pub clock: u64,
    /// every choice taken, with the backend call it released (None for Start)
    pub trace: Vec<(Choice, Option<CallInfo>)>,
}

impl Exec {
    pub fn new(ctl: Arc<Ctl>, futs: Vec<TaskFut>) -> Exec {
        let tasks = futs
            .into_iter()
            .map(|f| TaskSlot { fut: Some(f), flag: Arc::new(WakeFlag(AtomicBool::new(false))), started: false, result: None, start_clock: 0, finish_clock: 0 })
            .collect();
        Exec { tasks, ctl, clock: 0, trace: vec![] }
    }

    /// polls woken tasks, lowest index first, until none is runnable
    fn settle(&mut self) {
        loop {
            let Some(i) = (0..self.tasks.len()).find(|&i| self.tasks[i].started && self.tasks[i].fut.is_some() && self.tasks[i].flag.0.swap(false, Ordering::SeqCst)) else {
                break;
            };
            let waker = Waker::from(self.tasks[i].flag.clone());
            let mut cx = Context::from_waker(&waker);
            self.ctl.set_current(Some(i));
            let r = self.tasks[i].fut.as_mut().unwrap().as_mut().poll(&mut cx);
            self.ctl.set_current(None);
            if let Poll::Ready(out) = r {
                self.tasks[i].fut = None;
                self.tasks[i].result = Some(out);
                self.tasks[i].finish_clock = self.clock;
            }
        }
    }

    /// enabled choices: releases of parked calls (ascending task), then the start of the next
    /// unstarted task (tasks start in index order)
    pub fn enabled(&self, all_started_first: bool) -> Vec<Choice> {
        let next_unstarted = self.tasks.iter().position(|t| !t.started);
        if all_started_first && let Some(i) = next_unstarted {
            return vec![Choice::Start(i)];
        }
        let mut v: Vec<Choice> = self.ctl.parked_tasks().into_iter().map(Choice::Release).collect();
        if let Some(i) = next_unstarted {
            v.push(Choice::Start(i));
        }
        v
    }

    pub fn is_enabled(&self, c: Choice) -> bool {
        match c {
            Choice::Start(i) => i < self.tasks.len() && !self.tasks[i].started,
            Choice::Release(i) => self.ctl.parked_tasks().contains(&i),
        }
    }

    pub fn take(&mut self, c: Choice) {
        self.clock += 1;
        match c {
            Choice::Start(i) => {
                self.tasks[i].started = true;
                self.tasks[i].start_clock = self.clock;
                self.tasks[i].flag.0.store(true, Ordering::SeqCst);
                self.trace.push((c, None));
            }
            Choice::Release(i) => {
                let info = self.ctl.release(i);
                self.trace.push((c, info));
            }
        }
        self.settle();
    }

    pub fn all_done(&self) -> bool {
        self.tasks.iter().all(|t| t.result.is_some())
    }

    pub fn results(&self) -> Vec<Option<String>> {
        self.tasks.iter().map(|t| t.result.clone()).collect()
    }

    /// (start, finish) logical clocks per task
    pub fn times(&self) -> Vec<(u64, u64)> {
        self.tasks.iter().map(|t| (t.start_clock, t.finish_clock)).collect()
    }
}
