//! C05 — concurrent writers serialize: nothing lost, nothing doubled, state converges.
//!
//! A case is a small scenario: index configuration, a sequential pre-population (`init …`), and a
//! set of 2–4 calls (`op …`) issued concurrently on one `Collection` whose backend is a
//! `SchedStore`.  Every backend call parks until the explorer releases it; the calls run on a
//! manual single-threaded executor, so a schedule is a list of `s<task>` (call the operation) and
//! `r<task>` (release its oldest parked backend call) choices.  All choice lists of a scenario are
//! enumerated (bounded, then sampled) and each execution is
//!
//!  * replayed by the Lean model (`drv_c05` expands the choice list into a schedule of the model's
//!    atomic actions with tokio's FIFO lock hand-over and runs `runSchedule`): return values and
//!    the final dump (ids, documents, index contents, counters, extensions, what flush persisted)
//!    must be equal — the correspondence;
//!  * judged by an independent Wing–Gong search against a sequential BTreeMap reference — the
//!    oracle (see `oracle.rs` for the exact reading of the property).
//!
//! Multi-threaded randomized runs (real parallelism, tokio multi-thread runtime) are checked by
//! the same oracle and reported as *measured*.
mod oracle;
mod sched;

use anda_db::{
    collection::{Collection, CollectionConfig, CollectionMetadata},
    database::{AndaDB, DBConfig},
    error::DBError,
    schema::{AndaDBSchema, Document, Fv},
    storage::StorageConfig,
};
use object_store::{ObjectStore, memory::InMemory};
use oracle::{D, OpK, Seq, fmt_doc};
use sched::{CallInfo, Choice, Exec, SchedStore, TaskFut};
use serde::{Deserialize, Serialize};
use std::collections::BTreeMap;
use std::sync::Arc;
use vh_common::serde_json::json;
use vh_common::*;

#[derive(Debug, Clone, Serialize, Deserialize, AndaDBSchema)]
struct Doc {
    _id: u64,
    #[unique]
    k: u64,
    #[unique]
    u: u64,
    v: u64,
}

const DB: &str = "d";
const COLL: &str = "c";

// ------------------------------------------------------------------------------------------
// scenarios and their text form
// ------------------------------------------------------------------------------------------

#[derive(Clone, Debug, Default)]
struct Scenario {
    idx_k: bool,
    idx_u: bool,
    init: Vec<OpK>,
    ops: Vec<OpK>,
    sched: Option<Vec<Choice>>,
    /// `gate <task> <index>`: real-parallelism replay — the task runs on its own OS thread and is
    /// held inside the index-value hook of B-tree index `<index>` (i.e. between two index
    /// mutations of its synchronous index closure) until every other call has returned.
    gate: Option<(usize, String)>,
    /// oracle-only pass: read cache on and every backend call also parks *after* it was applied
    /// (the windows the cache generations protect); the model has no cache, so it is not consulted
    cache: bool,
}

fn op_text(o: &OpK) -> String {
    match o {
        OpK::Add { k, u, v } => format!("add {k} {u} {v}"),
        OpK::Upd { id, k, u, v } => {
            let mut f = vec![];
            if let Some(x) = k { f.push(format!("k={x}")) }
            if let Some(x) = u { f.push(format!("u={x}")) }
            if let Some(x) = v { f.push(format!("v={x}")) }
            format!("upd {id} {}", if f.is_empty() { "-".to_string() } else { f.join(",") })
        }
        OpK::Rm { id } => format!("rm {id}"),
        OpK::Get { id } => format!("get {id}"),
        OpK::Flush => "flush".into(),
        OpK::Ext { key, val } => format!("ext {key} {val}"),
    }
}

fn parse_op(t: &[&str]) -> Option<OpK> {
    Some(match t {
        ["add", k, u, v] => OpK::Add { k: k.parse().ok()?, u: u.parse().ok()?, v: v.parse().ok()? },
        ["upd", id, fields] => {
            let (mut k, mut u, mut v) = (None, None, None);
            if *fields != "-" {
                for f in fields.split(',') {
                    let (n, x) = f.split_once('=')?;
                    let x: u64 = x.parse().ok()?;
                    match n { "k" => k = Some(x), "u" => u = Some(x), "v" => v = Some(x), _ => return None }
                }
            }
            OpK::Upd { id: id.parse().ok()?, k, u, v }
        }
        ["rm", id] => OpK::Rm { id: id.parse().ok()? },
        ["get", id] => OpK::Get { id: id.parse().ok()? },
        ["flush"] => OpK::Flush,
        ["ext", key, val] => OpK::Ext { key: key.parse().ok()?, val: val.parse().ok()? },
        _ => return None,
    })
}

impl Scenario {
    fn lines(&self) -> Vec<String> {
        let mut l = vec![format!("conf {} {}", self.idx_k as u8, self.idx_u as u8)];
        l.extend(self.init.iter().map(|o| format!("init {}", op_text(o))));
        l.extend(self.ops.iter().map(|o| format!("op {}", op_text(o))));
        if let Some((t, ix)) = &self.gate {
            l.push(format!("gate {t} {ix}"));
        }
        if self.cache {
            l.push("cache on".into());
        }
        if let Some(s) = &self.sched {
            l.push(format!("sched {}", join(s.iter().map(|c| c.text()), ",")));
        }
        l
    }
    fn parse(lines: &[String]) -> Option<Scenario> {
        let mut sc = Scenario::default();
        for l in lines {
            let t: Vec<&str> = l.split(' ').filter(|s| !s.is_empty()).collect();
            match t.as_slice() {
                ["conf", a, b] => { sc.idx_k = *a == "1"; sc.idx_u = *b == "1"; }
                ["init", rest @ ..] => sc.init.push(parse_op(rest)?),
                ["op", rest @ ..] => sc.ops.push(parse_op(rest)?),
                ["gate", t, ix] => sc.gate = Some((t.parse().ok()?, ix.to_string())),
                ["cache", "on"] => sc.cache = true,
                ["sched", s] => sc.sched = Some(if *s == "-" { vec![] } else { s.split(',').map(Choice::parse).collect::<Option<Vec<_>>>()? }),
                _ => return None,
            }
        }
        Some(sc)
    }
}

// ------------------------------------------------------------------------------------------
// running the real code
// ------------------------------------------------------------------------------------------

fn err_text(e: &DBError) -> String {
    match e {
        DBError::NotFound { .. } => "err:notfound".into(),
        DBError::AlreadyExists { .. } => "err:exists".into(),
        DBError::Precondition { .. } => "err:precond".into(),
        DBError::Schema { .. } => "err:invalid".into(),
        e if e.collection_state().is_some() => "err:state".into(),
        DBError::Generic { source, .. } if source.to_string().contains("No fields to update") => "err:invalid".into(),
        DBError::Generic { source, .. } if source.to_string().contains("read-only") => "err:state".into(),
        other => format!("err:other({})", format!("{other:?}").replace([' ', '\n'], "_").chars().take(120).collect::<String>()),
    }
}

fn doc_of(d: &Document) -> D {
    let g = |n: &str| match d.get_field(n) { Some(Fv::U64(x)) => *x, _ => u64::MAX };
    (g("k"), g("u"), g("v"))
}

async fn apply(c: &Collection, op: &OpK) -> String {
    match op {
        OpK::Add { k, u, v } => match c.add_from(&Doc { _id: 0, k: *k, u: *u, v: *v }).await {
            Ok(id) => format!("id={id}"),
            Err(e) => err_text(&e),
        },
        OpK::Upd { id, k, u, v } => {
            let mut f = BTreeMap::new();
            if let Some(x) = k { f.insert("k".to_string(), Fv::U64(*x)); }
            if let Some(x) = u { f.insert("u".to_string(), Fv::U64(*x)); }
            if let Some(x) = v { f.insert("v".to_string(), Fv::U64(*x)); }
            match c.update(*id, f).await {
                Ok(d) => fmt_doc(&doc_of(&d)),
                Err(e) => err_text(&e),
            }
        }
        OpK::Rm { id } => match c.remove(*id).await {
            Ok(Some(d)) => fmt_doc(&doc_of(&d)),
            Ok(None) => "none".into(),
            Err(e) => err_text(&e),
        },
        OpK::Get { id } => match c.get(*id).await {
            Ok(d) => fmt_doc(&doc_of(&d)),
            Err(e) => err_text(&e),
        },
        OpK::Flush => match c.flush(flush_now()).await {
            Ok(b) => format!("flushed={b}"),
            Err(e) => err_text(&e),
        },
        OpK::Ext { key, val } => match c.save_extension(format!("e{key}"), Fv::U64(*val)).await {
            Ok(()) => "ok".into(),
            Err(e) => err_text(&e),
        },
    }
}

/// `Storage::store_metadata` skips its PUT when neither the checkpoint nor the *millisecond* moved;
/// a strictly increasing clock makes every flush take the same backend calls.
fn flush_now() -> u64 {
    static TICK: std::sync::atomic::AtomicU64 = std::sync::atomic::AtomicU64::new(0);
    anda_db::unix_ms() + 1000 * TICK.fetch_add(1, std::sync::atomic::Ordering::SeqCst)
}

/// Index hooks that can hold one call between two index mutations (see `Scenario::gate`).
#[derive(Default)]
struct GateHooks {
    armed: std::sync::atomic::AtomicBool,
    index: std::sync::Mutex<String>,
    doc: std::sync::Mutex<(u64, u64)>,
    reached: (std::sync::Mutex<bool>, std::sync::Condvar),
    go: (std::sync::Mutex<bool>, std::sync::Condvar),
}

impl anda_db::index::IndexHooks for GateHooks {
    fn btree_index_value<'a>(&self, index: &anda_db::index::BTree, doc: &'a Document) -> Option<std::borrow::Cow<'a, Fv>> {
        if self.armed.load(std::sync::atomic::Ordering::SeqCst) && index.name() == *self.index.lock().unwrap() {
            let d = doc_of(doc);
            if (d.0, d.1) == *self.doc.lock().unwrap() {
                self.armed.store(false, std::sync::atomic::Ordering::SeqCst);
                *self.reached.0.lock().unwrap() = true;
                self.reached.1.notify_all();
                let g = self.go.0.lock().unwrap();
                let _ = self.go.1.wait_timeout_while(g, std::time::Duration::from_secs(10), |go| !*go).unwrap();
            }
        }
        anda_db::index::IndexHooks::btree_index_value(&anda_db::index::DefaultIndexHooks, index, doc)
    }
}

struct Live {
    _db: AndaDB,
    c: Arc<Collection>,
    mem: Arc<InMemory>,
    ctl: Arc<sched::Ctl>,
    hooks: Arc<GateHooks>,
    /// counters right after creation (the model starts from 0)
    base_version: u64,
}

fn block_on<F: std::future::Future>(rt: &tokio::runtime::Runtime, f: F) -> F::Output {
    rt.block_on(f)
}

fn setup(rt: &tokio::runtime::Runtime, sc: &Scenario) -> Result<Live, String> {
    let mem = Arc::new(InMemory::new());
    let (store, ctl) = SchedStore::wrap(mem.clone());
    let (idx_k, idx_u) = (sc.idx_k, sc.idx_u);
    let hooks = Arc::new(GateHooks::default());
    let hooks2 = hooks.clone();
    let gated = sc.gate.is_some();
    let cache_on = sc.cache;
    block_on(rt, async {
        let db = AndaDB::connect(
            Arc::new(store),
            DBConfig { name: DB.into(), description: String::new(), storage: StorageConfig { cache_max_capacity: if cache_on { 10000 } else { 0 }, compress_level: 0, ..Default::default() }, lock: None },
        )
        .await
        .map_err(|e| format!("connect: {e}"))?;
        let c = db
            .open_or_create_collection(Doc::schema().map_err(|e| format!("schema: {e}"))?, CollectionConfig { name: COLL.into(), description: String::new() }, async move |c| {
                if gated { c.set_index_hooks(hooks2); }
                // unique indexes are *prepended* to `btree_indexes` (create_btree_index: `insert(0, …)`), and the
                // index closures walk that vector: creating `u` first makes the walk order k, u — the model's order
                if idx_u { c.create_btree_index_nx(&["u"]).await?; }
                if idx_k { c.create_btree_index_nx(&["k"]).await?; }
                Ok(())
            })
            .await
            .map_err(|e| format!("create: {e}"))?;
        c.flush(flush_now()).await.map_err(|e| format!("settle flush: {e}"))?;
        let base_version = c.stats().version;
        Ok(Live { _db: db, c, mem, ctl, hooks, base_version })
    })
}

/// class of a backend call, relative to the collection (what the model has an action for)
fn classify(info: &CallInfo) -> &'static str {
    let p = info.path.strip_prefix(&format!("{DB}/{COLL}/")).unwrap_or(&info.path);
    if p.starts_with("data/") { "doc" }
    else if p.starts_with("mutation_intents/") { "intent" }
    else if p == "alloc_watermark.cbor" { "wm" }
    else if p == "meta.cbor" { "meta" }
    else if p == "ids.cbor" { "ids" }
    else if p == "storage_meta.cbor" { "smeta" }
    else if p.starts_with("btree_indexes/") { "index" }
    else { "other" }
}

fn csv(ids: impl IntoIterator<Item = u64>) -> String {
    let v: Vec<String> = ids.into_iter().map(|i| i.to_string()).collect();
    if v.is_empty() { "-".into() } else { v.join(",") }
}

/// canonical final state: the part the oracle explains (`Seq::dump` format) and the extras only
/// the model predicts
fn dump(rt: &tokio::runtime::Runtime, live: &Live, sc: &Scenario) -> (String, String) {
    let c = &live.c;
    let ids = c.ids();
    let mut docs = vec![];
    for id in &ids {
        let r = block_on(rt, c.get(*id));
        docs.push(match r { Ok(d) => { let d = doc_of(&d); format!("{id}:{}/{}/{}", d.0, d.1, d.2) } Err(e) => format!("{id}:{}", err_text(&e)) });
    }
    let ix = |on: bool, name: &str| -> String {
        if !on { return "off".into(); }
        let Ok(view) = c.get_btree_index(&[name]) else { return "missing".into() };
        let mut v: Vec<(u64, u64)> = vec![];
        for key in view.keys(None, None) {
            let kk = match &key { Fv::U64(x) => *x, _ => u64::MAX };
            let ids: Vec<u64> = view.query_with(&key, |ids| Some(ids.clone())).unwrap_or_default();
            for id in ids { v.push((kk, id)); }
        }
        v.sort();
        if v.is_empty() { "-".into() } else { v.iter().map(|(k, i)| format!("{k}:{i}")).collect::<Vec<_>>().join(";") }
    };
    let st = c.stats();
    let ext: Vec<String> = c.extensions_with(|m| m.iter().map(|(k, v)| format!("{}:{}", k.trim_start_matches('e'), match v { Fv::U64(x) => x.to_string(), _ => "?".into() })).collect());
    let main = format!(
        "ids={} docs={} idxK={} idxU={} counts={}/{}/{} ext={}",
        csv(ids.iter().copied()),
        if docs.is_empty() { "-".into() } else { docs.join(";") },
        ix(sc.idx_k, "k"),
        ix(sc.idx_u, "u"),
        st.insert_count, st.update_count, st.delete_count,
        if ext.is_empty() { "-".into() } else { ext.join(";") }
    );
    // objects actually present under data/
    let objs: Vec<u64> = {
        use futures::StreamExt;
        let prefix = object_store::path::Path::from(format!("{DB}/{COLL}/data"));
        let mut v: Vec<u64> = block_on(rt, async { live.mem.list(Some(&prefix)).filter_map(|m| async move { m.ok() }).collect::<Vec<_>>().await })
            .into_iter()
            .filter_map(|m| m.location.filename().and_then(|f| f.strip_suffix(".cbor")).and_then(|s| s.parse().ok()))
            .collect();
        v.sort();
        v
    };
    let extra = format!("objs={} max={} ver={} poisoned={}", csv(objs), c.max_document_id(), st.version - live.base_version, c.is_poisoned());
    (main, extra)
}

struct Outcome {
    init_results: Vec<String>,
    results: Vec<String>,
    times: Vec<(u64, u64)>,
    choices: Vec<Choice>,
    /// the choices the model has an action for (`s<t>` / `r<t>`)
    model_sched: Vec<String>,
    classes: Vec<String>,
    dump_main: String,
    dump_extra: String,
    deadlock: bool,
    /// number of enabled choices at every point (for the DFS)
    branching: Vec<usize>,
}

fn decode_ids(bytes: &[u8]) -> Option<Vec<u64>> {
    let raw: Vec<u8> = cbor2::from_reader(bytes).ok()?;
    let tm = croaring::Treemap::try_deserialize::<croaring::Portable>(&raw)?;
    Some(tm.iter().collect())
}

fn decode_meta(bytes: &[u8]) -> Option<String> {
    let m: CollectionMetadata = cbor2::from_reader(bytes).ok()?;
    Some(format!("{}/{}/{}/{}", m.stats.num_documents, m.stats.insert_count, m.stats.update_count, m.stats.delete_count))
}

/// One execution. `choose(enabled)` picks the index of the next choice.
fn execute(rt: &tokio::runtime::Runtime, sc: &Scenario, all_started_first: bool, choose: &mut dyn FnMut(&[Choice]) -> usize) -> Result<Outcome, String> {
    let live = setup(rt, sc)?;
    let mut init_results = vec![];
    for op in &sc.init {
        init_results.push(block_on(rt, apply(&live.c, op)));
    }
    let _enter = rt.enter();
    live.ctl.set_park(true);
    live.ctl.set_post(sc.cache);
    let futs: Vec<TaskFut> = sc
        .ops
        .iter()
        .map(|op| {
            let c = live.c.clone();
            let op = op.clone();
            Box::pin(tokio::task::unconstrained(async move { apply(&c, &op).await })) as TaskFut
        })
        .collect();
    let mut ex = Exec::new(live.ctl.clone(), futs);
    let mut branching = vec![];
    let mut deadlock = false;
    let mut steps = 0;
    while !ex.all_done() {
        let en = ex.enabled(all_started_first);
        if en.is_empty() {
            deadlock = true;
            break;
        }
        let i = choose(&en);
        if i >= en.len() {
            return Err(format!("schedule names a disabled choice at step {steps} (enabled: {})", join(en.iter().map(|c| c.text()), ",")));
        }
        branching.push(en.len());
        ex.take(en[i]);
        steps += 1;
        if steps > 2000 {
            return Err("execution does not terminate".into());
        }
    }
    live.ctl.set_park(false);
    let times = ex.times();
    let mut results: Vec<String> = ex.results().into_iter().map(|r| r.unwrap_or_else(|| "pending".into())).collect();
    // what each flush persisted (payloads of its ids / metadata PUTs)
    let puts = live.ctl.take_puts();
    for (t, r) in results.iter_mut().enumerate() {
        if matches!(sc.ops[t], OpK::Flush) && r.starts_with("flushed=") {
            let ids = puts.iter().rev().find(|(pt, p, _)| *pt == t && p.ends_with(&format!("{COLL}/ids.cbor"))).map(|(_, _, b)| decode_ids(b).map(csv).unwrap_or_else(|| "undecodable".into()));
            let meta = puts.iter().rev().find(|(pt, p, _)| *pt == t && p.ends_with(&format!("{COLL}/meta.cbor"))).map(|(_, _, b)| decode_meta(b).unwrap_or_else(|| "undecodable".into()));
            *r = format!("{r};ids={};meta={}", ids.unwrap_or_else(|| "x".into()), meta.unwrap_or_else(|| "x".into()));
        }
    }
    // the model's view of the choice list: drop the calls it has no action for; of a flush's index
    // calls keep the last one of each run
    let trace = ex.trace.clone();
    let mut model_sched = vec![];
    let mut classes = vec![];
    for (i, (ch, info)) in trace.iter().enumerate() {
        match (ch, info) {
            (Choice::Start(_), _) => { model_sched.push(ch.text()); classes.push("start".to_string()); }
            (Choice::Release(t), Some(info)) => {
                let cl = classify(info);
                classes.push(format!("{}{}", info.method, cl));
                match cl {
                    "index" => {
                        let next_same = trace[i + 1..].iter().find_map(|(c2, i2)| match (c2, i2) { (Choice::Release(t2), Some(i2)) if t2 == t => Some(classify(i2)), _ => None });
                        if next_same != Some("index") { model_sched.push(ch.text()); }
                    }
                    "other" => {}
                    _ => model_sched.push(ch.text()),
                }
            }
            _ => {}
        }
    }
    let (dump_main, dump_extra) = dump(rt, &live, sc);
    Ok(Outcome { init_results, results, times, choices: trace.iter().map(|(c, _)| *c).collect(), model_sched, classes, dump_main, dump_extra, deadlock, branching })
}

/// Real parallelism, deterministically: the gated call runs on its own OS thread and is held
/// inside its index closure; the other calls run one after the other on this thread; then the
/// gated call is let go.  The store is pass-through (no parking).
fn execute_gated(rt: &tokio::runtime::Runtime, sc: &Scenario) -> Result<Outcome, String> {
    let (gt, gix) = sc.gate.clone().ok_or("no gate")?;
    let live = setup(rt, sc)?;
    let mut init_results = vec![];
    for op in &sc.init {
        init_results.push(block_on(rt, apply(&live.c, op)));
    }
    let gop = sc.ops.get(gt).cloned().ok_or("gate names no call")?;
    // the document the gated call is about to index: for an add its own, for an update the proposed one
    let target: (u64, u64) = match &gop {
        OpK::Add { k, u, .. } => (*k, *u),
        OpK::Upd { id, k, u, .. } => {
            let cur = block_on(rt, live.c.get(*id)).map(|d| doc_of(&d)).map_err(|e| format!("gated update target: {e}"))?;
            (k.unwrap_or(cur.0), u.unwrap_or(cur.1))
        }
        _ => return Err("only add / update can be gated".into()),
    };
    *live.hooks.index.lock().unwrap() = gix.clone();
    *live.hooks.doc.lock().unwrap() = target;
    live.hooks.armed.store(true, std::sync::atomic::Ordering::SeqCst);
    let c2 = live.c.clone();
    let handle = std::thread::spawn(move || {
        let rt2 = tokio::runtime::Builder::new_current_thread().enable_all().build().unwrap();
        rt2.block_on(apply(&c2, &gop))
    });
    {
        let g = live.hooks.reached.0.lock().unwrap();
        let (g, to) = live.hooks.reached.1.wait_timeout_while(g, std::time::Duration::from_secs(5), |r| !*r).unwrap();
        if to.timed_out() && !*g {
            *live.hooks.go.0.lock().unwrap() = true;
            live.hooks.go.1.notify_all();
            let _ = handle.join();
            return Err("the gated call never reached the hook of that index".into());
        }
    }
    let n = sc.ops.len();
    let mut results = vec![String::new(); n];
    let mut times = vec![(0u64, 0u64); n];
    let mut clock = 1u64;
    times[gt].0 = clock;
    let mut model_sched = vec![format!("s{gt}")];
    for (t, op) in sc.ops.iter().enumerate() {
        if t == gt { continue; }
        clock += 1;
        times[t].0 = clock;
        results[t] = block_on(rt, apply(&live.c, op));
        clock += 1;
        times[t].1 = clock;
        model_sched.push(format!("a{t}"));
    }
    *live.hooks.go.0.lock().unwrap() = true;
    live.hooks.go.1.notify_all();
    results[gt] = handle.join().map_err(|_| "gated call panicked".to_string())?;
    clock += 1;
    times[gt].1 = clock;
    model_sched.push(format!("a{gt}"));
    for (t, r) in results.iter_mut().enumerate() {
        if matches!(sc.ops[t], OpK::Flush) && r.starts_with("flushed=") { *r = format!("{r};ids=x;meta=x"); }
    }
    let (dump_main, dump_extra) = dump(rt, &live, sc);
    Ok(Outcome { init_results, results, times, choices: vec![], model_sched, classes: vec![], dump_main, dump_extra, deadlock: false, branching: vec![] })
}

// ------------------------------------------------------------------------------------------
// generation
// ------------------------------------------------------------------------------------------

fn gen_scenario(r: &mut Rng) -> Scenario {
    let (idx_k, idx_u) = match r.below(8) { 0 => (false, false), 1..=4 => (true, false), _ => (true, true) };
    let n_init = r.usize(4);
    let mut init = vec![];
    for i in 0..n_init {
        // distinct keys so that the pre-population succeeds; small value space so that the
        // concurrent calls collide with it
        let v = r.below(3);
        init.push(OpK::Add { k: 10 + i as u64, u: 20 + i as u64, v });
    }
    if n_init > 0 && r.chance(1, 6) { let id = 1 + r.below(n_init as u64); init.push(OpK::Rm { id }); }
    if r.chance(2, 3) { init.push(OpK::Flush); }
    // 2..4 concurrent calls; half of the scenarios have 3 or 4
    let wide = r.chance(1, 2);
    let n_ops = if wide { 3 + r.usize(2) } else { 2 + r.usize(2) };
    let hot = 1 + r.below(n_init.max(1) as u64); // the document most calls fight over
    let key = |r: &mut Rng| if r.chance(1, 2) { 10 + r.below(4) } else { 30 + r.below(2) };
    let ukey = |r: &mut Rng| if r.chance(1, 2) { 20 + r.below(4) } else { 40 + r.below(2) };
    let mut ops = vec![];
    for _ in 0..n_ops {
        let id = if r.chance(3, 4) { hot } else { 1 + r.below(n_init as u64 + 2) };
        ops.push(match r.below(20) {
            0..=4 => { let (k, u, v) = (key(r), ukey(r), r.below(3)); OpK::Add { k, u, v } }
            5..=10 => {
                let mut k = None; let mut u = None; let mut v = None;
match r.below(13) { 12 => {} /* empty field map: `No fields to update` */ 0 | 6 => k = Some(key(r)), 1 | 7 => u = Some(ukey(r)), 2 | 3 | 8 | 9 => v = Some(r.below(5)), 4 | 10 => { k = Some(key(r)); v = Some(r.below(5)); } _ => { k = Some(key(r)); u = Some(ukey(r)); } }
                OpK::Upd { id, k, u, v }
            }
            11..=14 => OpK::Rm { id },
            15..=16 => OpK::Get { id },
            17..=18 => OpK::Flush,
            _ => { let (key, val) = (r.below(2), r.below(9)); OpK::Ext { key, val } }
        });
    }
    let cache = r.chance(1, 5);
    Scenario { idx_k, idx_u, init, ops, sched: None, gate: None, cache }
}

// ------------------------------------------------------------------------------------------
// checking one execution
// ------------------------------------------------------------------------------------------

struct Checked {
    oracle_fail: Option<(String, String, String, String)>, // key, what, expected, observed
    disagreement: Option<(String, String)>,               // model, impl
    nontrivial: bool,
}

fn init_state(sc: &Scenario, init_results: &[String]) -> Result<Seq, (String, String)> {
    let mut st = Seq { idx_k: sc.idx_k, idx_u: sc.idx_u, ..Default::default() };
    let mut next = 0u64;
    for (op, got) in sc.init.iter().zip(init_results) {
        let want = st.apply_fresh(op, &mut next);
        let got_cmp = if got.starts_with("flushed=") { "flushed" } else { got.as_str() };
        if want != got_cmp {
            return Err((want, got.clone()));
        }
    }
    Ok(st)
}

fn check_execution(sc: &Scenario, out: &Outcome, model: &mut Option<ModelProc>) -> Checked {
    let mut ck = Checked { oracle_fail: None, disagreement: None, nontrivial: false };
    let sched_txt = join(out.choices.iter().map(|c| c.text()), ",");
    if out.deadlock {
        ck.oracle_fail = Some(("deadlock".into(), "calls are blocked forever under this schedule".into(), "all calls return".into(), format!("results {:?} after {sched_txt}", out.results)));
        return ck;
    }
    if let Some(r) = out.results.iter().find(|r| r.starts_with("err:other") || r.starts_with("err:precond") || r.starts_with("err:state")) {
        ck.oracle_fail = Some(("unexpected-error".into(), "a call failed with an error no sequential execution produces".into(), "ok / notfound / exists".into(), r.clone()));
        return ck;
    }
    match init_state(sc, &out.init_results) {
        Err((want, got)) => {
            ck.oracle_fail = Some(("sequential-init".into(), "the sequential pre-population already differs from the reference".into(), want, got));
            return ck;
        }
        Ok(init) => {
            let v = oracle::check(&init, &sc.ops, &out.results, &out.times, &out.dump_main);
            if !v.ok {
                ck.oracle_fail = Some((v.key, v.what, v.expected, format!("results [{}] final {} {} under {sched_txt}", out.results.join(" | "), out.dump_main, out.dump_extra)));
            }
            // objects == ids, handle not poisoned
            let ids = out.dump_main.split(' ').next().unwrap_or("").trim_start_matches("ids=").to_string();
            let objs = out.dump_extra.split(' ').next().unwrap_or("").trim_start_matches("objs=").to_string();
            if ck.oracle_fail.is_none() && (ids != objs || !out.dump_extra.ends_with("poisoned=false")) {
                ck.oracle_fail = Some(("objects-vs-ids".into(), "document objects and the id bitmap differ after all calls returned (or the handle is poisoned)".into(), format!("objs={ids} poisoned=false"), out.dump_extra.clone()));
            }
        }
    }
    ck.nontrivial = out.results.iter().any(|r| r.starts_with("id=") || r.starts_with("doc=") || r.starts_with("flushed=true"));
    if let Some(m) = model.as_mut() {
        let mut lines = sc.lines();
        lines.retain(|l| !l.starts_with("sched "));
        if sc.gate.is_some() { lines.insert(1, "fine".into()); }
        lines.push(format!("sched {}", if out.model_sched.is_empty() { "-".to_string() } else { out.model_sched.join(",") }));
        let ans = m.ask(&format!("run {}", lines.join(" | ")));
        let imp = format!("init [{}] res [{}] {} {}", out.init_results.join(" | "), out.results.join(" | "), out.dump_main, out.dump_extra);
        if ans != imp {
            ck.disagreement = Some((ans, imp));
        }
    }
    ck
}

// ------------------------------------------------------------------------------------------
// exploring the schedules of one scenario
// ------------------------------------------------------------------------------------------

struct Explored {
    executions: u64,
    exhaustive: bool,
}

#[allow(clippy::too_many_arguments)]
fn explore(rt: &tokio::runtime::Runtime, name: &str, sc: &Scenario, cap: u64, seed: u64, model: &mut Option<ModelProc>, rep: &mut Report, debug: bool) -> Explored {
    let mut executions = 0u64;
    let mut exhaustive = false;
    let handle = |out: &Outcome, rep: &mut Report, model: &mut Option<ModelProc>| {
        let mut no_model = None;
        let model = if sc.cache { &mut no_model } else { model };
        let ck = check_execution(sc, out, model);
        let mut ops = sc.lines();
        ops.retain(|l| !l.starts_with("sched "));
        if sc.gate.is_none() { ops.push(format!("sched {}", join(out.choices.iter().map(|c| c.text()), ","))); }
        if debug {
            eprintln!("{name}: {} => [{}] {} {} classes {}", ops.join(" | "), out.results.join(" | "), out.dump_main, out.dump_extra, out.classes.join(","));
        }
        rep.case(&ops.join("|"), ck.nontrivial);
        if model.is_some() { rep.model_compared += 1; }
        if sc.cache { rep.hit("pass:cache-on-oracle-only"); }
        for r in &out.results { rep.hit(&format!("result:{}", r.split(['=', '(']).next().unwrap_or("?"))); }
        // which branch of the model each call took (op kind x outcome), and which backend-call classes were scheduled
        for (o, r) in sc.ops.iter().zip(&out.results) {
            let kind = op_text(o).split(' ').next().unwrap_or("?").to_string();
            let outcome = if r.starts_with("flushed=") { r.split(';').next().unwrap_or("flushed").replace('=', ":") } else { r.split(['=', '(']).next().unwrap_or("?").to_string() };
            rep.hit(&format!("branch:{kind}:{outcome}"));
        }
        for c in &out.classes { if c != "start" { rep.hit(&format!("call:{c}")); } }
        rep.hit(&format!("tasks:{}", sc.ops.len()));
        if let Some((key, what, exp, obs)) = ck.oracle_fail {
            // a gated replay exhibits a window that only real parallelism opens
            let key = if sc.gate.is_some() { format!("parallel-index-closure:{key}") } else { key };
            rep.oracle_failure(&key, &what, &ops, &exp, &obs);
        }
        if let Some((m, i)) = ck.disagreement {
            rep.disagreement("results / final state of one schedule", &ops, &m, &i);
        }
    };
    if sc.gate.is_some() {
        match execute_gated(rt, sc) {
            Ok(out) => { handle(&out, rep, model); executions += 1; }
            Err(e) => { rep.hit("case_error"); rep.notes.push(format!("{name}: {e}")); }
        }
        return Explored { executions, exhaustive: true };
    }
    if let Some(s) = &sc.sched {
        let mut pos = 0;
        let s = s.clone();
        let mut err = None;
        let r = execute(rt, sc, false, &mut |en| {
            let want = s.get(pos).copied();
            pos += 1;
            match want.and_then(|w| en.iter().position(|c| *c == w)) { Some(i) => i, None => { err = Some(pos); usize::MAX } }
        });
        match r {
            Ok(out) => { handle(&out, rep, model); executions += 1; }
            Err(e) => { rep.hit("case_error"); rep.notes.push(format!("{name}: {e}")); }
        }
        return Explored { executions, exhaustive: true };
    }
    // depth-first enumeration of choice lists (stateless: every execution starts from scratch)
    for all_started_first in [true, false] {
        let mut prefix: Vec<usize> = vec![];
        let budget = if all_started_first { cap * 2 / 3 } else { cap / 3 };
        let mut done = 0u64;
        let mut complete = false;
        loop {
            let mut pos = 0;
            let pre = prefix.clone();
            let r = execute(rt, sc, all_started_first, &mut |_en| { let i = pre.get(pos).copied().unwrap_or(0); pos += 1; i });
            let out = match r { Ok(o) => o, Err(e) => { rep.hit("case_error"); rep.notes.push(format!("{name}: {e}")); break; } };
            handle(&out, rep, model);
            executions += 1;
            done += 1;
            // next prefix
            let mut path: Vec<usize> = (0..out.branching.len()).map(|i| prefix.get(i).copied().unwrap_or(0)).collect();
            loop {
                match path.pop() {
                    None => { complete = true; break; }
                    Some(c) => {
                        let n = out.branching[path.len()];
                        if c + 1 < n { path.push(c + 1); break; }
                    }
                }
            }
            if complete { break; }
            prefix = path;
            if done >= budget { break; }
        }
        if all_started_first { exhaustive = complete; } else { exhaustive &= complete; }
        if !complete {
            // random walks for diversity beyond the DFS corner
            let extra = budget / 2;
            for w in 0..extra {
                let mut r = Rng::for_case(seed ^ 0x5c05, w + if all_started_first { 0 } else { 1 << 32 });
                if let Ok(out) = execute(rt, sc, all_started_first, &mut |en| r.usize(en.len())) {
                    handle(&out, rep, model);
                    executions += 1;
                }
            }
        }
    }
    Explored { executions, exhaustive }
}

// ------------------------------------------------------------------------------------------
// multi-threaded randomized runs (measured)
// ------------------------------------------------------------------------------------------

fn multithread_runs(args: &Args, rep: &mut Report) {
    let runs = if args.focus.is_some() { 3000 } else { args.budget(400, 10000) };
    let rt = tokio::runtime::Builder::new_multi_thread().worker_threads(4).enable_all().build().unwrap();
    let setup_rt = tokio::runtime::Builder::new_current_thread().enable_all().build().unwrap();
    let mut failures = 0u64;
    let mut overlapping = 0u64;
    for i in 0..runs {
        let mut r = Rng::for_case(args.seed ^ 0x77, i);
        let mut sc = gen_scenario(&mut r);
        // larger operation count
        let more = gen_scenario(&mut r);
        sc.ops.extend(more.ops);
        sc.ops.truncate(7);
        let Ok(live) = setup(&setup_rt, &sc) else { continue };
        let mut init_results = vec![];
        for op in &sc.init { init_results.push(setup_rt.block_on(apply(&live.c, op))); }
        let t0 = std::time::Instant::now();
        let handles: Vec<_> = sc
            .ops
            .iter()
            .map(|op| {
                let c = live.c.clone();
                let op = op.clone();
                rt.spawn(async move {
                    let s = t0.elapsed().as_nanos() as u64;
                    let r = apply(&c, &op).await;
                    (r, s, t0.elapsed().as_nanos() as u64)
                })
            })
            .collect();
        let mut results = vec![];
        let mut times = vec![];
        for h in handles {
            match rt.block_on(h) {
                Ok((r, s, e)) => { results.push(r); times.push((s, e)); }
                Err(_) => { results.push("panic".into()); times.push((0, u64::MAX)); }
            }
        }
        for (t, r) in results.iter_mut().enumerate() {
            if matches!(sc.ops[t], OpK::Flush) && r.starts_with("flushed=") { *r = "flushed".into(); }
        }
        if (0..times.len()).any(|a| (0..times.len()).any(|b| a != b && times[a].0 < times[b].1 && times[b].0 < times[a].1)) { overlapping += 1; }
        let (dump_main, dump_extra) = dump(&setup_rt, &live, &sc);
        let Ok(init) = init_state(&sc, &init_results) else { continue };
        let v = oracle::check(&init, &sc.ops, &results, &times, &dump_main);
        if !v.ok {
            failures += 1;
            let mut ops = sc.lines();
            ops.push("# multi-threaded run (not replayable by schedule)".into());
            // with two unique indexes a random multi-threaded run can hit the window of findings
            // F-C05-1/2 (index closures are not atomic across indexes): one stable key for those
            let key = if sc.idx_k && sc.idx_u && v.key.starts_with("not-serializable") { "parallel-index-closure:not-serializable:uniq2:mt-random".to_string() } else { format!("mt:{}", v.key) };
            rep.oracle_failure(&key, &v.what, &ops, &v.expected, &format!("results [{}] final {dump_main} {dump_extra}", results.join(" | ")));
        }
    }
    rep.measured.insert("multithread_runs".into(), json!({"runs": runs, "ops_per_run": "4..7", "worker_threads": 4, "runs_with_overlapping_calls": overlapping, "oracle_failures": failures,
        "note": "real parallelism on tokio's multi-thread runtime, checked by the same Wing-Gong oracle; measured, not proved"}));
}

// ------------------------------------------------------------------------------------------

fn main() {
    let args = Args::parse();
    let mut rep = Report::new(
        "C05",
        &args,
        "case = one execution: scenario (index configuration 0/1/2 unique indexes, 0..3 pre-populated documents, 2..4 concurrent calls \
         out of add/update/remove/get/flush/save_extension, mostly on one hot document) under one schedule (list of start/release choices \
         over the parked backend calls); distinct = distinct (scenario, schedule); non-trivial = at least one call succeeded with an effect \
         (an id, a document, or a flush that persisted)",
    );
    let debug = args.extra.contains_key("debug");
    let rt = tokio::runtime::Builder::new_current_thread().enable_all().build().unwrap();
    let mut model = ModelProc::from_args(&args);

    let mut cases: Vec<(String, Scenario)> = vec![];
    if let Some(p) = &args.replay {
        match Scenario::parse(&read_replay(p)) { Some(sc) => cases.push(("replay".into(), sc)), None => rep.notes.push("replay file does not parse".into()) }
    } else {
        if let Some(dir) = &args.corpus {
            for (name, lines) in read_corpus(dir) {
                match Scenario::parse(&lines) { Some(sc) => cases.push((name, sc)), None => rep.notes.push(format!("corpus file {name} does not parse")) }
            }
        }
        // search mode (an obligation or the correspondence broke): a budget between the tiers, so
        // that it ends well inside its timeout
        let n = if args.focus.is_some() { 8000 } else { args.budget(700, 9000) };
        let only: Option<u64> = args.extra.get("only").and_then(|s| s.parse().ok());
        for i in 0..n {
            if only.is_some_and(|o| o != i) { continue; }
            let mut r = Rng::for_case(args.seed, i);
            cases.push((format!("gen{i}"), gen_scenario(&mut r)));
        }
    }
    let cap = args.extra.get("cap").and_then(|s| s.parse().ok()).unwrap_or(if args.focus.is_some() { 600 } else { args.budget(150, 1000) });
    let mut total = 0u64;
    let mut exhaustive_scenarios = 0u64;
    let mut shrunk = 0;
    let t0 = std::time::Instant::now();
    for (name, sc) in &cases {
        let failures_before = rep.oracle_failures.len();
        let r = std::panic::catch_unwind(std::panic::AssertUnwindSafe(|| explore(&rt, name, sc, cap, args.seed, &mut model, &mut rep, debug)));
        match r {
            Ok(e) => { total += e.executions; if e.exhaustive { exhaustive_scenarios += 1; } }
            Err(_) => rep.oracle_failure("panic", "the implementation panicked", &sc.lines(), "no panic", "panic"),
        }
        // shrink the first failure of this scenario: fewest calls / pre-population ops for which
        // some schedule still fails in the same way
        if rep.oracle_failures.len() > failures_before && args.replay.is_none() && sc.gate.is_none() && sc.sched.is_none() && shrunk < 4 {
            shrunk += 1;
            let class = |k: &str| k.split(':').next().unwrap_or("").to_string();
            let want = class(rep.oracle_failures[failures_before]["key"].as_str().unwrap_or(""));
            let fails = |cand: &Scenario| -> Option<vh_common::serde_json::Value> {
                if cand.ops.len() < 2 { return None; }
                let mut scratch = Report::new("C05", &args, "");
                let mut none = None;
                let ok = std::panic::catch_unwind(std::panic::AssertUnwindSafe(|| explore(&rt, "shrink", cand, 400, args.seed, &mut none, &mut scratch, false)));
                if ok.is_err() { return None; }
                scratch.oracle_failures.iter().find(|f| class(f["key"].as_str().unwrap_or("")) == want).cloned()
            };
            // candidates are index lists into init ++ ops
            let all: Vec<(bool, usize)> = (0..sc.init.len()).map(|i| (true, i)).chain((0..sc.ops.len()).map(|i| (false, i))).collect();
            let build = |keep: &[(bool, usize)]| Scenario {
                init: keep.iter().filter(|(is_init, _)| *is_init).map(|(_, i)| sc.init[*i].clone()).collect(),
                ops: keep.iter().filter(|(is_init, _)| !*is_init).map(|(_, i)| sc.ops[*i].clone()).collect(),
                ..sc.clone()
            };
            let small = shrink(all, |cand| fails(&build(cand)).is_some(), 60);
            if debug { eprintln!("shrink {name}: kept {:?}", small); }
            if let Some(f) = fails(&build(&small)) {
                let mut f = f;
                f["case"] = json!(name);
                f["shrunk_from"] = json!(sc.lines());
                rep.oracle_failures[failures_before] = f;
            }
        }
        for o in &sc.ops { rep.hit(&format!("op:{}", op_text(o).split(' ').next().unwrap_or("?"))); }
        rep.hit(&format!("uniq:{}", sc.idx_k as u8 + sc.idx_u as u8));
        if rep.samples.len() < 4 { rep.sample(json!({"case": name, "ops": sc.lines()})); }
    }
    rep.notes.push(format!("{} scenarios, {} executions, {} scenarios enumerated exhaustively (others: DFS prefix + random walks), {:.1}s", cases.len(), total, exhaustive_scenarios, t0.elapsed().as_secs_f64()));
    if args.replay.is_none() {
        multithread_runs(&args, &mut rep);
    }
    rep.write(&args);
}
