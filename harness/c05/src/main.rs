//! Harness for property C05 (stub: not built yet).
fn main() {
    let a = vh_common::Args::parse();
    let r = vh_common::Report::new("C05", &a, "stub");
    r.write(&a);
}
