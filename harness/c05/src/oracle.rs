//! Independent oracle of C05: a plain sequential reference of the collection (BTreeMap) and a
//! Wing–Gong style search for an order of the completed mutations that explains every return
//! value and the final state.  Nothing here knows about the Lean model.
//!
//! Reading of the property used here:
//!  * mutations (`add`, `update`, `remove`, `save_extension`, `flush`) must be explained by one
//!    order; the order must respect real time **per document** (A before B when both touch the
//!    same document and A returned before B was called) and for `flush` against everything;
//!  * an id returned by a successful `add` is an opaque fresh token: it must be new (never
//!    returned or live before), and two successful adds never share one; its numeric value is not
//!    required to equal the one the explaining order would have allocated (the allocator is
//!    linearized at `fetch_add`, which precedes the add's effect);
//!  * `get` is a read: it must return a whole document that was a value of that id at some point
//!    (initial value or the result of some call of the run), or not-found if the id was absent at
//!    some point overlapping the read.
use std::collections::{BTreeMap, BTreeSet};

#[derive(Clone, Debug, PartialEq, Eq)]
pub enum OpK {
    Add { k: u64, u: u64, v: u64 },
    Upd { id: u64, k: Option<u64>, u: Option<u64>, v: Option<u64> },
    Rm { id: u64 },
    Get { id: u64 },
    Flush,
    Ext { key: u64, val: u64 },
}

pub type D = (u64, u64, u64);

#[derive(Clone, Debug, Default, PartialEq, Eq)]
pub struct Seq {
    pub idx_k: bool,
    pub idx_u: bool,
    pub docs: BTreeMap<u64, D>,
    /// every id that was ever live
    pub used: BTreeSet<u64>,
    pub ins: u64,
    pub upd: u64,
    pub del: u64,
    pub ext: BTreeMap<u64, u64>,
}

pub fn fmt_doc(d: &D) -> String {
    format!("doc={}/{}/{}", d.0, d.1, d.2)
}

pub fn parse_doc(s: &str) -> Option<D> {
    let r = s.strip_prefix("doc=")?;
    let p: Vec<u64> = r.split('/').filter_map(|x| x.parse().ok()).collect();
    if p.len() == 3 { Some((p[0], p[1], p[2])) } else { None }
}

impl Seq {
    fn conflict(&self, me: Option<u64>, d: &D) -> bool {
        self.docs.iter().any(|(id, o)| Some(*id) != me && ((self.idx_k && o.0 == d.0) || (self.idx_u && o.1 == d.1)))
    }

    /// Sequential execution that *chooses* the id (used for the pre-population, where the real
    /// allocator is sequential): returns the result text.
    pub fn apply_fresh(&mut self, op: &OpK, next_id: &mut u64) -> String {
        match op {
            OpK::Add { k, u, v } => {
                *next_id += 1; // a failed add burns its id too
                let d = (*k, *u, *v);
                if self.conflict(None, &d) {
                    "err:exists".into()
                } else {
                    self.docs.insert(*next_id, d);
                    self.used.insert(*next_id);
                    self.ins += 1;
                    format!("id={}", *next_id)
                }
            }
            other => {
                // every other operation is deterministic: try the possible outcomes
                for cand in self.candidates(other) {
                    if let Some(n) = self.step(other, &cand) {
                        *self = n;
                        return cand;
                    }
                }
                "err:other".into()
            }
        }
    }

    fn candidates(&self, op: &OpK) -> Vec<String> {
        match op {
            OpK::Upd { id, k, u, v } => {
                let mut c = vec!["err:notfound".to_string(), "err:exists".into(), "err:invalid".into()];
                if let Some(d) = self.docs.get(id) {
                    c.insert(0, fmt_doc(&(k.unwrap_or(d.0), u.unwrap_or(d.1), v.unwrap_or(d.2))));
                }
                c
            }
            OpK::Rm { id } => {
                let mut c = vec!["none".to_string()];
                if let Some(d) = self.docs.get(id) {
                    c.insert(0, fmt_doc(d));
                }
                c
            }
            OpK::Ext { .. } => vec!["ok".into()],
            OpK::Flush => vec!["flushed".into()],
            _ => vec![],
        }
    }

    /// Does `op` returning `res` fit this state?  `Some(next state)` if yes.
    pub fn step(&self, op: &OpK, res: &str) -> Option<Seq> {
        let mut n = self.clone();
        match op {
            OpK::Add { k, u, v } => {
                let d = (*k, *u, *v);
                if let Some(id) = res.strip_prefix("id=") {
                    let id: u64 = id.parse().ok()?;
                    if id == 0 || self.used.contains(&id) || self.conflict(None, &d) {
                        return None;
                    }
                    n.docs.insert(id, d);
                    n.used.insert(id);
                    n.ins += 1;
                    Some(n)
                } else if res == "err:exists" {
                    if self.conflict(None, &d) { Some(n) } else { None }
                } else {
                    None
                }
            }
            OpK::Upd { id, k, u, v } => match self.docs.get(id) {
                None => (res == "err:notfound").then_some(n),
                Some(_) if k.is_none() && u.is_none() && v.is_none() => (res == "err:invalid").then_some(n),
                Some(d) => {
                    let nd = (k.unwrap_or(d.0), u.unwrap_or(d.1), v.unwrap_or(d.2));
                    // only the indexes of the fields named by the update are consulted
                    let clash = self.docs.iter().any(|(oid, o)| oid != id && ((self.idx_k && k.is_some() && o.0 == nd.0 && d.0 != nd.0) || (self.idx_u && u.is_some() && o.1 == nd.1 && d.1 != nd.1)));
                    if clash {
                        (res == "err:exists").then_some(n)
                    } else if res == fmt_doc(&nd) {
                        n.docs.insert(*id, nd);
                        n.upd += 1;
                        Some(n)
                    } else {
                        None
                    }
                }
            },
            OpK::Rm { id } => match self.docs.get(id) {
                None => (res == "none").then_some(n),
                Some(d) => {
                    if res == fmt_doc(d) {
                        n.docs.remove(id);
                        n.del += 1;
                        Some(n)
                    } else {
                        None
                    }
                }
            },
            OpK::Get { id } => match self.docs.get(id) {
                None => (res == "err:notfound").then_some(n),
                Some(d) => (res == fmt_doc(d)).then_some(n),
            },
            OpK::Ext { key, val } => {
                if res == "ok" {
                    n.ext.insert(*key, *val);
                    Some(n)
                } else {
                    None
                }
            }
            OpK::Flush => {
                // "flushed=<bool>;ids=<csv|-|x>;meta=<numDocs/ins/upd/del|x>": what the flush persisted must be
                // exactly the state at its place in the order
                if res == "flushed" {
                    return Some(n);
                }
                let mut ok = res.starts_with("flushed=");
                for part in res.split(';') {
                    if let Some(ids) = part.strip_prefix("ids=") {
                        if ids != "x" {
                            let want: Vec<String> = self.docs.keys().map(|i| i.to_string()).collect();
                            let want = if want.is_empty() { "-".to_string() } else { want.join(",") };
                            ok &= ids == want;
                        }
                    } else if let Some(m) = part.strip_prefix("meta=") {
                        if m != "x" {
                            ok &= m == format!("{}/{}/{}/{}", self.docs.len(), self.ins, self.upd, self.del);
                        }
                    }
                }
                ok.then_some(n)
            }
        }
    }

    /// canonical text of the state an order ends in (compared with the implementation's dump)
    pub fn dump(&self) -> String {
        let ids: Vec<String> = self.docs.keys().map(|i| i.to_string()).collect();
        let docs: Vec<String> = self.docs.iter().map(|(i, d)| format!("{i}:{}/{}/{}", d.0, d.1, d.2)).collect();
        let ix = |on: bool, f: &dyn Fn(&D) -> u64| -> String {
            if !on {
                return "off".into();
            }
            let mut v: Vec<(u64, u64)> = self.docs.iter().map(|(i, d)| (f(d), *i)).collect();
            v.sort();
            if v.is_empty() { "-".into() } else { v.iter().map(|(k, i)| format!("{k}:{i}")).collect::<Vec<_>>().join(";") }
        };
        let ext: Vec<String> = self.ext.iter().map(|(k, v)| format!("{k}:{v}")).collect();
        format!(
            "ids={} docs={} idxK={} idxU={} counts={}/{}/{} ext={}",
            if ids.is_empty() { "-".into() } else { ids.join(",") },
            if docs.is_empty() { "-".into() } else { docs.join(";") },
            ix(self.idx_k, &|d| d.0),
            ix(self.idx_u, &|d| d.1),
            self.ins,
            self.upd,
            self.del,
            if ext.is_empty() { "-".into() } else { ext.join(";") }
        )
    }
}

/// the document a call touches (for the per-document real-time order); `None` = all (flush) / none (ext)
fn target(op: &OpK, res: &str) -> Option<u64> {
    match op {
        OpK::Add { .. } => res.strip_prefix("id=").and_then(|s| s.parse().ok()),
        OpK::Upd { id, .. } | OpK::Rm { id } | OpK::Get { id } => Some(*id),
        _ => None,
    }
}

pub struct Verdict {
    pub ok: bool,
    pub what: String,
    pub key: String,
    pub expected: String,
    pub order: Vec<usize>,
}

/// Wing–Gong search.  `ops[i]` returned `results[i]` during `[times[i].0, times[i].1]`;
/// `final_dump` is the implementation's canonical final state (same format as `Seq::dump`).
pub fn check(init: &Seq, ops: &[OpK], results: &[String], times: &[(u64, u64)], final_dump: &str) -> Verdict {
    let n = ops.len();
    // ---- facts that do not need the search -------------------------------------------------
    let mut seen = BTreeSet::new();
    for (i, r) in results.iter().enumerate() {
        if let (OpK::Add { .. }, Some(id)) = (&ops[i], r.strip_prefix("id=")) {
            let id: u64 = id.parse().unwrap_or(0);
            if !seen.insert(id) || init.used.contains(&id) {
                return Verdict { ok: false, what: "two successful adds share an id (or reuse an earlier one)".into(), key: "add:duplicate-id".into(), expected: "distinct fresh ids".into(), order: vec![] };
            }
        }
    }
    for id in ops.iter().filter_map(|o| if let OpK::Rm { id } = o { Some(*id) } else { None }).collect::<BTreeSet<_>>() {
        let winners = (0..n).filter(|&i| ops[i] == OpK::Rm { id } && results[i].starts_with("doc=")).count();
        if winners > 1 {
            return Verdict { ok: false, what: format!("{winners} concurrent removes of document {id} returned it"), key: "remove:double-return".into(), expected: "exactly one remove returns the document".into(), order: vec![] };
        }
    }
    // ---- reads are whole --------------------------------------------------------------------
    for i in 0..n {
        if let OpK::Get { id } = &ops[i] {
            let mut values: BTreeSet<String> = BTreeSet::new();
            let mut may_be_absent = !init.docs.contains_key(id);
            if let Some(d) = init.docs.get(id) {
                values.insert(fmt_doc(d));
            }
            for j in 0..n {
                if times[j].0 > times[i].1 {
                    continue; // called after the read returned
                }
                match &ops[j] {
                    OpK::Upd { id: uid, .. } if uid == id && results[j].starts_with("doc=") => {
                        values.insert(results[j].clone());
                    }
                    OpK::Add { k, u, v } if results[j] == format!("id={id}") => {
                        values.insert(fmt_doc(&(*k, *u, *v)));
                        if times[j].1 >= times[i].0 {
                            may_be_absent = true;
                        }
                    }
                    OpK::Rm { id: rid } if rid == id && results[j].starts_with("doc=") => {
                        may_be_absent = true;
                    }
                    _ => {}
                }
            }
            let r = &results[i];
            let fine = if r == "err:notfound" { may_be_absent } else { values.contains(r) };
            if !fine {
                return Verdict { ok: false, what: format!("get({id}) returned a value no call wrote"), key: "get:not-whole".into(), expected: format!("one of {:?}{}", values, if may_be_absent { " or err:notfound" } else { "" }), order: vec![] };
            }
        }
    }
    // ---- the search ------------------------------------------------------------------------
    // A `get` that does **not** overlap a writer of its document is searched too: it must fit in
    // the explaining order after every call on its document that returned before it was issued
    // and before every one issued after it returned — it sees exactly the acknowledged writes
    // (in particular never a stale cached value). A `get` that overlaps a writer is only required
    // to be whole (the property's wording; with the read cache on it may legitimately return the
    // old value until the writer bumped the generation, even after another read saw the new one).
    let writes_doc = |j: usize, id: u64| -> bool {
        match &ops[j] {
            OpK::Upd { id: x, .. } | OpK::Rm { id: x } => *x == id,
            OpK::Add { .. } => results[j] == format!("id={id}"),
            _ => false,
        }
    };
    let muts: Vec<usize> = (0..n)
        .filter(|&i| match &ops[i] {
            OpK::Get { id } => !(0..n).any(|j| j != i && writes_doc(j, *id) && times[j].0 <= times[i].1 && times[i].0 <= times[j].1),
            _ => true,
        })
        .collect();
    let must_precede = |a: usize, b: usize| -> bool {
        if times[a].1 >= times[b].0 {
            return false;
        }
        if matches!(ops[a], OpK::Flush) || matches!(ops[b], OpK::Flush) {
            return true;
        }
        match (target(&ops[a], &results[a]), target(&ops[b], &results[b])) {
            (Some(x), Some(y)) => x == y,
            _ => false,
        }
    };
    fn dfs(init: &Seq, ops: &[OpK], results: &[String], muts: &[usize], used: &mut Vec<bool>, order: &mut Vec<usize>, st: &Seq, final_dump: &str, must_precede: &dyn Fn(usize, usize) -> bool, best: &mut (usize, String)) -> bool {
        if order.len() == muts.len() {
            let d = st.dump();
            if d == final_dump {
                return true;
            }
            if best.0 <= order.len() {
                *best = (order.len() + 1, d);
            }
            return false;
        }
        for (pos, &i) in muts.iter().enumerate() {
            if used[pos] {
                continue;
            }
            // every unplaced op that must precede i blocks it
            if muts.iter().enumerate().any(|(p2, &j)| !used[p2] && j != i && must_precede(j, i)) {
                continue;
            }
            if let Some(next) = st.step(&ops[i], &results[i]) {
                used[pos] = true;
                order.push(i);
                if dfs(init, ops, results, muts, used, order, &next, final_dump, must_precede, best) {
                    return true;
                }
                order.pop();
                used[pos] = false;
            }
        }
        false
    }
    let mut used = vec![false; muts.len()];
    let mut order = vec![];
    let mut best = (0usize, String::new());
    if dfs(init, ops, results, &muts, &mut used, &mut order, init, final_dump, &must_precede, &mut best) {
        return Verdict { ok: true, what: String::new(), key: String::new(), expected: String::new(), order };
    }
    // classify the failure for the key
    // was it only the reads that could not be placed?
    let only_muts: Vec<usize> = (0..n).filter(|&i| !matches!(ops[i], OpK::Get { .. })).collect();
    if only_muts.len() < n {
        let mut used = vec![false; only_muts.len()];
        let mut order = vec![];
        let mut best2 = (0usize, String::new());
        if dfs(init, ops, results, &only_muts, &mut used, &mut order, init, final_dump, &must_precede, &mut best2) {
            return Verdict {
                ok: false,
                what: "the mutations serialize, but a get cannot be placed in the order: it returned a value that was not current at any point between the calls that returned before it and the calls issued after it (stale read)".into(),
                key: "get:stale".into(),
                expected: "a value current at some point of the read's interval".into(),
                order: vec![],
            };
        }
    }
    let shape: Vec<&str> = muts.iter().filter(|&&i| !matches!(ops[i], OpK::Get { .. })).map(|&i| match ops[i] { OpK::Add { .. } => "add", OpK::Upd { .. } => "upd", OpK::Rm { .. } => "rm", OpK::Flush => "flush", OpK::Ext { .. } => "ext", OpK::Get { .. } => "get" }).collect();
    let mut sorted = shape.clone();
    sorted.sort();
    let uniq = (init.idx_k as u8) + (init.idx_u as u8);
    Verdict {
        ok: false,
        what: "no sequential order of the completed mutations (respecting per-document real-time order) explains the return values and the final state".into(),
        key: format!("not-serializable:uniq{uniq}:{}", sorted.join("+")),
        expected: if best.0 > muts.len() { format!("final state of some explaining order, e.g. {}", best.1) } else { "return values explained by some order".into() },
        order: vec![],
    }
}
