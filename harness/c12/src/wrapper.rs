//! The same property through the collection-level wrapper `anda_db::index::Hnsw`
//! (`Hnsw::new` / `insert` / `remove` / `try_search` / `flush` = `flush_with` with CAS puts +
//! `purge_removed_nodes` / `bootstrap` = `load_all` + `purge_orphan_node_blobs`) over a real
//! `Storage` on an `InMemory` object store behind `CutStore`, which refuses every mutation after a
//! chosen number of them (the crash).
//!
//! ```text
//! wcfg <dim> <metric> <strategy> <M> <efc> <efs> <maxlayers> <reconnect>
//! wins <id> <bf16 hex>     wrm <id>      wq <k> <f32 hex>
//! wflush                   complete flush (must succeed)
//! wcrash <cut>             flush on a store that performs `cut` more mutations and then refuses all;
//!                          the writer is dropped; the durable objects are read back, loaded with `load_all`
//!                          (LoadedInv + the model's `load`), then `Hnsw::bootstrap` (orphan sweep) and re-index
//! ```
//! The wrapper keeps its `HnswIndex` private, so nothing is extracted from it: its answers are judged
//! by the oracle only; the durable objects it leaves are judged by `LoadedInv` and the model.
use crate::util::*;
use crate::world::*;
use anda_db::index::Hnsw;
use anda_db::schema::{Fe, Ft};
use anda_db::storage::{Storage, StorageConfig};
use async_trait::async_trait;
use futures::{StreamExt, stream::BoxStream};
use object_store::{path::Path, *};
use std::collections::{BTreeMap, BTreeSet};
use std::sync::Arc;
use std::sync::atomic::{AtomicI64, AtomicU64, Ordering};

#[derive(Debug)]
pub struct Counters {
    budget: AtomicI64,
    pub performed: AtomicU64,
    pub refused: AtomicU64,
}

impl Counters {
    fn allow(&self) -> bool {
        let b = self.budget.load(Ordering::SeqCst);
        if b < 0 {
            self.performed.fetch_add(1, Ordering::SeqCst);
            return true;
        }
        if b == 0 {
            self.refused.fetch_add(1, Ordering::SeqCst);
            return false;
        }
        self.budget.store(b - 1, Ordering::SeqCst);
        self.performed.fetch_add(1, Ordering::SeqCst);
        true
    }
}

/// performs mutations while `budget > 0` (or unlimited when `budget < 0`), refuses them afterwards
#[derive(Debug)]
pub struct CutStore {
    inner: Arc<memory::InMemory>,
    pub c: Arc<Counters>,
}

impl CutStore {
    fn new() -> CutStore {
        CutStore { inner: Arc::new(memory::InMemory::new()), c: Arc::new(Counters { budget: AtomicI64::new(-1), performed: AtomicU64::new(0), refused: AtomicU64::new(0) }) }
    }
    fn arm(&self, n: i64) {
        self.c.budget.store(n, Ordering::SeqCst);
        self.c.refused.store(0, Ordering::SeqCst);
    }
    fn allow(&self) -> bool {
        self.c.allow()
    }
}

fn refused() -> Error {
    Error::Generic { store: "cut", source: "crashed: mutation refused".into() }
}

impl std::fmt::Display for CutStore {
    fn fmt(&self, f: &mut std::fmt::Formatter<'_>) -> std::fmt::Result {
        write!(f, "CutStore")
    }
}

#[async_trait]
impl ObjectStore for CutStore {
    async fn put_opts(&self, location: &Path, payload: PutPayload, opts: PutOptions) -> Result<PutResult> {
        if !self.allow() {
            return Err(refused());
        }
        self.inner.put_opts(location, payload, opts).await
    }
    async fn put_multipart_opts(&self, location: &Path, opts: PutMultipartOptions) -> Result<Box<dyn MultipartUpload>> {
        if !self.allow() {
            return Err(refused());
        }
        self.inner.put_multipart_opts(location, opts).await
    }
    async fn get_opts(&self, location: &Path, options: GetOptions) -> Result<GetResult> {
        self.inner.get_opts(location, options).await
    }
    fn delete_stream(&self, locations: BoxStream<'static, Result<Path>>) -> BoxStream<'static, Result<Path>> {
        let inner = self.inner.clone();
        let c = self.c.clone();
        locations
            .then(move |loc| {
                let inner = inner.clone();
                let c = c.clone();
                async move {
                    let loc = loc?;
                    if !c.allow() {
                        return Err(refused());
                    }
                    inner.delete(&loc).await?;
                    Ok(loc)
                }
            })
            .boxed()
    }
    fn list(&self, prefix: Option<&Path>) -> BoxStream<'static, Result<ObjectMeta>> {
        self.inner.list(prefix)
    }
    fn list_with_offset(&self, prefix: Option<&Path>, offset: &Path) -> BoxStream<'static, Result<ObjectMeta>> {
        self.inner.list_with_offset(prefix, offset)
    }
    async fn list_with_delimiter(&self, prefix: Option<&Path>) -> Result<ListResult> {
        self.inner.list_with_delimiter(prefix).await
    }
    async fn copy_opts(&self, from: &Path, to: &Path, options: CopyOptions) -> Result<()> {
        if !self.allow() {
            return Err(refused());
        }
        self.inner.copy_opts(from, to, options).await
    }
}

const NAME: &str = "v";

fn node_path(id: u64) -> String {
    format!("hnsw_indexes/{NAME}/n_{id}.cbor")
}

struct WWorld {
    cfg: Cfg,
    store: Arc<CutStore>,
    hnsw: Hnsw,
    live: BTreeMap<u64, Vec<f32>>,
    touched: BTreeSet<u64>,
    universe: BTreeSet<u64>,
    now: u64,
}

fn connect(cx: &Ctx, store: &Arc<CutStore>) -> std::result::Result<Storage, String> {
    cx.rt
        .block_on(Storage::connect("c12w".to_string(), store.clone() as Arc<dyn ObjectStore>, StorageConfig { compress_level: 0, cache_max_capacity: 0, ..Default::default() }))
        .map_err(|e| format!("{e:?}"))
}

/// the durable objects of the index as a fresh reader sees them
fn read_durable(cx: &Ctx, store: &Arc<CutStore>, universe: &BTreeSet<u64>) -> std::result::Result<Durable, String> {
    let st = connect(cx, store)?;
    let get = |p: String| cx.rt.block_on(st.fetch_bytes(&p)).ok().map(|(b, _)| b.to_vec());
    let mut d = Durable { nodes: BTreeMap::new(), ids: get(format!("hnsw_indexes/{NAME}/ids.cbor")), meta: get(format!("hnsw_indexes/{NAME}/meta.cbor")) };
    let mut cand = universe.clone();
    if let Some(s) = d.id_set() {
        cand.extend(s);
    }
    if let Some(m) = d.meta_blob() {
        cand.extend(m.removed_nodes);
    }
    for id in cand {
        if let Some(b) = get(node_path(id)) {
            d.nodes.insert(id, b);
        }
    }
    Ok(d)
}

pub(crate) fn run(cx: &mut Ctx) {
    let mut w: Option<WWorld> = None;
    for (i, op) in cx.ops.iter().enumerate() {
        cx.upto = i;
        let t: Vec<&str> = op.split_whitespace().collect();
        if t.is_empty() {
            continue;
        }
        if cx.report {
            cx.rep.hit(&format!("op:{}", t[0]));
        }
        if t[0] == "wcfg" {
            let Some(cfg) = Cfg::parse(&t) else { return };
            let store = Arc::new(CutStore::new());
            let storage = match connect(cx, &store) {
                Ok(s) => s,
                Err(e) => {
                    cx.oracle_fail("wrapper-setup", "Storage::connect failed", "ok", &e, None);
                    return;
                }
            };
            let field = Fe::new(NAME.to_string(), Ft::Vector).expect("field");
            match cx.rt.block_on(Hnsw::new(&field, cfg.to_hnsw(), storage, 1)) {
                Ok(h) => w = Some(WWorld { cfg, store, hnsw: h, live: BTreeMap::new(), touched: BTreeSet::new(), universe: BTreeSet::new(), now: 1 }),
                Err(e) => {
                    cx.oracle_fail("wrapper-setup", "Hnsw::new failed", "ok", &format!("{e:?}"), None);
                    return;
                }
            }
            continue;
        }
        let Some(ww) = w.as_mut() else { continue };
        ww.now += 1;
        match t[0] {
            "wins" if t.len() == 3 => {
                let (Ok(id), Some(v)) = (t[1].parse::<u64>(), parse_bf16(t[2])) else { continue };
                ww.universe.insert(id);
                let had = ww.live.contains_key(&id);
                let ok = ww.hnsw.insert(id, v.clone(), ww.now).is_ok();
                let expect = !had && v.len() == ww.cfg.dim && v.iter().all(|x| x.is_finite());
                if ok != expect {
                    cx.oracle_fail("insert-result", "wrapper insert accepted/rejected against the live set", &expect.to_string(), &ok.to_string(), None);
                }
                if ok {
                    ww.live.insert(id, v.iter().map(|x| x.to_f32()).collect());
                    ww.touched.insert(id);
                }
            }
            "wrm" if t.len() == 2 => {
                let Ok(id) = t[1].parse::<u64>() else { continue };
                ww.universe.insert(id);
                let had = ww.live.remove(&id).is_some();
                let r = ww.hnsw.remove(id, ww.now);
                if r != had {
                    cx.oracle_fail("remove-result", "wrapper remove's return value against the live set", &had.to_string(), &r.to_string(), None);
                }
                if r {
                    ww.touched.insert(id);
                }
            }
            "wq" if t.len() == 3 => {
                let (Ok(k), Some(q)) = (t[1].parse::<usize>(), parse_f32(t[2])) else { continue };
                if q.len() != ww.cfg.dim || !q.iter().all(|x| x.is_finite()) {
                    continue;
                }
                match ww.hnsw.try_search(&q, k) {
                    Err(e) => cx.oracle_fail("search-error", "a valid query failed (wrapper)", "Ok(..)", &format!("{e:?}"), None),
                    Ok(r) => {
                        if !r.is_empty() {
                            cx.nontrivial = true;
                        }
                        if cx.report {
                            cx.rep.hit(if r.is_empty() { "wquery:empty" } else { "wquery:nonempty" });
                        }
                        let bad = soundness(ww.cfg.metric, k, &q, &ww.live, &r);
                        if !bad.is_empty() {
                            cx.oracle_fail(&format!("search-{}", soundness_key(&bad)), "search result violates the soundness part of the property (wrapper)", "<= k distinct live ids, non-decreasing true distances", &format!("{} ; result {:?}", bad.join(" | "), r), None);
                        }
                    }
                }
            }
            "wflush" => {
                ww.store.arm(-1);
                match cx.rt.block_on(ww.hnsw.flush(ww.now)) {
                    Ok(_) => {
                        ww.touched.clear();
                        durable_matches_live(cx, ww);
                    }
                    Err(e) => cx.oracle_fail("flush-error", "wrapper flush failed on a healthy store", "ok", &format!("{e:?}"), None),
                }
            }
            "wcrash" | "wcrashi" if t.len() == 2 => {
                let idem = t[0] == "wcrashi";
                let Ok(cut) = t[1].parse::<i64>() else { continue };
                ww.store.arm(cut.max(0));
                let r = cx.rt.block_on(ww.hnsw.flush(ww.now));
                let refused = ww.store.c.refused.load(Ordering::SeqCst);
                ww.store.arm(-1);
                if cx.report {
                    cx.rep.hit(if refused > 0 { "wcrash:interrupted" } else { "wcrash:completed" });
                }
                if refused == 0 && r.is_err() {
                    cx.oracle_fail("flush-error", "wrapper flush failed although no mutation was refused", "ok", &format!("{r:?}"), None);
                }
                if refused > 1 {
                    cx.oracle_fail("flush-continues-after-failure", "the flush went on mutating the store after a mutation had failed", "at most one refused mutation", &format!("{refused} refused"), None);
                }
                if refused == 0 {
                    ww.touched.clear();
                }
                // the writer is gone; judge what is durable
                let d = match read_durable(cx, &ww.store, &ww.universe) {
                    Ok(d) => d,
                    Err(e) => {
                        cx.oracle_fail("wrapper-setup", "cannot read the durable objects back", "ok", &e, None);
                        return;
                    }
                };
                let mut loaded_graph: Option<Graph> = None;
                let loaded_len = match load(cx.rt, &d) {
                    Ok(ix) => {
                        let mut lw = World::from_loaded(ww.cfg.clone(), ix, d.clone());
                        lw.explicit = false;
                        lw.universe = ww.universe.clone();
                        check_loaded(cx, &mut lw, &d);
                        loaded_graph = Some(lw.extract(cx.rt).0);
                        Some(lw.index.len())
                    }
                    Err(e) => {
                        cx.oracle_fail("load-error", "load_all failed on the state left by an interrupted wrapper flush", "ok", &e, None);
                        None
                    }
                };
                let storage = match connect(cx, &ww.store) {
                    Ok(s) => s,
                    Err(e) => {
                        cx.oracle_fail("wrapper-setup", "Storage::connect failed", "ok", &e, None);
                        return;
                    }
                };
                match cx.rt.block_on(Hnsw::bootstrap(NAME.to_string(), storage)) {
                    Ok(h) => {
                        ww.hnsw = h;
                        if let Some(n) = loaded_len
                            && ww.hnsw.stats().num_elements != n as u64
                        {
                            cx.oracle_fail("bootstrap-differs", "Hnsw::bootstrap and load_all of the same objects hold different numbers of nodes", &n.to_string(), &ww.hnsw.stats().num_elements.to_string(), None);
                        }
                        // the orphan sweep must keep every blob the id set names
                        if let Ok(d2) = read_durable(cx, &ww.store, &ww.universe) {
                            if d2.ids != d.ids || d2.meta != d.meta {
                                cx.oracle_fail("bootstrap-wrote", "bootstrap changed the ids or metadata object", "unchanged", "changed", None);
                            }
                            let ids = d2.id_set().unwrap_or_default();
                            let gone: Vec<u64> = ids.iter().copied().filter(|i| d.nodes.contains_key(i) && !d2.nodes.contains_key(i)).collect();
                            if !gone.is_empty() {
                                cx.oracle_fail("orphan-sweep-deleted-live-blob", "purge_orphan_node_blobs deleted a blob the id set references", "kept", &format!("{gone:?}"), None);
                            }
                            let tomb: BTreeSet<u64> = d2.meta_blob().map(|m| m.removed_nodes.into_iter().collect()).unwrap_or_default();
                            let left = d2.nodes.keys().filter(|i| !ids.contains(i) && !tomb.contains(i)).count();
                            if cx.report {
                                cx.rep.hit_n("wcrash:orphans-swept", d.nodes.keys().filter(|i| !d2.nodes.contains_key(i)).count() as u64);
                                cx.rep.hit_n("wcrash:orphans-left", left as u64);
                            }
                        }
                        // re-index the documents touched since the last complete flush
                        let touched: Vec<u64> = ww.touched.iter().copied().collect();
                        for id in touched {
                            ww.now += 1;
                            // idempotent variant: a document the loaded index already holds with its current vector is only
                            // re-offered (AlreadyExists tolerated) — the insert path that clears a tombstone does not run
                            let same = idem
                                && loaded_graph.as_ref().and_then(|g| g.get(&id)).is_some_and(|n| ww.live.get(&id).is_some_and(|v| n.vec.iter().map(|x| x.to_f32()).collect::<Vec<f32>>() == *v));
                            if same {
                                let vb = ww.live[&id].iter().map(|x| anda_db_hnsw::half::bf16::from_f32(*x)).collect();
                                if ww.hnsw.insert(id, vb, ww.now).is_ok() {
                                    cx.oracle_fail("reindex-insert", "insert of an id the bootstrapped index holds was accepted", "AlreadyExists", "ok", None);
                                }
                                if cx.report {
                                    cx.rep.hit("wcrashi:already-exists");
                                }
                                continue;
                            }
                            ww.hnsw.remove(id, ww.now);
                            if let Some(v) = ww.live.get(&id) {
                                let vb = v.iter().map(|x| anda_db_hnsw::half::bf16::from_f32(*x)).collect();
                                if let Err(e) = ww.hnsw.insert(id, vb, ww.now) {
                                    cx.oracle_fail("reindex-insert", "re-insert of an unflushed document failed after bootstrap", "ok", &format!("{e:?}"), None);
                                }
                            }
                        }
                        if ww.hnsw.stats().num_elements != ww.live.len() as u64 {
                            cx.oracle_fail("ids-mismatch", "after bootstrap + re-index the index size differs from the live documents", &ww.live.len().to_string(), &ww.hnsw.stats().num_elements.to_string(), None);
                        }
                    }
                    Err(e) => {
                        cx.oracle_fail("load-error", "Hnsw::bootstrap failed on the state left by an interrupted flush", "ok", &format!("{e:?}"), None);
                        return;
                    }
                }
            }
            _ => {}
        }
    }
}

/// after a complete flush the durable objects load to exactly the live documents
fn durable_matches_live(cx: &mut Ctx, ww: &mut WWorld) {
    let Ok(d) = read_durable(cx, &ww.store, &ww.universe) else { return };
    match load(cx.rt, &d) {
        Ok(ix) => {
            let ids: BTreeSet<u64> = ix.node_ids().into_iter().collect();
            let want: BTreeSet<u64> = ww.live.keys().copied().collect();
            let mut bad = ids != want;
            for (id, v) in &ww.live {
                let same = ix.get_node_with(*id, |n| n.vector.iter().map(|x| x.to_f32()).collect::<Vec<f32>>() == *v).unwrap_or(false);
                bad |= !same;
            }
            if bad {
                cx.oracle_fail("flush-incomplete", "after a complete wrapper flush the durable objects do not load to the live documents", &format!("{want:?}"), &format!("{ids:?}"), None);
            }
            // the purge ran: no blob of a removed document is left
            let stale: Vec<u64> = d.nodes.keys().copied().filter(|i| !want.contains(i)).collect();
            if cx.report {
                cx.rep.hit_n("wflush:stale-blobs-left", stale.len() as u64);
            }
        }
        Err(e) => cx.oracle_fail("load-error", "load_all failed after a complete wrapper flush", "ok", &e, None),
    }
}
