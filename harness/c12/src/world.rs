//! The real-code runner: one `World` per case (real `HnswIndex`, the harness's own copy of the live
//! vectors, a recording in-memory object map), the canonicaliser, the model comparison and the
//! independent oracle.
use crate::util::*;
use anda_db_hnsw::{BoxError, HnswError, HnswIndex, HnswMetadata, HnswNode, HnswStats, half::bf16, serialize_node};
use croaring::{Portable, Treemap};
use serde::{Deserialize, Serialize};
use smallvec::SmallVec;
use std::cell::RefCell;
use std::collections::{BTreeMap, BTreeSet};
use std::rc::Rc;
use tokio::runtime::Runtime;
use vh_common::*;

/// same field names as the private `HnswIndexRef` / `HnswIndexOwned` of hnsw.rs
#[derive(Serialize, Deserialize, Clone, Debug)]
pub struct MetaBlob {
    pub entry_point: (u64, u8),
    pub metadata: HnswMetadata,
    #[serde(default)]
    pub removed_nodes: Vec<u64>,
}

#[derive(Clone, Default)]
pub struct Durable {
    pub nodes: BTreeMap<u64, Vec<u8>>,
    pub ids: Option<Vec<u8>>,
    pub meta: Option<Vec<u8>>,
}

#[derive(Clone)]
pub enum W {
    Node(u64, Vec<u8>),
    Ids(Vec<u8>),
    Meta(Vec<u8>),
    Del(u64),
}

impl W {
    pub fn tag(&self) -> String {
        match self {
            W::Node(i, _) => format!("n{i}"),
            W::Ids(_) => "ids".into(),
            W::Meta(_) => "meta".into(),
            W::Del(i) => format!("d{i}"),
        }
    }
}

impl Durable {
    pub fn apply(&mut self, w: &W) {
        match w {
            W::Node(i, b) => {
                self.nodes.insert(*i, b.clone());
            }
            W::Ids(b) => self.ids = Some(b.clone()),
            W::Meta(b) => self.meta = Some(b.clone()),
            W::Del(i) => {
                self.nodes.remove(i);
            }
        }
    }
    pub fn id_set(&self) -> Option<BTreeSet<u64>> {
        let raw: Vec<u8> = cbor2::from_reader(&self.ids.as_ref()?[..]).ok()?;
        let t = Treemap::try_deserialize::<Portable>(&raw)?;
        Some(t.iter().collect())
    }
    pub fn meta_blob(&self) -> Option<MetaBlob> {
        cbor2::from_reader(&self.meta.as_ref()?[..]).ok()
    }
}

pub fn encode_ids(ids: &[u64]) -> Vec<u8> {
    let mut t = Treemap::new();
    for i in ids {
        t.add(*i);
    }
    t.run_optimize();
    let raw = t.serialize::<Portable>();
    let mut out = vec![];
    cbor2::to_writer(&cbor2::Value::Bytes(raw), &mut out).unwrap();
    out
}

#[derive(Clone, Debug, PartialEq)]
pub struct GNode {
    pub layer: u8,
    pub vec: Vec<bf16>,
    pub nbrs: Vec<Vec<u64>>,
}

pub type Graph = BTreeMap<u64, GNode>;

pub fn lists_str(n: &[Vec<u64>]) -> String {
    if n.is_empty() {
        return "!".into();
    }
    n.iter().map(|l| if l.is_empty() { "-".to_string() } else { join(l, ",") }).collect::<Vec<_>>().join(";")
}

pub fn err_str(e: &HnswError) -> String {
    match e {
        HnswError::NotFound { id, .. } => format!("err:notfound {id}"),
        HnswError::DimensionMismatch { .. } => "err:dimension".into(),
        HnswError::Generic { .. } => "err:invalid".into(),
        HnswError::AlreadyExists { .. } => "err:exists".into(),
        _ => "err:other".into(),
    }
}

pub struct Failure {
    pub kind: String,
    pub is_oracle: bool,
    pub graph_case: Option<Vec<String>>,
}

#[derive(Default)]
pub struct Outcome {
    pub first_failure: Option<Failure>,
}

pub struct World {
    pub cfg: Cfg,
    pub index: HnswIndex,
    pub live: BTreeMap<u64, Vec<f32>>,
    pub durable: Durable,
    pub entry_fallback: Option<Vec<u8>>,
    pub touched: BTreeSet<u64>,
    pub universe: BTreeSet<u64>,
    pub now: u64,
    pub loaded_mode: bool,
    pub graph: Option<(Graph, Option<(u64, u8)>)>,
    pub dumped: bool,
    /// the durable state was written by hand (`g`/`gn`), not by the index's own flushes
    pub explicit: bool,
    /// a `flushl` (older API: store_dirty_nodes → store_ids → store_metadata_with) had mutations in its window: that API
    /// gives no "ids object ⊆ blobs" guarantee (a removal between store_ids and store_metadata_with leaves the ids object stale
    /// while the watermark says saved), so the order theorem's oracle does not apply from then on
    pub legacy_window: bool,
}

pub fn flush_record(rt: &Runtime, index: &HnswIndex, now: u64) -> Result<Vec<W>, String> {
    let log: Rc<RefCell<Vec<W>>> = Rc::new(RefCell::new(vec![]));
    let (l1, l2, l3, l4) = (log.clone(), log.clone(), log.clone(), log.clone());
    rt.block_on(index.flush_with(
        now,
        move |id, data| {
            l1.borrow_mut().push(W::Node(id, data));
            std::future::ready(Ok::<bool, BoxError>(true))
        },
        move |data| {
            l2.borrow_mut().push(W::Ids(data));
            std::future::ready(Ok::<(), BoxError>(()))
        },
        move |data| {
            l3.borrow_mut().push(W::Meta(data));
            std::future::ready(Ok::<(), BoxError>(()))
        },
    ))
    .map_err(|e| format!("flush_with: {e:?}"))?;
    // anda_db::index::Hnsw::flush deletes the blobs of removed nodes after the commit
    rt.block_on(index.purge_removed_nodes(async move |id: u64| {
        l4.borrow_mut().push(W::Del(id));
        Ok::<bool, BoxError>(true)
    }))
    .map_err(|e| format!("purge_removed_nodes: {e:?}"))?;
    Ok(log.take())
}

pub fn load(rt: &Runtime, d: &Durable) -> Result<HnswIndex, String> {
    let (Some(meta), Some(ids)) = (d.meta.as_ref(), d.ids.as_ref()) else { return Err("no metadata/ids object".into()) };
    let nodes = &d.nodes;
    rt.block_on(HnswIndex::load_all(&meta[..], &ids[..], async |id: u64| Ok::<Option<Vec<u8>>, BoxError>(nodes.get(&id).cloned())))
        .map_err(|e| format!("{e:?}"))
}

/// polls a future that cannot suspend (the probes' callbacks are ready futures); usable inside a
/// flush callback, where the runtime is already blocked on the enclosing flush
pub fn poll_now<F: std::future::Future>(f: F) -> F::Output {
    let mut f = std::pin::pin!(f);
    let mut cx = std::task::Context::from_waker(std::task::Waker::noop());
    match f.as_mut().poll(&mut cx) {
        std::task::Poll::Ready(v) => v,
        std::task::Poll::Pending => panic!("harness: a probe future suspended"),
    }
}

pub fn probe_meta(_rt: &Runtime, index: &HnswIndex) -> Option<Vec<u8>> {
    let cap: Rc<RefCell<Option<Vec<u8>>>> = Rc::new(RefCell::new(None));
    let c2 = cap.clone();
    // the callback refuses, so nothing is committed: the call has no effect on the index
    let _ = poll_now(index.store_metadata_with(0, async move |buf: &[u8]| {
        *c2.borrow_mut() = Some(buf.to_vec());
        Err::<(), BoxError>("probe".into())
    }));
    cap.take()
}

/// every node the index holds among `cand` ∪ its own id set, through the public API
pub fn extract_graph(index: &HnswIndex, cand: &BTreeSet<u64>) -> Graph {
    let mut cand = cand.clone();
    cand.extend(index.node_ids());
    let mut g = Graph::new();
    for id in cand {
        if let Ok(n) = index.get_node_with(id, |n| GNode { layer: n.layer, vec: n.vector.clone(), nbrs: n.neighbors.iter().map(|l| l.iter().map(|(i, _)| *i).collect()).collect() }) {
            g.insert(id, n);
        }
    }
    g
}

/// entry point of a live index: from the metadata blob it serialises itself, else from `fallback`
pub fn entry_of(index: &HnswIndex, fallback: &Option<Vec<u8>>) -> Option<(u64, u8)> {
    let cap: Rc<RefCell<Option<Vec<u8>>>> = Rc::new(RefCell::new(None));
    let c2 = cap.clone();
    let _ = poll_now(index.store_metadata_with(0, async move |buf: &[u8]| {
        *c2.borrow_mut() = Some(buf.to_vec());
        Err::<(), BoxError>("probe".into())
    }));
    let bytes = cap.take().or_else(|| fallback.clone())?;
    let mb: MetaBlob = cbor2::from_reader(&bytes[..]).ok()?;
    let ml = index.metadata().config.max_layers;
    Some((mb.entry_point.0, mb.entry_point.1.min(ml.saturating_sub(1))))
}

/// the index in the driver's `<state>` syntax, from the pieces
pub fn state_string(index: &HnswIndex, g: &Graph, e: Option<(u64, u8)>, dirty: &[u64], with_lists: bool) -> String {
    let e = e.unwrap_or((u64::MAX, 0));
    let st = index.stats();
    let mut ids = index.node_ids();
    ids.sort();
    let nodes = if g.is_empty() {
        "-".to_string()
    } else {
        g.iter().map(|(i, n)| if with_lists { format!("{i}:{}:{}", n.layer, lists_str(&n.nbrs)) } else { format!("{i}:{}", n.layer) }).collect::<Vec<_>>().join("|")
    };
    format!(
        "e={},{} ml={} v={} pending={} ids={} rm={} dirty={} nodes={}",
        e.0,
        e.1,
        st.max_layer,
        st.version,
        index.has_pending_metadata_flush() as u8,
        csv(&ids),
        csv(&index.removed_node_ids()),
        csv(dirty),
        nodes
    )
}

impl World {
    pub fn new(rt: &Runtime, cfg: Cfg) -> Result<World, String> {
        let index = HnswIndex::new("c12".into(), Some(cfg.to_hnsw()));
        let mut w = World {
            cfg,
            index,
            live: BTreeMap::new(),
            durable: Durable::default(),
            entry_fallback: None,
            touched: BTreeSet::new(),
            universe: BTreeSet::new(),
            now: 1,
            loaded_mode: false,
            graph: None,
            dumped: false,
            explicit: false,
            legacy_window: false,
        };
        // as `anda_db::index::Hnsw::new`: the empty index is flushed at creation
        w.flush_complete(rt)?;
        Ok(w)
    }

    pub fn from_loaded(cfg: Cfg, index: HnswIndex, durable: Durable) -> World {
        let fb = durable.meta.clone();
        World {
            cfg,
            index,
            live: BTreeMap::new(),
            durable,
            entry_fallback: fb,
            touched: BTreeSet::new(),
            universe: BTreeSet::new(),
            now: 1,
            loaded_mode: true,
            graph: None,
            dumped: false,
            explicit: true,
            legacy_window: false,
        }
    }

    fn tick(&mut self) -> u64 {
        self.now += 1;
        self.now
    }

    pub fn invalidate(&mut self) {
        self.graph = None;
        self.dumped = false;
    }

    pub fn flush_complete(&mut self, rt: &Runtime) -> Result<Vec<W>, String> {
        let now = self.tick();
        let ws = flush_record(rt, &self.index, now)?;
        for w in &ws {
            self.durable.apply(w);
            if let W::Meta(b) = w {
                self.entry_fallback = Some(b.clone());
            }
        }
        self.touched.clear();
        Ok(ws)
    }

    pub fn entry(&self, rt: &Runtime) -> Option<(u64, u8)> {
        let bytes = probe_meta(rt, &self.index).or_else(|| self.entry_fallback.clone())?;
        let mb: MetaBlob = cbor2::from_reader(&bytes[..]).ok()?;
        // `load_metadata` clamps the layer tag; a probe of the live index already carries the clamped value
        let ml = self.index.metadata().config.max_layers;
        Some((mb.entry_point.0, mb.entry_point.1.min(ml.saturating_sub(1))))
    }

    pub fn extract(&mut self, rt: &Runtime) -> (Graph, Option<(u64, u8)>) {
        if let Some(g) = &self.graph {
            return g.clone();
        }
        let mut cand: BTreeSet<u64> = self.universe.clone();
        cand.extend(self.live.keys().copied());
        let g = extract_graph(&self.index, &cand);
        let e = self.entry(rt);
        self.graph = Some((g.clone(), e));
        (g, e)
    }

    pub fn truth(&mut self, rt: &Runtime) -> BTreeMap<u64, Vec<f32>> {
        if self.loaded_mode {
            self.extract(rt).0.iter().map(|(i, n)| (*i, n.vec.iter().map(|x| x.to_f32()).collect())).collect()
        } else {
            self.live.clone()
        }
    }

    /// `g … / gn … / gload / q` form of the current graph: a deterministic replay of one query
    pub fn export_graph_case(&mut self, rt: &Runtime, qop: &str) -> Vec<String> {
        let (g, e) = self.extract(rt);
        let e = e.unwrap_or((0, 0));
        let ids: Vec<u64> = g.keys().copied().collect();
        let mut ops = vec![format!(
            "g {} {} {} {} {} {} {}",
            self.cfg.dim,
            self.cfg.metric,
            self.cfg.efs,
            self.cfg.max_layers,
            e.0,
            e.1,
            if ids.is_empty() { "-".to_string() } else { join(&ids, ",") }
        )];
        for (id, n) in &g {
            let v: Vec<f32> = n.vec.iter().map(|x| x.to_f32()).collect();
            ops.push(format!("gn {id} {} {} {}", n.layer, hex_bf16(&v), lists_str(&n.nbrs)));
        }
        ops.push("gload".into());
        ops.push(qop.to_string());
        ops
    }
}

pub struct GBuilder {
    pub cfg: Cfg,
    pub entry: (u64, u8),
    pub ids: Vec<u64>,
    pub blobs: BTreeMap<u64, Vec<u8>>,
}

impl GBuilder {
    pub fn durable(&self) -> Durable {
        let hc = self.cfg.to_hnsw();
        let mb = MetaBlob {
            entry_point: self.entry,
            metadata: HnswMetadata {
                name: "c12".into(),
                config: hc,
                stats: HnswStats { version: 1, num_elements: self.ids.len() as u64, max_layer: self.entry.1, ..Default::default() },
            },
            removed_nodes: vec![],
        };
        let mut meta = vec![];
        cbor2::to_writer(&mb, &mut meta).unwrap();
        Durable { nodes: self.blobs.clone(), ids: Some(encode_ids(&self.ids)), meta: Some(meta) }
    }
}

pub fn node_blob(id: u64, layer: u8, vec: Vec<bf16>, lists: &[Vec<u64>]) -> Vec<u8> {
    // `id` is the id stored INSIDE the blob (the object key is chosen by the caller)
    let neighbors: Vec<SmallVec<[(u64, bf16); 64]>> = lists.iter().map(|l| l.iter().map(|i| (*i, bf16::from_f32(0.0))).collect()).collect();
    serialize_node(&HnswNode { id, layer, vector: vec, neighbors, version: 1 })
}

fn parse_lists(s: &str) -> Option<Vec<Vec<u64>>> {
    if s == "!" {
        return Some(vec![]);
    }
    s.split(';').map(|l| if l == "-" || l.is_empty() { Some(vec![]) } else { l.split(',').map(|x| x.parse().ok()).collect() }).collect()
}

fn parse_csv(s: &str) -> Option<Vec<u64>> {
    if s == "-" || s.is_empty() { Some(vec![]) } else { s.split(',').map(|x| x.parse().ok()).collect() }
}

// ------------------------------------------------------------------------------------------------
// one case
// ------------------------------------------------------------------------------------------------

pub(crate) struct Ctx<'a> {
    pub rt: &'a Runtime,
    pub model: &'a mut Option<ModelProc>,
    pub rep: &'a mut Report,
    pub report: bool,
    pub ops: &'a [String],
    pub upto: usize,
    pub out: Outcome,
    pub nontrivial: bool,
}

impl Ctx<'_> {
    fn prefix(&self) -> Vec<String> {
        self.ops[..=self.upto.min(self.ops.len() - 1)].to_vec()
    }
    pub fn oracle_fail(&mut self, key: &str, what: &str, expected: &str, observed: &str, graph_case: Option<Vec<String>>) {
        if self.report {
            let ops = self.prefix();
            self.rep.oracle_failure(key, what, &ops, expected, observed);
        }
        if self.out.first_failure.is_none() {
            self.out.first_failure = Some(Failure { kind: format!("oracle:{key}"), is_oracle: true, graph_case });
        }
    }
    pub fn disagree(&mut self, what: &str, model: &str, imp: &str, graph_case: Option<Vec<String>>) {
        if self.report {
            let ops = self.prefix();
            self.rep.disagreement(what, &ops, model, imp);
        }
        if self.out.first_failure.is_none() {
            self.out.first_failure = Some(Failure { kind: format!("disagree:{what}"), is_oracle: false, graph_case });
        }
    }
}

pub fn run_case(rt: &Runtime, ops: &[String], model: &mut Option<ModelProc>, rep: &mut Report, report: bool) -> Outcome {
    let mut cx = Ctx { rt, model, rep, report, ops, upto: 0, out: Outcome::default(), nontrivial: false };
    let r = std::panic::catch_unwind(std::panic::AssertUnwindSafe(|| run_case_inner(&mut cx)));
    if let Err(p) = r {
        let msg = p.downcast_ref::<String>().cloned().or_else(|| p.downcast_ref::<&str>().map(|s| s.to_string())).unwrap_or_else(|| "panic".into());
        cx.oracle_fail("panic", "the code under test (or the harness) panicked", "no panic", &msg, None);
    }
    if report {
        let canon = ops.join("\n");
        cx.rep.case(&canon, cx.nontrivial);
    }
    cx.out
}

fn run_case_inner(cx: &mut Ctx) {
    if cx.ops.first().is_some_and(|l| l.starts_with("wcfg ")) {
        #[cfg(feature = "wrapper")]
        crate::wrapper::run(cx);
        return;
    }
    let mut world: Option<World> = None;
    let mut gb: Option<GBuilder> = None;
    for (i, op) in cx.ops.iter().enumerate() {
        cx.upto = i;
        let t: Vec<&str> = op.split_whitespace().collect();
        if t.is_empty() {
            continue;
        }
        if cx.report {
            cx.rep.hit(&format!("op:{}", t[0]));
        }
        match t[0] {
            "cfg" => {
                let Some(cfg) = Cfg::parse(&t) else { continue };
                match World::new(cx.rt, cfg) {
                    Ok(mut w) => {
                        if cx.model.is_some() {
                            // the model's creation state (`createS` / `createD`) against `HnswIndex::new` + the creation flush
                            let imp = format!("{} {}", real_state(&mut w, cx.rt, true), durable_string(&w.durable, w.cfg.dim));
                            let ml = w.index.metadata().config.max_layers;
                            let ans = cx.model.as_mut().unwrap().ask(&format!("create {ml}"));
                            if cx.report {
                                cx.rep.model_compared += 1;
                            }
                            if ans != imp {
                                cx.disagree("create", &ans, &imp, None);
                            }
                            w.dumped = false;
                        }
                        world = Some(w)
                    }
                    Err(e) => {
                        cx.oracle_fail("flush-error", "flush of the empty index failed", "ok", &e, None);
                        return;
                    }
                }
            }
            "g" => {
                if t.len() != 8 {
                    continue;
                }
                let (Ok(dim), Ok(efs), Ok(ml), Ok(eid), Ok(el), Some(ids)) = (t[1].parse(), t[3].parse(), t[4].parse(), t[5].parse(), t[6].parse::<u64>(), parse_csv(t[7])) else { continue };
                let cfg = Cfg { dim, metric: t[2].chars().next().unwrap_or('e'), strategy: 'h', m: 4, efc: 8, efs, max_layers: ml, reconnect: false };
                gb = Some(GBuilder { cfg, entry: (eid, el.min(255) as u8), ids, blobs: BTreeMap::new() });
            }
            "gn" => {
                let Some(b) = gb.as_mut() else { continue };
                if t.len() < 5 {
                    continue;
                }
                let (Ok(id), Ok(layer), Some(mut v), Some(lists)) = (t[1].parse::<u64>(), t[2].parse::<u8>(), parse_bf16(t[3]), parse_lists(t[4])) else { continue };
                let mut inner = id;
                for f in &t[5..] {
                    if let Some(x) = f.strip_prefix("bid=") {
                        inner = x.parse().unwrap_or(id);
                    } else if *f == "nan" && !v.is_empty() {
                        v[0] = bf16::NAN;
                    }
                }
                b.blobs.insert(id, node_blob(inner, layer, v, &lists));
            }
            "gload" => {
                let Some(b) = gb.as_ref() else { continue };
                let d = b.durable();
                let loaded = load(cx.rt, &d);
                let mut w = match loaded {
                    Ok(ix) => World::from_loaded(b.cfg.clone(), ix, d.clone()),
                    Err(e) => {
                        if cx.report {
                            cx.rep.hit("load:error");
                        }
                        let _ = e;
                        check_load_model(cx, &d, None);
                        return;
                    }
                };
                w.universe.extend(b.ids.iter().copied());
                w.universe.extend(b.blobs.keys().copied());
                check_loaded(cx, &mut w, &d);
                world = Some(w);
            }
            _ => {
                let Some(w) = world.as_mut() else { continue };
                step(cx, w, op, &t);
            }
        }
    }
}

fn ensure_reindexed(cx: &mut Ctx, w: &mut World) {
    if !w.loaded_mode {
        return;
    }
    // re-index the documents touched since the last complete flush (what the collection's recovery
    // scan does for unflushed documents): drop whatever the loaded index holds for them, insert the
    // current vector
    let touched: Vec<u64> = w.touched.iter().copied().collect();
    for id in touched {
        let now = w.tick();
        w.index.remove(id, now);
        if let Some(v) = w.live.get(&id).cloned() {
            let now = w.tick();
            if let Err(e) = w.index.insert_f32(id, v.clone(), now) {
                cx.oracle_fail("reindex-insert", "re-insert of an unflushed document failed after load", "ok", &err_str(&e), None);
            }
        }
    }
    if w.live.is_empty() && w.touched.is_empty() {
        // explicit graph case: the loaded content is the truth from here on
        let g = w.extract(cx.rt).0;
        w.live = g.iter().map(|(i, n)| (*i, n.vec.iter().map(|x| x.to_f32()).collect())).collect();
    }
    w.loaded_mode = false;
    w.invalidate();
    check_ids(cx, w, "after re-index");
}

/// idempotent re-index after a load (what a recovery scan that tolerates `AlreadyExists` does): documents the loaded index
/// already holds with their current vector are re-offered with `insert` (refused: `AlreadyExists` — so the insert path that
/// clears a tombstone does NOT run), documents it holds with another vector are replaced, missing ones inserted, strays removed
fn reindex_idempotent(cx: &mut Ctx, w: &mut World) {
    if !w.loaded_mode {
        return;
    }
    let g = w.extract(cx.rt).0;
    let strays: Vec<u64> = g.keys().copied().filter(|i| !w.live.contains_key(i)).collect();
    for id in strays {
        let now = w.tick();
        w.index.remove(id, now);
    }
    let live: Vec<(u64, Vec<f32>)> = w.live.iter().map(|(i, v)| (*i, v.clone())).collect();
    for (id, v) in live {
        let same = g.get(&id).is_some_and(|n| n.vec.iter().map(|x| x.to_f32()).collect::<Vec<f32>>() == v);
        let now = w.tick();
        if g.contains_key(&id) && !same {
            w.index.remove(id, now);
        }
        match w.index.insert_f32(id, v, now) {
            Ok(()) => {
                if same {
                    cx.oracle_fail("reindex-insert", "insert of an id the loaded index holds was accepted", "AlreadyExists", "ok", None);
                }
            }
            Err(e) => {
                if !same || !matches!(e, HnswError::AlreadyExists { .. }) {
                    cx.oracle_fail("reindex-insert", "idempotent re-insert failed after load", "ok / AlreadyExists", &err_str(&e), None);
                }
                if cx.report {
                    cx.rep.hit("reindexi:already-exists");
                }
            }
        }
    }
    if cx.report {
        let stale: Vec<u64> = w.index.removed_node_ids().into_iter().filter(|i| w.live.contains_key(i)).collect();
        if !stale.is_empty() {
            cx.rep.hit("reindexi:stale-tombstone-of-live-id");
        }
    }
    w.loaded_mode = false;
    w.invalidate();
    check_ids(cx, w, "after an idempotent re-index");
}

/// purge must never delete the blob of an id the index holds, whatever the tombstone set says
fn check_purge(cx: &mut Ctx, w: &World, ws: &[W]) {
    let ids: BTreeSet<u64> = w.index.node_ids().into_iter().collect();
    let bad: Vec<u64> = ws.iter().filter_map(|x| if let W::Del(i) = x { Some(*i) } else { None }).filter(|i| ids.contains(i)).collect();
    if !bad.is_empty() {
        cx.oracle_fail("purge-deleted-live-blob", "purge_removed_nodes deleted the blob of an id that is in the index", "no live id among the deletions", &format!("{bad:?}"), None);
    }
}

/// after a round trip: every live document is found by its own vector (measured: the search is approximate)
fn self_queries(cx: &mut Ctx, w: &mut World) {
    if !cx.report {
        return;
    }
    let live: Vec<(u64, Vec<f32>)> = w.live.iter().take(12).map(|(i, v)| (*i, v.clone())).collect();
    for (id, v) in live {
        match w.index.search_f32(&v, 3) {
            Ok(r) if r.iter().any(|(i, _)| *i == id) => cx.rep.hit("self-query:hit"),
            Ok(r) => {
                // another document with the same vector is as good a hit
                let dup = r.iter().any(|(i, _)| w.live.get(i) == Some(&v));
                cx.rep.hit(if dup { "self-query:hit-by-duplicate" } else { "self-query:miss" })
            }
            Err(_) => cx.rep.hit("self-query:error"),
        }
    }
}

fn check_ids(cx: &mut Ctx, w: &mut World, when: &str) {
    let ids: BTreeSet<u64> = w.index.node_ids().into_iter().collect();
    let want: BTreeSet<u64> = w.live.keys().copied().collect();
    if ids != want || w.index.len() != want.len() {
        cx.oracle_fail(
            "ids-mismatch",
            &format!("the index's id set differs from the live documents {when}"),
            &format!("{want:?}"),
            &format!("ids={ids:?} len={}", w.index.len()),
            None,
        );
    }
}

fn step(cx: &mut Ctx, w: &mut World, op: &str, t: &[&str]) {
    match t[0] {
        "ins" if t.len() == 3 => {
            ensure_reindexed(cx, w);
            let (Ok(id), Some(v)) = (t[1].parse::<u64>(), parse_bf16(t[2])) else { return };
            let now = w.tick();
            w.universe.insert(id);
            let had = w.live.contains_key(&id);
            // state before (for the model's bookkeeping of `insert`)
            let sent = match cx.model.as_mut() {
                Some(m) => send_index(m, w, cx.rt),
                None => false,
            };
            let before = if sent { Some((w.extract(cx.rt).0, probe_dirty(cx.rt, &w.index))) } else { None };
            let r = w.index.insert(id, v.clone(), now);
            if let Some((g0, d0)) = before {
                w.invalidate();
                let (g1, e1) = w.extract(cx.rt);
                let d1 = probe_dirty(cx.rt, &w.index);
                let ml = w.index.metadata().config.max_layers;
                for (j, n) in &g1 {
                    if n.nbrs.len() != n.layer as usize + 1 || n.layer >= ml {
                        cx.oracle_fail("node-shape", "a node does not have layer + 1 neighbour lists / a layer below max_layers", "NodeOk", &format!("node {j}: layer {} lists {}", n.layer, n.nbrs.len()), None);
                    }
                }
                let m = cx.model.as_mut().unwrap();
                for (j, n) in &g1 {
                    if *j != id && (g0.get(j) != Some(n) || (d1.contains(j) && !d0.contains(j))) {
                        m.ask(&format!("edit {j} {} {}", n.layer, lists_str(&n.nbrs)));
                    }
                }
                let valid = v.len() == w.cfg.dim && v.iter().all(|x| x.is_finite());
                let (nl, nlists) = match (r.is_ok(), g1.get(&id)) {
                    (true, Some(n)) => (n.layer, lists_str(&n.nbrs)),
                    _ => (0, "-".to_string()),
                };
                let pick = e1.unwrap_or((0, 0));
                let ans = m.ask(&format!("insert {id} {nl} {nlists} {} {} {}", pick.0, pick.1, valid as u8));
                let imp = format!("{} {}", r.is_ok(), real_state(w, cx.rt, true));
                if cx.report {
                    cx.rep.model_compared += 1;
                    cx.rep.hit("model:insert");
                }
                if ans != imp {
                    cx.disagree("insert", &ans, &imp, None);
                }
                w.dumped = false;
            }
            let expect_ok = !had && v.len() == w.cfg.dim && v.iter().all(|x| x.is_finite());
            match (&r, expect_ok) {
                (Ok(()), true) => {
                    w.live.insert(id, v.iter().map(|x| x.to_f32()).collect());
                    w.touched.insert(id);
                    w.invalidate();
                }
                (Err(_), false) => {
                    if cx.report {
                        cx.rep.hit(&r.as_ref().err().map(err_str).unwrap());
                    }
                }
                _ => cx.oracle_fail("insert-result", "insert accepted/rejected against the live set", &format!("ok={expect_ok}"), &format!("{:?}", r.as_ref().map_err(err_str)), None),
            }
        }
        "rm" if t.len() == 2 => {
            ensure_reindexed(cx, w);
            let Ok(id) = t[1].parse::<u64>() else { return };
            let now = w.tick();
            w.universe.insert(id);
            let had = w.live.remove(&id).is_some();
            let sent = match cx.model.as_mut() {
                Some(m) => send_index(m, w, cx.rt),
                None => false,
            };
            let r = w.index.remove(id, now);
            if sent {
                w.invalidate();
                let imp = format!("{r} {}", real_state(w, cx.rt, !w.cfg.reconnect));
                let pick = w.extract(cx.rt).1.unwrap_or((0, 0));
                let ans = cx.model.as_mut().unwrap().ask(&format!("remove {id} {} {} {}", pick.0, pick.1, w.cfg.reconnect as u8));
                if cx.report {
                    cx.rep.model_compared += 1;
                    cx.rep.hit("model:remove");
                }
                if ans != imp {
                    cx.disagree("remove", &ans, &imp, None);
                }
                w.dumped = false;
            }
            if r != had {
                cx.oracle_fail("remove-result", "remove's return value against the live set", &had.to_string(), &r.to_string(), None);
            }
            if r {
                w.touched.insert(id);
                w.invalidate();
            }
        }
        "flush" => {
            ensure_reindexed(cx, w);
            let sent = pre_flush(cx, w);
            match w.flush_complete(cx.rt) {
                Ok(ws) => {
                    w.dumped = false;
                    compare_writes(cx, sent, &ws);
                    w.invalidate();
                    compare_after_flush(cx, sent, w);
                    check_write_order(cx, &ws);
                    check_purge(cx, w, &ws);
                    // after a complete, quiescent flush the durable objects ARE the in-memory index
                    let bad = crate::window::stale_blobs(w, cx.rt);
                    if !bad.is_empty() {
                        cx.oracle_fail("flush-stale-blob", "after a complete flush, load_all of the durable objects differs from the in-memory index", "same ids, current vectors, same node lists", &bad.join(" | "), None);
                    }
                }
                Err(e) => cx.oracle_fail("flush-error", "flush failed on an in-memory store", "ok", &e, None),
            }
        }
        "reload" => {
            ensure_reindexed(cx, w);
            let sent = pre_flush(cx, w);
            match w.flush_complete(cx.rt) {
                Ok(ws) => {
                    w.dumped = false;
                    compare_writes(cx, sent, &ws);
                    w.invalidate();
                    compare_after_flush(cx, sent, w);
                    check_purge(cx, w, &ws);
                    check_write_order(cx, &ws)
                }
                Err(e) => {
                    cx.oracle_fail("flush-error", "flush failed on an in-memory store", "ok", &e, None);
                    return;
                }
            }
            // a second flush persists the tombstone set shrunk by the purge (flush → purge → flush)
            let _ = w.flush_complete(cx.rt);
            let before = w.extract(cx.rt);
            let d = w.durable.clone();
            match load(cx.rt, &d) {
                Ok(ix) => {
                    w.index = ix;
                    w.entry_fallback = d.meta.clone();
                    w.invalidate();
                    let after = w.extract(cx.rt);
                    if before.0 != after.0 {
                        cx.oracle_fail("roundtrip-graph", "flush + load_all changed the graph", "identical node map", "different node map", None);
                    }
                    check_ids(cx, w, "after a round trip");
                    self_queries(cx, w);
                    check_load_model(cx, &d, Some(w));
                }
                Err(e) => cx.oracle_fail("load-error", "load_all failed after a complete flush", "ok", &e, None),
            }
        }
        "crash" if t.len() == 2 => {
            ensure_reindexed(cx, w);
            let Ok(cut) = t[1].parse::<usize>() else { return };
            let now = w.tick();
            let sent = pre_flush(cx, w);
            let ws = match flush_record(cx.rt, &w.index, now) {
                Ok(ws) => ws,
                Err(e) => {
                    cx.oracle_fail("flush-error", "flush failed on an in-memory store", "ok", &e, None);
                    return;
                }
            };
            w.dumped = false;
            compare_writes(cx, sent, &ws);
            check_write_order(cx, &ws);
            let cut = cut % (ws.len() + 1);
            if cx.report {
                cx.rep.hit(&format!("crash:{}", if cut == ws.len() { "after-all".to_string() } else { ws[cut].tag().trim_end_matches(char::is_numeric).to_string() }));
            }
            for x in &ws[..cut] {
                w.durable.apply(x);
            }
            let d = w.durable.clone();
            match load(cx.rt, &d) {
                Ok(ix) => {
                    w.index = ix;
                    w.entry_fallback = d.meta.clone();
                    w.loaded_mode = true;
                    w.invalidate();
                    check_loaded(cx, w, &d);
                }
                Err(e) => cx.oracle_fail("load-error", "load_all failed on the state left by an interrupted flush", "ok", &format!("cut={cut} of {:?}: {e}", ws.iter().map(|x| x.tag()).collect::<Vec<_>>()), None),
            }
        }
        "flushw" | "crashw" | "flushl" | "crashl" => window_op(cx, w, t),
        "reindex" => ensure_reindexed(cx, w),
        "reindexi" => reindex_idempotent(cx, w),
        "q" | "qb" | "qx" => query(cx, w, op, t),
        _ => {}
    }
}

/// canonical text of the durable objects (the driver's `durable` answer)
pub fn durable_string(d: &Durable, dim: usize) -> String {
    let ids = match d.id_set() {
        Some(s) => csv(&s.into_iter().collect::<Vec<_>>()),
        None => "none".into(),
    };
    let meta = match d.meta_blob() {
        Some(mb) => format!("{},{},{},{},{},{}", mb.entry_point.0, mb.entry_point.1, mb.metadata.stats.version, mb.metadata.stats.max_layer, mb.metadata.config.max_layers, csv(&mb.removed_nodes)),
        None => "none".into(),
    };
    let blobs: Vec<String> = d
        .nodes
        .iter()
        .filter_map(|(k, b)| {
            let n: HnswNode = cbor2::from_reader(&b[..]).ok()?;
            let fin = n.vector.iter().all(|x| x.is_finite()) && n.neighbors.iter().flatten().all(|(_, x)| x.is_finite());
            let lists: Vec<Vec<u64>> = n.neighbors.iter().map(|l| l.iter().map(|(i, _)| *i).collect()).collect();
            Some(format!("{k}:{}:{}:{}:{}:{}", n.id, n.layer, (n.vector.len() == dim) as u8, fin as u8, lists_str(&lists)))
        })
        .collect();
    format!("ids={ids} meta={meta} blobs={}", if blobs.is_empty() { "-".to_string() } else { blobs.join("|") })
}

/// `flushw` / `crashw`: a flush whose write callbacks mutate the index (see window.rs)
fn window_op(cx: &mut Ctx, w: &mut World, t: &[&str]) {
    use crate::window::*;
    ensure_reindexed(cx, w);
    let crash = t[0] == "crashw" || t[0] == "crashl";
    let (cut, hooks_s) = if crash { (t.get(1).and_then(|c| c.parse::<usize>().ok()), t.get(2)) } else { (None, t.get(1)) };
    if crash && cut.is_none() {
        return;
    }
    let Some(hooks) = hooks_s.and_then(|s| parse_hooks(s)) else { return };
    let legacy = t[0] == "flushl" || t[0] == "crashl";
    let mut model_on = false;
    if !crash
        && !legacy
        && let Some(m) = cx.model.as_mut()
        && send_index(m, w, cx.rt)
        && send_durable(m, &w.durable, w.cfg.dim)
    {
        m.ask("capture");
        model_on = true;
    }
    let run = match if legacy { flush_legacy(w, hooks) } else { flush_windowed(w, hooks) } {
        Ok(r) => r,
        Err(e) => {
            cx.oracle_fail("flush-error", "windowed flush failed on an in-memory store", "ok", &e, None);
            return;
        }
    };
    w.invalidate();
    let ws: Vec<W> = run.evs.iter().filter_map(|e| if let Ev::Write(x) = e { Some(x.clone()) } else { None }).collect();
    if !legacy {
        check_write_order(cx, &ws);
    }
    let cut = cut.map(|c| c % (ws.len() + 1));
    let mut written = 0usize;
    let mut mutated: BTreeSet<u64> = BTreeSet::new();
    for ev in &run.evs {
        match ev {
            Ev::Write(wr) => {
                if cut.is_none_or(|c| written < c) {
                    w.durable.apply(wr);
                    if let W::Meta(b) = wr {
                        w.entry_fallback = Some(b.clone());
                    }
                }
                written += 1;
                if model_on {
                    cx.model.as_mut().unwrap().ask("wwrite");
                }
            }
            Ev::Mut { id, vec, ok, cmds, expect } => {
                if cx.report {
                    cx.rep.hit(if vec.is_some() { "window:insert" } else { "window:remove" });
                }
                let had = w.live.contains_key(id);
                let want_ok = match vec {
                    None => had,
                    Some(v) => !had && v.len() == w.cfg.dim && v.iter().all(|x| x.is_finite()),
                };
                if *ok != want_ok {
                    cx.oracle_fail("window-mutation-result", "a mutation inside the flush window was accepted/rejected against the live set", &want_ok.to_string(), &ok.to_string(), None);
                }
                if *ok {
                    mutated.insert(*id);
                    match vec {
                        None => {
                            w.live.remove(id);
                        }
                        Some(v) => {
                            w.live.insert(*id, v.iter().map(|x| x.to_f32()).collect());
                        }
                    }
                }
                if model_on {
                    let m = cx.model.as_mut().unwrap();
                    let mut ans = String::new();
                    for c in cmds {
                        ans = m.ask(c);
                    }
                    if cx.report {
                        cx.rep.model_compared += 1;
                    }
                    if &ans != expect {
                        cx.disagree("window-mutation", &ans, expect, None);
                    }
                }
            }
        }
    }
    if crash {
        if cx.report {
            cx.rep.hit("window:crash");
        }
        w.touched.extend(mutated);
        let d = w.durable.clone();
        match load(cx.rt, &d) {
            Ok(ix) => {
                w.index = ix;
                w.entry_fallback = d.meta.clone();
                w.loaded_mode = true;
                w.invalidate();
                check_loaded(cx, w, &d);
            }
            Err(e) => cx.oracle_fail("load-error", "load_all failed on the state left by an interrupted windowed flush", "ok", &e, None),
        }
        return;
    }
    if cx.report {
        cx.rep.hit(if legacy { "window:legacy-api" } else if run.flushed { "window:flush" } else { "window:nothing-pending" });
    }
    if run.flushed {
        w.touched.clear();
    }
    if legacy && !mutated.is_empty() {
        w.legacy_window = true;
    }
    w.touched.extend(mutated);
    if model_on {
        let imp = real_state(w, cx.rt, !w.cfg.reconnect);
        let m = cx.model.as_mut().unwrap();
        let ans = m.ask(if w.cfg.reconnect { "wfinish 0" } else { "wfinish 1" });
        let dans = m.ask("durable");
        if cx.report {
            cx.rep.model_compared += 2;
            cx.rep.hit("model:window");
        }
        if ans != imp {
            cx.disagree("window-commit", &ans, &imp, None);
        }
        let dimp = durable_string(&w.durable, w.cfg.dim);
        if dans != dimp {
            cx.disagree("window-durable", &dans, &dimp, None);
        }
        w.dumped = false;
    }
    check_ids(cx, w, "after a windowed flush");
}

/// the model's `wrapperWrites` on the state before the flush vs the writes the real flush + purge performed
fn pre_flush(cx: &mut Ctx, w: &mut World) -> bool {
    match cx.model.as_mut() {
        Some(m) => send_index(m, w, cx.rt),
        None => false,
    }
}

/// the model's `afterFlush` (in-memory effect of flush + purge) against the real index after the flush
fn compare_after_flush(cx: &mut Ctx, sent: bool, w: &mut World) {
    if !sent {
        return;
    }
    let imp = real_state(w, cx.rt, true);
    let ans = cx.model.as_mut().unwrap().ask("afterflush");
    if cx.report {
        cx.rep.model_compared += 1;
    }
    if ans != imp {
        cx.disagree("after-flush", &ans, &imp, None);
    }
    w.dumped = false;
}

fn compare_writes(cx: &mut Ctx, sent: bool, ws: &[W]) {
    if !sent {
        return;
    }
    let imp = if ws.is_empty() { "-".to_string() } else { ws.iter().map(|x| x.tag()).collect::<Vec<_>>().join(",") };
    let ans = cx.model.as_mut().unwrap().ask("writes");
    if cx.report {
        cx.rep.model_compared += 1;
        cx.rep.hit("model:writes");
    }
    if ans != imp {
        cx.disagree("flush-writes", &ans, &imp, None);
    }
}

/// durable order of one flush: node puts, then ids, then metadata, then deletions
fn check_write_order(cx: &mut Ctx, ws: &[W]) {
    let phase = |w: &W| match w {
        W::Node(..) => 0,
        W::Ids(_) => 1,
        W::Meta(_) => 2,
        W::Del(_) => 3,
    };
    let sorted = ws.windows(2).all(|p| phase(&p[0]) <= phase(&p[1]));
    let n_ids = ws.iter().filter(|w| matches!(w, W::Ids(_))).count();
    let n_meta = ws.iter().filter(|w| matches!(w, W::Meta(_))).count();
    if !sorted || n_ids > 1 || n_meta > 1 || n_ids != n_meta {
        cx.oracle_fail("flush-order", "durable write order of a flush", "nodes* ids meta del* (ids and meta together or not at all)", &format!("{:?}", ws.iter().map(|x| x.tag()).collect::<Vec<_>>()), None);
    }
}

/// `LoadedInv`, checked on the graph extracted from the loaded index against the durable objects
/// (independent of the model), then the model's `load` prediction.
pub(crate) fn check_loaded(cx: &mut Ctx, w: &mut World, d: &Durable) {
    let (g, e) = w.extract(cx.rt);
    let Some(dur_ids) = d.id_set() else { return };
    let missing: BTreeSet<u64> = dur_ids.iter().copied().filter(|i| !d.nodes.contains_key(i)).collect();
    let want_ids: BTreeSet<u64> = dur_ids.difference(&missing).copied().collect();
    let ids: BTreeSet<u64> = w.index.node_ids().into_iter().collect();
    let dom: BTreeSet<u64> = g.keys().copied().collect();
    let mut bad: Vec<String> = vec![];
    if ids != want_ids {
        bad.push(format!("ids {ids:?} != durable ids minus missing blobs {want_ids:?}"));
    }
    if dom != ids || w.index.len() != ids.len() {
        bad.push(format!("node map keys {dom:?} (len {}) != ids {ids:?}", w.index.len()));
    }
    for (id, n) in &g {
        if let Some(x) = n.nbrs.iter().flatten().find(|x| missing.contains(x)) {
            bad.push(format!("node {id} keeps an edge to the dropped id {x}"));
        }
        // content = the blob, minus the pruned edges
        if let Some(b) = d.nodes.get(id)
            && let Ok(bn) = cbor2::from_reader::<HnswNode, _>(&b[..])
        {
            let want: Vec<Vec<u64>> = bn.neighbors.iter().map(|l| l.iter().map(|(i, _)| *i).filter(|i| !missing.contains(i)).collect()).collect();
            if bn.layer != n.layer || bn.vector != n.vec || want != n.nbrs {
                bad.push(format!("node {id} differs from its blob"));
            }
        }
    }
    match e {
        Some((eid, _)) => {
            if !g.is_empty() && !g.contains_key(&eid) {
                bad.push(format!("entry point {eid} is not a loaded node"));
            }
            if let Some(en) = g.get(&eid) {
                let _ = en;
            }
        }
        None => bad.push("entry point unreadable".into()),
    }
    if let Some(mb) = d.meta_blob() {
        let mut want = mb.removed_nodes.clone();
        want.sort();
        want.dedup();
        if w.index.removed_node_ids() != want {
            bad.push(format!("tombstones {:?} != metadata's {:?}", w.index.removed_node_ids(), want));
        }
    }
    if cx.report {
        cx.rep.hit(if missing.is_empty() { "load:complete" } else { "load:missing-blobs" });
    }
    if !w.explicit && !w.legacy_window && !missing.is_empty() {
        // load_prefix_hnsw: with the order nodes -> ids -> metadata -> purge no cut of the index's own flushes
        // leaves the ids object naming an id without a blob
        cx.oracle_fail("flush-left-missing-blob", "an interrupted flush left an id in the ids object without its node blob", "no missing blob", &format!("{missing:?}"), None);
    }
    if !bad.is_empty() {
        cx.oracle_fail("loaded-inv", "the loaded index violates LoadedInv", "ids = durable ids minus missing = node map keys; no edge to a dropped id; entry loaded; nodes = blobs", &bad.join(" | "), None);
    }
    check_load_model(cx, d, Some(w));
}

/// the real dirty set (ids that the next flush would write), observed without any effect on the
/// index: the ids callback refuses, so the snapshot is never committed
pub fn probe_dirty(_rt: &Runtime, index: &HnswIndex) -> Vec<u64> {
    let log: Rc<RefCell<Vec<u64>>> = Rc::new(RefCell::new(vec![]));
    let l1 = log.clone();
    let _ = poll_now(index.flush_with(
        0,
        move |id, _| {
            l1.borrow_mut().push(id);
            std::future::ready(Ok::<bool, BoxError>(true))
        },
        |_| std::future::ready(Err::<(), BoxError>("probe".into())),
        |_| std::future::ready(Ok::<(), BoxError>(())),
    ));
    let mut v = log.take();
    v.sort();
    v
}

pub fn csv(v: &[u64]) -> String {
    if v.is_empty() { "-".into() } else { join(v, ",") }
}

/// the real index in the driver's `<state>` syntax
pub fn real_state(w: &mut World, rt: &Runtime, with_lists: bool) -> String {
    let (g, e) = w.extract(rt);
    let dirty = probe_dirty(rt, &w.index);
    state_string(&w.index, &g, e, &dirty, with_lists)
}

/// puts the real index into the driver (graph, entry point, id set, tombstones, dirty set, versions)
pub fn send_index(m: &mut ModelProc, w: &mut World, rt: &Runtime) -> bool {
    let (g, e) = w.extract(rt);
    let Some(e) = e else { return false };
    m.ask("reset");
    for (id, n) in &g {
        m.ask(&format!("node {id} {} {}", n.layer, lists_str(&n.nbrs)));
    }
    m.ask(&format!("entry {} {}", e.0, e.1));
    let mut ids = w.index.node_ids();
    ids.sort();
    m.ask(&format!("ids {}", csv(&ids)));
    m.ask(&format!("removed {}", csv(&w.index.removed_node_ids())));
    m.ask(&format!("dirty {}", csv(&probe_dirty(rt, &w.index))));
    let st = w.index.stats();
    let pending = w.index.has_pending_metadata_flush() as u64;
    m.ask(&format!("ver {} {} {} {}", st.version, st.version - pending, st.max_layer, w.index.metadata().config.max_layers));
    w.dumped = true;
    true
}

pub fn send_durable(m: &mut ModelProc, d: &Durable, dim: usize) -> bool {
    m.ask("dreset");
    for (key, b) in &d.nodes {
        let Ok(n) = cbor2::from_reader::<HnswNode, _>(&b[..]) else { return false };
        let fin = n.vector.iter().all(|x| x.is_finite()) && n.neighbors.iter().flatten().all(|(_, x)| x.is_finite());
        let lists: Vec<Vec<u64>> = n.neighbors.iter().map(|l| l.iter().map(|(i, _)| *i).collect()).collect();
        m.ask(&format!("dput {key} {} {} {} {} {}", n.id, n.layer, (n.vector.len() == dim) as u8, fin as u8, lists_str(&lists)));
    }
    match d.id_set() {
        Some(ids) => m.ask(&format!("dids {}", csv(&ids.into_iter().collect::<Vec<_>>()))),
        None => m.ask("dids none"),
    };
    match d.meta_blob() {
        Some(mb) => m.ask(&format!(
            "dmeta {} {} {} {} {} {}",
            mb.entry_point.0,
            mb.entry_point.1,
            mb.metadata.stats.version,
            mb.metadata.stats.max_layer,
            mb.metadata.config.max_layers,
            csv(&mb.removed_nodes)
        )),
        None => m.ask("dmeta none"),
    };
    true
}

/// the model's `load` on the same durable objects; `pick` = the entry point the real loader chose
fn check_load_model(cx: &mut Ctx, d: &Durable, w: Option<&mut World>) {
    if cx.model.is_none() {
        return;
    }
    let rt = cx.rt;
    let (imp, dim, pick) = match w {
        Some(w) => {
            let s = real_state(w, rt, true);
            let e = w.extract(rt).1.unwrap_or((0, 0));
            w.dumped = false;
            (format!("ok {s}"), w.cfg.dim, e)
        }
        None => ("err:load".to_string(), d.meta_blob().map(|m| m.metadata.config.dimension).unwrap_or(0), (0, 0)),
    };
    let m = cx.model.as_mut().unwrap();
    if !send_durable(m, d, dim) {
        return;
    }
    let ans = m.ask(&format!("load {} {}", pick.0, pick.1));
    if cx.report {
        cx.rep.model_compared += 1;
        cx.rep.hit(if imp.starts_with("ok") { "model:load-ok" } else { "model:load-err" });
    }
    if ans != imp {
        cx.disagree("load", &ans, &imp, None);
    }
}

/// `2·x` as integers when every component is a multiple of 1/2 of modest size (then products and sums are exact in f32)
fn grid_ints(v: &[f32]) -> Option<Vec<i64>> {
    v.iter()
        .map(|x| {
            let y = x * 2.0;
            if y.fract() == 0.0 && y.abs() <= 64.0 { Some(y as i64) } else { None }
        })
        .collect()
}

/// the soundness part of the property for one answer, against the harness's own copy of the vectors
pub(crate) fn soundness(metric: char, k: usize, q: &[f32], truth: &BTreeMap<u64, Vec<f32>>, r: &[(u64, f32)]) -> Vec<String> {
    let mut bad: Vec<String> = vec![];
    if r.len() > k {
        bad.push(format!("{} results for k={k}", r.len()));
    }
    let mut seen = BTreeSet::new();
    for (i, _) in r {
        if !seen.insert(*i) {
            bad.push(format!("id {i} returned twice"));
        }
        if !truth.contains_key(i) {
            bad.push(format!("id {i} is not in the index"));
        }
    }
    for p in r.windows(2) {
        if !(p[0].1 <= p[1].1) {
            bad.push(format!("distances decrease: {} then {}", p[0].1, p[1].1));
        }
    }
    for (i, dd) in r {
        if let Some(v) = truth.get(i) {
            let (want, scale) = oracle_dist(metric, q, v);
            if !((*dd as f64 - want).abs() <= dist_tolerance(scale)) {
                bad.push(format!("id {i}: reported distance {dd} but the metric is {want}"));
            }
        }
    }
    if !truth.is_empty() && k > 0 && r.is_empty() {
        bad.push("empty answer on a non-empty index".into());
    }
    bad
}

pub(crate) fn soundness_key(bad: &[String]) -> &'static str {
    if bad[0].contains("not in the index") {
        "dead-id"
    } else if bad[0].contains("twice") {
        "duplicate"
    } else if bad[0].contains("decrease") {
        "order"
    } else if bad[0].contains("reported") {
        "distance"
    } else if bad[0].contains("empty") {
        "empty"
    } else {
        "too-many"
    }
}

fn query(cx: &mut Ctx, w: &mut World, op: &str, t: &[&str]) {
    if t.len() < 3 {
        return;
    }
    let Ok(k) = t[1].parse::<usize>() else { return };
    let metric = metric_of(w.cfg.metric);
    // --- the real call -----------------------------------------------------------------------
    let (qf32, res, model_tail): (Vec<f32>, Result<Vec<(u64, f32)>, HnswError>, String) = match t[0] {
        "q" => {
            let Some(q) = parse_f32(t[2]) else { return };
            let fin = q.iter().all(|x| x.is_finite());
            let dim = q.len() == w.cfg.dim;
            let r = w.index.search_f32(&q, k);
            (q, r, format!("f32 {} {}", fin as u8, dim as u8))
        }
        "qb" => {
            let Some(q) = parse_bf16(t[2]) else { return };
            let fin = q.iter().all(|x| x.is_finite());
            let dim = q.len() == w.cfg.dim;
            let r = w.index.search(&q, k);
            (q.iter().map(|x| x.to_f32()).collect(), r, format!("bf16 {} {}", fin as u8, dim as u8))
        }
        _ => {
            if t.len() != 4 {
                return;
            }
            let mut q: Vec<f32> = vec![0.5; w.cfg.dim];
            let (mut fin, mut dim) = (true, true);
            if t[2].contains("nan") {
                q[0] = f32::NAN;
                fin = false;
            }
            if t[2].contains("inf") {
                q[0] = f32::INFINITY;
                fin = false;
            }
            if t[2].contains("dim") {
                q.push(0.25);
                dim = false;
            }
            if t[3] == "b" {
                let qb: Vec<bf16> = q.iter().map(|x| bf16::from_f32(*x)).collect();
                let r = w.index.search(&qb, k);
                (q, r, format!("bf16 {} {}", fin as u8, dim as u8))
            } else {
                let r = w.index.search_f32(&q, k);
                (q, r, format!("f32 {} {}", fin as u8, dim as u8))
            }
        }
    };
    let valid = qf32.len() == w.cfg.dim && qf32.iter().all(|x| x.is_finite());
    let keys: Option<Vec<(u64, u64)>> = res.as_ref().ok().map(|r| r.iter().map(|(i, d)| key(*d).map(|kk| (*i, kk))).collect::<Option<Vec<_>>>()).unwrap_or(Some(vec![]));
    let imp = match (&res, &keys) {
        (Ok(_), Some(ks)) => format!("ok {}", if ks.is_empty() { "-".to_string() } else { ks.iter().map(|(i, d)| format!("{i}:{d}")).collect::<Vec<_>>().join(",") }),
        (Ok(_), None) => "ok <nan>".into(),
        (Err(e), _) => err_str(e),
    };
    if cx.report {
        cx.rep.hit(&format!("query:{}", if imp.starts_with("ok") { if imp == "ok -" { "empty" } else { "nonempty" } } else { &imp[..imp.find(' ').unwrap_or(imp.len())] }));
    }
    if imp.starts_with("ok ") && imp != "ok -" {
        cx.nontrivial = true;
    }

    // --- oracle ------------------------------------------------------------------------------
    if valid {
        let truth = w.truth(cx.rt);
        match &res {
            Err(e) => {
                let gc = w.export_graph_case(cx.rt, op);
                cx.oracle_fail("search-error", "a valid query failed", "Ok(..)", &err_str(e), Some(gc));
            }
            Ok(r) => {
                let bad = soundness(w.cfg.metric, k, &qf32, &truth, r);
                if !bad.is_empty() {
                    let gc = w.export_graph_case(cx.rt, op);
                    let key = soundness_key(&bad);
                    cx.oracle_fail(&format!("search-{key}"), "search result violates the soundness part of the property", "<= k distinct live ids, non-decreasing true distances", &format!("{} ; result {:?}", bad.join(" | "), r), Some(gc));
                }
                // recall of this answer against brute force (measured only)
                if cx.report && !truth.is_empty() && k > 0 {
                    let kk = k.min(truth.len());
                    let mut all: Vec<(f64, u64)> = truth.iter().map(|(i, v)| (oracle_dist(w.cfg.metric, &qf32, v).0, *i)).collect();
                    all.sort_by(|a, b| a.partial_cmp(b).unwrap());
                    let thr = all[kk - 1].0 * 1.001 + 1e-6;
                    let hits = r.iter().take(kk).filter(|(i, _)| truth.get(i).is_some_and(|v| oracle_dist(w.cfg.metric, &qf32, v).0 <= thr)).count();
                    cx.rep.hit_n("recall_cases:hits", hits as u64);
                    cx.rep.hit_n("recall_cases:wanted", kk as u64);
                }
            }
        }
    }

    // --- correspondence ----------------------------------------------------------------------
    if cx.model.is_some() {
        let (g, e) = w.extract(cx.rt);
        let Some(e) = e else {
            cx.disagree("entry-point", "-", "the entry point could not be read from the metadata blob", None);
            return;
        };
        let mut dist_line = String::from("dist");
        let mut nan = false;
        if valid {
            for (id, n) in &g {
                match metric.compute_mixed(&qf32, &n.vec).ok().and_then(key) {
                    Some(kk) => dist_line.push_str(&format!(" {id}:{kk}")),
                    None => nan = true,
                }
            }
        }
        if nan || keys.is_none() {
            if cx.report {
                cx.rep.hit("skip:nan-distance");
            }
            return;
        }
        // exact-metric model `closer` against the real kernels, where the inputs make f32 arithmetic exact
        // (all components multiples of 1/2, small): for e / m / i the key order must BE the exact order;
        // for cosine (a quotient of square roots) a strict exact order must not be contradicted beyond 1e-5
        if valid && let Some(qi) = grid_ints(&qf32) {
            let nodes: Vec<(&u64, &GNode)> = g.iter().collect();
            let mut done = 0;
            for p in nodes.windows(2) {
                if done >= 4 {
                    break;
                }
                let (va, vb): (Vec<f32>, Vec<f32>) = (p[0].1.vec.iter().map(|x| x.to_f32()).collect(), p[1].1.vec.iter().map(|x| x.to_f32()).collect());
                let (Some(ai), Some(bi)) = (grid_ints(&va), grid_ints(&vb)) else { continue };
                let (Ok(da), Ok(db)) = (metric.compute_mixed(&qf32, &p[0].1.vec), metric.compute_mixed(&qf32, &p[1].1.vec)) else { continue };
                done += 1;
                let ints = |v: &[i64]| v.iter().map(|x| x.to_string()).collect::<Vec<_>>().join(",");
                let m = cx.model.as_mut().unwrap();
                let ab = m.ask(&format!("closer {} {} {} {}", w.cfg.metric, ints(&qi), ints(&ai), ints(&bi)));
                let ba = m.ask(&format!("closer {} {} {} {}", w.cfg.metric, ints(&qi), ints(&bi), ints(&ai)));
                if cx.report {
                    cx.rep.model_compared += 1;
                    cx.rep.hit(&format!("model:closer-{}", w.cfg.metric));
                }
                let bad = if w.cfg.metric == 'c' {
                    (ab == "true" && ba == "false" && da > db + 1e-5) || (ba == "true" && ab == "false" && db > da + 1e-5)
                } else {
                    (ab == "true") != (da <= db) || (ba == "true") != (db <= da)
                };
                if bad {
                    cx.disagree("metric-order", &format!("closer(a,b)={ab} closer(b,a)={ba}"), &format!("d(q,a)={da} d(q,b)={db} q={qi:?} a={ai:?} b={bi:?}"), None);
                }
            }
        }
        let m = cx.model.as_mut().unwrap();
        if !w.dumped {
            m.ask("reset");
            for (id, n) in &g {
                m.ask(&format!("node {id} {} {}", n.layer, lists_str(&n.nbrs)));
            }
            m.ask(&format!("entry {} {}", e.0, e.1));
            w.dumped = true;
        }
        m.ask(&dist_line);
        let ans = m.ask(&format!("search {k} {} {model_tail}", w.index.metadata().config.ef_search));
        if cx.report {
            cx.rep.model_compared += 1;
        }
        if ans != imp {
            let gc = if t[0] == "qx" { None } else { Some(w.export_graph_case(cx.rt, op)) };
            cx.disagree("search", &ans, &imp, gc);
        }
    }
}
