//! C12 — vector search is sound, distance-ordered, and keeps its recall floor.
//!
//! A case is a list of op lines driving the real `anda_db_hnsw::HnswIndex` in-process:
//!
//! ```text
//! cfg <dim> <metric e|c|i|m> <strategy s|h> <M> <efc> <efs> <maxlayers> <reconnect 0|1>
//! ins <id> <bf16 hex>        rm <id>
//! q <k> <f32 hex>            search_f32            qb <k> <bf16 hex>   search (bf16 query)
//! qx <k> <nan|inf|dim> <f|b> the error branches of both entry points
//! flush                      flush_with (nodes -> ids -> metadata) + purge_removed_nodes, all durable
//! crash <cut>                the same flush cut after `cut mod (steps+1)` durable steps, then load_all of what is durable
//! reindex                    after `crash`: remove + re-insert every document touched since the last complete flush
//! reload                     complete flush, then load_all (round trip), continue on the loaded index
//! g <dim> <metric> <efs> <maxlayers> <entry id> <entry layer> <ids csv>   explicit durable graph (header)
//! gn <id> <layer> <bf16 hex> <l0;l1;…>                                     explicit node blob
//! gload                                                                    load_all of the explicit graph
//! wcfg … / wins / wrm / wq / wflush / wcrash <cut>   the same through `anda_db::index::Hnsw` (see wrapper.rs)
//! recall <workload> <seed>                            re-measure one recall workload (replay only)
//! ```
//!
//! * correspondence (model vs implementation), all through the public API:
//!   - every query: the real graph is extracted (`node_ids` / `get_node_with`, entry point from the
//!     metadata blob the index itself serialises through a refusing `store_metadata_with` callback),
//!     sent to the Lean model (`drv_c12`) with the distance keys computed by the real
//!     `DistanceMetric::compute_mixed`; the model's answer must equal the real one — same ids, same
//!     order, same distance keys, same error;
//!   - every `rm` / `ins`: the model's `remove` / `insertAbs` on the state before must give the state
//!     after (entry point, max layer, version, id set, tombstones, dirty set, node lists);
//!   - every load (`crash`, `reload`, `gload`, `wcrash`): the model's `load` on the decoded durable
//!     objects must give the loaded state, or fail when `load_all` fails.
//! * oracle (independent of the model and of the index internals): brute force over the harness's
//!   own bf16-rounded copy of the live vectors: <= k, distinct, live, non-decreasing, reported
//!   distance = recomputed metric (f64, tolerance `1e-3*scale + 1e-6`); `LoadedInv` and "no id without
//!   its blob" after every interrupted flush; durable write order; round trip identity; the orphan
//!   sweep keeps referenced blobs; recall@10 on the documented workloads (measured).
mod recall;
mod util;
mod window;
mod world;
#[cfg(feature = "wrapper")]
mod wrapper;

use std::collections::BTreeMap;
use util::*;
use vh_common::serde_json::json;
use vh_common::*;
use world::*;

// ------------------------------------------------------------------------------------------------
// generators
// ------------------------------------------------------------------------------------------------

fn gen_vec(r: &mut Rng, dim: usize, kind: u64) -> Vec<f32> {
    // all values are bf16-representable
    let v: Vec<f32> = match kind {
        0 => (0..dim).map(|_| r.below(1 << 24) as f32 / (1u64 << 24) as f32).collect(), // uniform [0,1) as tests/recall.rs
        1 => (0..dim).map(|_| r.range(-4, 4) as f32 * 0.5).collect(),                    // coarse grid: exact ties, duplicates
        2 => (0..dim).map(|_| (r.below(1 << 16) as f32 / 65536.0 - 0.5) * 2.0).collect(), // centred
        3 => {
            // clustered
            let c = r.below(3) as f32 * 10.0;
            (0..dim).map(|_| c + r.below(1 << 12) as f32 / 4096.0).collect()
        }
        4 => vec![0.0; dim], // zero vector (cosine special case)
        _ => (0..dim).map(|_| (r.below(1 << 16) as f32 / 65536.0 - 0.5) * 2000.0).collect(), // out of distribution
    };
    v.into_iter().map(round_bf16).collect()
}

fn pick_cfg(r: &mut Rng) -> Cfg {
    let dim = if r.chance(1, 2) { *r.pick(&[2usize, 3, 4, 8, 16, 24, 32, 64]) } else { r.range(2, 64) as usize };
    Cfg {
        dim,
        metric: *r.pick(&['e', 'c', 'i', 'm']),
        strategy: *r.pick(&['s', 'h']),
        m: *r.pick(&[2u8, 2, 3, 4, 6, 8, 16, 32]),
        efc: *r.pick(&[1usize, 2, 4, 8, 16, 40, 200]),
        efs: *r.pick(&[1usize, 1, 2, 3, 5, 10, 50]),
        max_layers: *r.pick(&[1u8, 2, 3, 4, 16]),
        reconnect: r.chance(1, 2),
    }
}

fn gen_query(r: &mut Rng, cfg: &Cfg, stored: &BTreeMap<u64, Vec<f32>>, kind_bias: u64) -> String {
    let n = stored.len() as u64;
    let k = match r.below(8) {
        0 => 1,
        1 => 2,
        2 => 3,
        3 => 10,
        4 => n.max(1),
        5 => n + 1,
        6 => r.range(1, (n + 2) as i64) as u64,
        _ => *r.pick(&[5000u64, 4096, 4097, 100]),
    };
    let qv: Vec<f32> = match r.below(6) {
        0 | 1 if n > 0 => {
            let i = r.usize(stored.len());
            stored.values().nth(i).unwrap().clone()
        }
        2 => gen_vec(r, cfg.dim, 5),
        3 => gen_vec(r, cfg.dim, 4),
        _ => gen_vec(r, cfg.dim, kind_bias),
    };
    match r.below(10) {
        0 => format!("qb {k} {}", hex_bf16(&qv)),
        1 if r.chance(1, 3) => format!("qx {} {} {}", if r.chance(1, 4) { 0 } else { k }, r.pick(&["nan", "inf", "dim", "nandim"]), r.pick(&["f", "b"])),
        _ => {
            // f32 queries need not be bf16-representable
            let qv: Vec<f32> = if r.chance(1, 2) { qv.iter().map(|x| x + (r.below(1000) as f32) * 1e-6).collect() } else { qv };
            format!("q {k} {}", hex_f32(&qv))
        }
    }
}

/// mutations for the write window of one flush: remove / re-insert the same id with another vector /
/// insert a new id / remove another id, at callback positions around the node, ids and metadata writes
fn gen_hooks(r: &mut Rng, cfg: &Cfg, universe: u64, kind: u64, stored: &mut BTreeMap<u64, Vec<f32>>) -> String {
    let mut parts = vec![];
    for _ in 0..r.range(1, 3) {
        let pos = match r.below(6) {
            0 => "I".to_string(),
            1 => "M".to_string(),
            _ => r.below(5).to_string(),
        };
        let pos = if r.chance(1, 2) { format!("{pos}+") } else { pos };
        let mut ms = vec![];
        for _ in 0..r.range(1, 3) {
            match r.below(4) {
                0 | 1 if !stored.is_empty() => {
                    // remove + re-insert the same id with a DIFFERENT vector
                    let id = *stored.keys().nth(r.usize(stored.len())).unwrap();
                    let kk = if r.chance(1, 2) { kind } else { r.below(4) };
                    let v = gen_vec(r, cfg.dim, kk);
                    ms.push(format!("r{id}"));
                    ms.push(format!("i{id}:{}", hex_bf16(&v)));
                    stored.insert(id, v);
                }
                2 if !stored.is_empty() => {
                    let id = *stored.keys().nth(r.usize(stored.len())).unwrap();
                    ms.push(format!("r{id}"));
                    stored.remove(&id);
                }
                _ => {
                    let id = r.below(universe);
                    let v = gen_vec(r, cfg.dim, kind);
                    ms.push(format!("i{id}:{}", hex_bf16(&v)));
                    stored.entry(id).or_insert(v);
                }
            }
        }
        parts.push(format!("{pos}={}", ms.join("/")));
    }
    parts.join(",")
}

/// history case: inserts / removes / re-inserts, queries, flushes, interrupted flushes
fn gen_history(r: &mut Rng, big: bool) -> Vec<String> {
    let cfg = pick_cfg(r);
    let mut ops = vec![cfg.line()];
    let kind = r.below(4);
    let universe = if big { r.range(40, 160) as u64 } else { r.range(3, 30) as u64 };
    let nops = if big { r.range(80, 260) } else { r.range(8, 70) };
    let mut stored: BTreeMap<u64, Vec<f32>> = BTreeMap::new();
    let mut crashed = false;
    for _ in 0..nops {
        let c = r.below(100);
        if crashed && c < 30 {
            ops.push("reindex".into());
            crashed = false;
        } else if c < 45 || stored.is_empty() {
            let id = r.below(universe);
            let kk = if r.chance(1, 8) { r.below(5) } else { kind };
            let v = if r.chance(1, 10) && !stored.is_empty() { stored.values().nth(r.usize(stored.len())).unwrap().clone() } else { gen_vec(r, cfg.dim, kk) };
            if r.chance(1, 30) {
                // refused inserts: wrong dimension, NaN, infinity (the index must stay unchanged)
                let mut h = hex_bf16(&v);
                match r.below(3) {
                    0 => h.push_str("3f80"),
                    1 => h.replace_range(0..4, "7fc0"),
                    _ => h.replace_range(0..4, "ff80"),
                }
                ops.push(format!("ins {id} {h}"));
                continue;
            }
            ops.push(format!("ins {id} {}", hex_bf16(&v)));
            stored.entry(id).or_insert(v); // a duplicate insert is rejected by the index
        } else if c < 62 {
            let id = if r.chance(4, 5) { *stored.keys().nth(r.usize(stored.len())).unwrap() } else { r.below(universe) };
            ops.push(format!("rm {id}"));
            stored.remove(&id);
        } else if c < 90 {
            ops.push(gen_query(r, &cfg, &stored, kind));
        } else if c < 92 {
            ops.push("flush".into());
        } else if c < 95 {
            // a flush whose write callbacks mutate the index, then queries, then a quiescent flush
            if crashed {
                ops.push("reindex".into());
                crashed = false;
            }
            let hooks = gen_hooks(r, &cfg, universe, kind, &mut stored);
            if r.chance(1, 5) {
                ops.push(format!("crashw {} {hooks}", r.below(1000)));
                crashed = true;
            } else {
                ops.push(format!("{} {hooks}", if r.chance(1, 4) { "flushl" } else { "flushw" }));
                for _ in 0..r.below(3) {
                    ops.push(gen_query(r, &cfg, &stored, kind));
                }
                if r.chance(1, 3) {
                    let hooks = gen_hooks(r, &cfg, universe, kind, &mut stored);
                    ops.push(format!("flushw {hooks}"));
                }
                ops.push("flush".into());
                if r.chance(1, 2) {
                    ops.push("reload".into());
                }
                for _ in 0..r.below(3) {
                    ops.push(gen_query(r, &cfg, &stored, kind));
                }
            }
        } else if c < 98 {
            if crashed {
                ops.push("reindex".into());
            }
            ops.push(format!("crash {}", r.below(1000)));
            crashed = true;
        } else {
            if crashed {
                ops.push("reindex".into());
                crashed = false;
            }
            ops.push("reload".into());
        }
    }
    if crashed {
        ops.push(gen_query(r, &cfg, &stored, kind));
        ops.push("reindex".into());
    }
    for _ in 0..r.range(2, 6) {
        ops.push(gen_query(r, &cfg, &stored, kind));
    }
    ops
}

/// multi-boot history around a TORN flush: remove a set of ids and flush (tombstones persisted, blobs purged); re-insert
/// them; the next flush is cut at a chosen write (every position is generated, the one after the ids PUT and before the
/// metadata PUT included); load; idempotent re-index (`AlreadyExists` tolerated, so stale tombstones of live ids stay);
/// ordinary flush + purge; second load; queries by the current vectors
fn gen_torn(r: &mut Rng) -> Vec<String> {
    let mut cfg = pick_cfg(r);
    cfg.dim = r.range(2, 10) as usize;
    let mut ops = vec![cfg.line()];
    let kind = r.below(4);
    let n = r.range(3, 14) as u64;
    let mut stored: BTreeMap<u64, Vec<f32>> = BTreeMap::new();
    for id in 0..n {
        let v = gen_vec(r, cfg.dim, kind);
        ops.push(format!("ins {id} {}", hex_bf16(&v)));
        stored.insert(id, v);
    }
    ops.push("flush".into());
    for round in 0..r.range(1, 3) {
        let victims: Vec<u64> = stored.keys().copied().filter(|_| r.chance(1, 2)).collect();
        for id in &victims {
            ops.push(format!("rm {id}"));
        }
        if r.chance(4, 5) {
            ops.push("flush".into());
        }
        for id in &victims {
            // mostly the same vector again (the idempotent path), sometimes another one
            let v = if r.chance(2, 3) { stored[id].clone() } else { gen_vec(r, cfg.dim, kind) };
            ops.push(format!("ins {id} {}", hex_bf16(&v)));
            stored.insert(*id, v);
        }
        if r.chance(1, 4) {
            let id = n + round as u64;
            let v = gen_vec(r, cfg.dim, kind);
            ops.push(format!("ins {id} {}", hex_bf16(&v)));
            stored.insert(id, v);
        }
        // cut position: uniformly over the writes of that flush (dirty nodes ≈ victims and their neighbours, + ids + metadata)
        let cut = r.below(victims.len() as u64 * 2 + 5);
        ops.push(match r.below(6) {
            0 => format!("crashl {cut} -"),
            1 => format!("crashw {cut} -"),
            _ => format!("crash {cut}"),
        });
        if r.chance(1, 3) {
            ops.push(gen_query(r, &cfg, &stored, kind));
        }
        ops.push(if r.chance(4, 5) { "reindexi".into() } else { "reindex".into() });
        ops.push(gen_query(r, &cfg, &stored, kind));
        ops.push("flush".into());
        ops.push("reload".into());
        for _ in 0..r.range(1, 3) {
            ops.push(gen_query(r, &cfg, &stored, kind));
        }
        if r.chance(1, 2) {
            // and once more without any mutation in between
            ops.push("flush".into());
            ops.push("reload".into());
        }
    }
    ops
}

/// explicit, possibly malformed graph loaded through `load_all`: dangling edges, self loops,
/// duplicate edges, asymmetric edges, edges on layers the target does not have, entry point with a
/// wrong layer tag or dangling, ids without blobs
fn gen_graph(r: &mut Rng) -> Vec<String> {
    let dim = r.range(2, 8) as usize;
    let metric = *r.pick(&['e', 'c', 'i', 'm']);
    let efs = *r.pick(&[1usize, 1, 2, 3, 5, 50]);
    // the metadata may carry a `max_layers` that `load_metadata` normalises (clamp to 1..=64)
    let raw_layers = *r.pick(&[1u8, 2, 3, 4, 1, 2, 3, 4, 1, 2, 3, 4, 0, 100, 255]);
    let max_layers = raw_layers.clamp(1, 64).min(4);
    let n = r.range(1, 24) as usize;
    let universe = (n as u64) * 2 + 2;
    let mut ids: Vec<u64> = vec![];
    while ids.len() < n {
        let i = r.below(universe);
        if !ids.contains(&i) {
            ids.push(i);
        }
    }
    let kind = r.below(3);
    let missing_some = r.chance(1, 4);
    let mut id_set: Vec<u64> = ids.clone();
    let mut blobs = vec![];
    for &id in &ids {
        if missing_some && r.chance(1, 5) {
            continue; // id in the id set, but no blob
        }
        let layer = if r.chance(2, 3) { 0 } else { r.below(max_layers as u64) };
        let lists: Vec<String> = (0..=layer)
            .map(|_| {
                let deg = r.below(6);
                let l: Vec<u64> = (0..deg).map(|_| if r.chance(5, 6) { ids[r.usize(ids.len())] } else { r.below(universe + 3) }).collect();
                if l.is_empty() { "-".to_string() } else { join(l, ",") }
            })
            .collect();
        blobs.push(format!("gn {id} {layer} {} {}", hex_bf16(&gen_vec(r, dim, kind)), lists.join(";")));
    }
    if r.chance(1, 10) && !blobs.is_empty() {
        // one blob that `validate_loaded_node` must refuse (the whole load fails)
        let i = r.usize(blobs.len());
        let t: Vec<String> = blobs[i].split(' ').map(|x| x.to_string()).collect();
        blobs[i] = match r.below(5) {
            0 => format!("{} bid={}", blobs[i], universe + 1),
            1 => format!("{} nan", blobs[i]),
            2 => format!("gn {} {} {} {}", t[1], t[2], hex_bf16(&gen_vec(r, dim + 1, kind)), t[4]),
            3 => {
                let eff = raw_layers.clamp(1, 64);
                format!("gn {} {} {} {}", t[1], eff, t[3], vec!["-"; eff as usize + 1].join(";"))
            }
            _ => format!("gn {} {} {} {};-", t[1], t[2], t[3], t[4]),
        };
    }
    if r.chance(1, 6) {
        // blobs that the id set does not mention (orphans: never loaded)
        let id = universe + 7;
        blobs.push(format!("gn {id} 0 {} -", hex_bf16(&gen_vec(r, dim, kind))));
    }
    if r.chance(1, 8) {
        id_set.retain(|_| r.chance(4, 5));
    }
    id_set.sort();
    let (eid, elayer) = match r.below(6) {
        0 => (r.below(universe + 3), r.below(5)),
        1 => (ids[r.usize(ids.len())], *r.pick(&[0u64, 1, 2, 3, 5, 70, 200])),
        _ => (ids[r.usize(ids.len())], r.below(max_layers as u64)),
    };
    let mut ops = vec![format!("g {dim} {metric} {efs} {raw_layers} {eid} {elayer} {}", if id_set.is_empty() { "-".to_string() } else { join(&id_set, ",") })];
    ops.extend(blobs);
    ops.push("gload".into());
    let cfg = Cfg { dim, metric, strategy: 'h', m: 4, efc: 8, efs, max_layers, reconnect: false };
    let stored: BTreeMap<u64, Vec<f32>> = BTreeMap::new();
    for _ in 0..r.range(2, 8) {
        ops.push(gen_query(r, &cfg, &stored, kind));
    }
    // k relative to n
    ops.push(format!("q {} {}", n + 1, hex_f32(&gen_vec(r, dim, kind))));
    ops.push(format!("q {} {}", n, hex_f32(&gen_vec(r, dim, kind))));
    if r.chance(1, 3) {
        ops.push(format!("rm {}", ids[r.usize(ids.len())]));
        ops.push(gen_query(r, &cfg, &stored, kind));
        ops.push(format!("ins {} {}", universe + 9, hex_bf16(&gen_vec(r, dim, kind))));
        ops.push(gen_query(r, &cfg, &stored, kind));
    }
    ops
}

/// the same kind of history through `anda_db::index::Hnsw` over a real `Storage` (CAS puts, purge, orphan sweep)
fn gen_wrapper(r: &mut Rng) -> Vec<String> {
    let mut cfg = pick_cfg(r);
    cfg.dim = r.range(2, 12) as usize;
    let mut ops = vec![cfg.line().replacen("cfg", "wcfg", 1)];
    let kind = r.below(4);
    let universe = r.range(3, 24) as u64;
    let mut stored: BTreeMap<u64, Vec<f32>> = BTreeMap::new();
    for _ in 0..r.range(10, 70) {
        let c = r.below(100);
        if c < 42 || stored.is_empty() {
            let id = r.below(universe);
            let v = gen_vec(r, cfg.dim, kind);
            ops.push(format!("wins {id} {}", hex_bf16(&v)));
            stored.entry(id).or_insert(v);
        } else if c < 60 {
            let id = if r.chance(4, 5) { *stored.keys().nth(r.usize(stored.len())).unwrap() } else { r.below(universe) };
            ops.push(format!("wrm {id}"));
            stored.remove(&id);
        } else if c < 82 {
            let q = gen_query(r, &cfg, &stored, kind);
            if let Some(rest) = q.strip_prefix("q ") {
                ops.push(format!("wq {rest}"));
            }
        } else if c < 86 {
            ops.push("wflush".into());
        } else if c < 89 && stored.len() >= 2 {
            // torn flush around a remove / flush / re-insert of the same ids, then an ordinary flush and a second boot
            let victims: Vec<u64> = stored.keys().copied().filter(|_| r.chance(1, 2)).collect();
            for id in &victims {
                ops.push(format!("wrm {id}"));
            }
            ops.push("wflush".into());
            for id in &victims {
                ops.push(format!("wins {id} {}", hex_bf16(&stored[id])));
            }
            ops.push(format!("wcrashi {}", r.below(victims.len() as u64 * 2 + 4)));
            ops.push("wflush".into());
            ops.push("wcrashi 100000".into()); // completes, then bootstraps: the second boot
            let q = gen_query(r, &cfg, &stored, kind);
            if let Some(rest) = q.strip_prefix("q ") {
                ops.push(format!("wq {rest}"));
            }
        } else {
            ops.push(format!("{} {}", if r.chance(1, 2) { "wcrashi" } else { "wcrash" }, r.below(12)));
            let q = gen_query(r, &cfg, &stored, kind);
            if let Some(rest) = q.strip_prefix("q ") {
                ops.push(format!("wq {rest}"));
            }
        }
    }
    ops
}

// ------------------------------------------------------------------------------------------------
// main
// ------------------------------------------------------------------------------------------------

fn main() {
    let args = Args::parse();
    let mut rep = Report::new(
        "C12",
        &args,
        "case = one op list: a history on HnswIndex (cfg; 8..260 insert/remove/re-insert/query/flush/interrupted-flush+load/reindex/reload ops over \
         seeded vectors; 4 metrics, 2 strategies, dim 2..64), the same kind of history through anda_db::index::Hnsw over a Storage whose object store \
         refuses mutations after a cut, or an explicit, possibly malformed durable graph loaded with load_all and then queried; every query, insert, \
         remove and load is compared with the Lean model and checked by the independent oracle; distinct = distinct op list; non-trivial = at least \
         one query answered with a non-empty list",
    );
    let rt = tokio::runtime::Builder::new_current_thread().enable_all().build().unwrap();
    let mut model = ModelProc::from_args(&args);
    if let Some(m) = model.as_mut() {
        let c = m.ask("consts");
        let want = format!(
            "MAX_EF_SEARCH={} SEARCH_MAX_ATTEMPTS={} F32_MAX_KEY={}",
            anda_db_hnsw::HnswConfig::MAX_EF_SEARCH,
            anda_db_hnsw::HnswIndex::SEARCH_MAX_ATTEMPTS,
            key(f32::MAX).unwrap()
        );
        if c != want {
            rep.disagreement("constants", &["consts".into()], &c, &want);
        }
    }

    let mut cases: Vec<(String, Vec<String>)> = vec![];
    if let Some(p) = &args.replay {
        cases.push(("replay".into(), read_replay(p)));
    } else {
        if let Some(dir) = &args.corpus {
            cases.extend(read_corpus(dir));
        }
        let n_hist = args.budget(700, 14000);
        let n_big = args.budget(40, 1200);
        let n_graph = args.budget(1500, 40000);
        let mut i = 0u64;
        for _ in 0..n_hist {
            cases.push((format!("hist{i}"), gen_history(&mut Rng::for_case(args.seed, i), false)));
            i += 1;
        }
        for _ in 0..n_big {
            cases.push((format!("big{i}"), gen_history(&mut Rng::for_case(args.seed, i), true)));
            i += 1;
        }
        for _ in 0..(if cfg!(feature = "wrapper") { args.budget(300, 6000) } else { 0 }) {
            cases.push((format!("wrap{i}"), gen_wrapper(&mut Rng::for_case(args.seed, i))));
            i += 1;
        }
        for _ in 0..args.budget(500, 8000) {
            cases.push((format!("torn{i}"), gen_torn(&mut Rng::for_case(args.seed, i))));
            i += 1;
        }
        for _ in 0..n_graph {
            cases.push((format!("graph{i}"), gen_graph(&mut Rng::for_case(args.seed, i))));
            i += 1;
        }
    }

    for (name, ops) in &cases {
        if let Some(l) = ops.first()
            && l.starts_with("recall ")
        {
            // replay of a recall measurement: `recall <workload> <seed>`
            let t: Vec<&str> = l.split_whitespace().collect();
            if t.len() == 3 {
                recall::one(&rt, t[1], t[2].parse().unwrap_or(0), &mut rep);
            }
            continue;
        }
        let (before_d, before_o) = (rep.disagreements.len(), rep.oracle_failures.len());
        let out = run_case(&rt, ops, &mut model, &mut rep, true);
        if let Some(f) = out.first_failure
            && args.replay.is_none()
        {
            // try to turn the failure into a deterministic explicit-graph case and shrink that
            let base: Vec<String> = f.graph_case.clone().unwrap_or_else(|| ops.clone());
            let kind = f.kind.clone();
            let still = |cand: &[String], model: &mut Option<ModelProc>| -> bool {
                let mut scratch = Report::new("C12", &args, "");
                let o = run_case(&rt, cand, model, &mut scratch, false);
                o.first_failure.is_some_and(|g| g.kind == kind)
            };
            let deterministic = f.graph_case.is_some() && still(&base, &mut model);
            let base = if deterministic { base } else { ops.clone() };
            let small = shrink(base, |cand| cand.first().is_some_and(|l| l.starts_with("cfg ") || l.starts_with("g ") || l.starts_with("wcfg ")) && still(cand, &mut model), 150);
            let mut scratch = Report::new("C12", &args, "");
            run_case(&rt, &small, &mut model, &mut scratch, true);
            let fresh = if f.is_oracle { scratch.oracle_failures.first().cloned() } else { scratch.disagreements.first().cloned() };
            // one (shrunken) entry per failing case
            let (list, before) = if f.is_oracle { (&mut rep.oracle_failures, before_o) } else { (&mut rep.disagreements, before_d) };
            if let Some(mut fresh) = fresh {
                fresh["case"] = json!(name);
                fresh["deterministic_replay"] = json!(deterministic);
                list.truncate(before);
                if list.len() < 20 {
                    list.push(fresh);
                }
            }
        }
        if rep.samples.len() < 4 && ops.len() < 40 {
            rep.sample(json!({"case": name, "ops": ops.iter().map(|o| if o.len() > 90 { format!("{}…", &o[..90]) } else { o.clone() }).collect::<Vec<_>>()}));
        }
    }

    // which branches of the MODEL the correspondence run visited (counted by the driver)
    if let Some(m) = model.as_mut() {
        let cov = m.ask("cov");
        for kv in cov.split_whitespace() {
            if let Some((k, v)) = kv.rsplit_once('=') {
                rep.hit_n(&format!("model-branch:{k}"), v.parse().unwrap_or(0));
            }
        }
    }
    if args.replay.is_none() {
        recall::suite(&rt, &args, &mut rep);
    }
    rep.write(&args);
}
