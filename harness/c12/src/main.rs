//! Harness for property C12 (stub: not built yet).
fn main() {
    let a = vh_common::Args::parse();
    let r = vh_common::Report::new("C12", &a, "stub");
    r.write(&a);
}
