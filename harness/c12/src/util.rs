//! Small helpers: bf16 rounding, hex codecs, the order-preserving distance key, the oracle's own
//! distance functions, the configuration line.
use anda_db_hnsw::{DistanceMetric, HnswConfig, SelectNeighborsStrategy, half::bf16};

pub fn round_bf16(x: f32) -> f32 {
    bf16::from_f32(x).to_f32()
}

pub fn hex_bf16(v: &[f32]) -> String {
    v.iter().map(|x| format!("{:04x}", bf16::from_f32(*x).to_bits())).collect()
}

pub fn hex_f32(v: &[f32]) -> String {
    v.iter().map(|x| format!("{:08x}", x.to_bits())).collect()
}

pub fn parse_bf16(s: &str) -> Option<Vec<bf16>> {
    if s.len() % 4 != 0 || !s.is_ascii() {
        return None;
    }
    (0..s.len() / 4).map(|i| u16::from_str_radix(&s[i * 4..i * 4 + 4], 16).ok().map(bf16::from_bits)).collect()
}

pub fn parse_f32(s: &str) -> Option<Vec<f32>> {
    if s.len() % 8 != 0 || !s.is_ascii() {
        return None;
    }
    (0..s.len() / 8).map(|i| u32::from_str_radix(&s[i * 8..i * 8 + 8], 16).ok().map(f32::from_bits)).collect()
}

/// Order-preserving map from non-NaN `f32` into `u64` (what the Lean model calls a distance key):
/// non-negative floats map to `bits | 0x8000_0000` (the IEEE bit pattern is monotone on
/// non-negative floats), negative floats to `!bits`, and `-0.0` is merged with `+0.0` because both
/// `OrderedFloat` and the raw `f32` comparisons of `search_layer` treat them as equal.
pub fn key(x: f32) -> Option<u64> {
    if x.is_nan() {
        None
    } else if x == 0.0 {
        Some(0x8000_0000)
    } else {
        let b = x.to_bits();
        Some(if b >> 31 == 1 { (!b) as u64 } else { (b | 0x8000_0000) as u64 })
    }
}

pub fn metric_of(c: char) -> DistanceMetric {
    match c {
        'e' => DistanceMetric::Euclidean,
        'c' => DistanceMetric::Cosine,
        'i' => DistanceMetric::InnerProduct,
        _ => DistanceMetric::Manhattan,
    }
}

/// The oracle's own metric: f64 accumulation, plain left-to-right sums. Returns the value and the
/// magnitude scale against which the f32 kernel's rounding error is bounded.
pub fn oracle_dist(metric: char, q: &[f32], v: &[f32]) -> (f64, f64) {
    let it = || q.iter().zip(v).map(|(a, b)| (*a as f64, *b as f64));
    match metric {
        'e' => {
            let d = it().map(|(a, b)| (a - b) * (a - b)).sum::<f64>().sqrt();
            (d, d)
        }
        'c' => {
            let dot: f64 = it().map(|(a, b)| a * b).sum();
            let na = it().map(|(a, _)| a * a).sum::<f64>().sqrt();
            let nb = it().map(|(_, b)| b * b).sum::<f64>().sqrt();
            if na < f32::EPSILON as f64 || nb < f32::EPSILON as f64 { (1.0, 1.0) } else { (1.0 - (dot / (na * nb)).clamp(-1.0, 1.0), 1.0) }
        }
        'i' => {
            let dot: f64 = it().map(|(a, b)| a * b).sum();
            let mag: f64 = it().map(|(a, b)| (a * b).abs()).sum();
            (-dot, mag)
        }
        _ => {
            let d: f64 = it().map(|(a, b)| (a - b).abs()).sum();
            (d, d)
        }
    }
}

pub fn dist_tolerance(scale: f64) -> f64 {
    1e-3 * scale + 1e-6
}

#[derive(Clone, Debug)]
pub struct Cfg {
    pub dim: usize,
    pub metric: char,
    pub strategy: char,
    pub m: u8,
    pub efc: usize,
    pub efs: usize,
    pub max_layers: u8,
    pub reconnect: bool,
}

impl Cfg {
    pub fn line(&self) -> String {
        format!("cfg {} {} {} {} {} {} {} {}", self.dim, self.metric, self.strategy, self.m, self.efc, self.efs, self.max_layers, self.reconnect as u8)
    }
    pub fn parse(t: &[&str]) -> Option<Cfg> {
        if t.len() != 9 {
            return None;
        }
        Some(Cfg {
            dim: t[1].parse().ok()?,
            metric: t[2].chars().next()?,
            strategy: t[3].chars().next()?,
            m: t[4].parse().ok()?,
            efc: t[5].parse().ok()?,
            efs: t[6].parse().ok()?,
            max_layers: t[7].parse().ok()?,
            reconnect: t[8] == "1",
        })
    }
    pub fn to_hnsw(&self) -> HnswConfig {
        HnswConfig {
            dimension: self.dim,
            max_layers: self.max_layers,
            max_connections: self.m,
            ef_construction: self.efc,
            ef_search: self.efs,
            distance_metric: metric_of(self.metric),
            scale_factor: None,
            select_neighbors_strategy: if self.strategy == 's' { SelectNeighborsStrategy::Simple } else { SelectNeighborsStrategy::Heuristic },
            reconnect_on_delete: self.reconnect,
        }
    }
}
