//! recall@10 against exact brute force on the documented workloads of `tests/recall.rs`
//! (same SplitMix64 stream, same sizes, same floors), plus the same workloads after an interrupted
//! flush + load + re-index.  Recall is a statistic of a randomised graph (`LayerGen` draws from the
//! thread RNG): it is MEASURED here and reported under `measured`, never proved.
use crate::util::*;
use crate::world::*;
use anda_db_hnsw::{HnswConfig, HnswIndex};
use std::collections::{BTreeMap, BTreeSet};
use tokio::runtime::Runtime;
use vh_common::serde_json::{Value, json};
use vh_common::*;

/// margin granted below the documented floors after an interrupted flush + re-index
pub const CRASH_MARGIN_AVG: f64 = 0.05;
pub const CRASH_MARGIN_MIN: f64 = 0.10;

struct SplitMix64(u64);

impl SplitMix64 {
    fn next_u64(&mut self) -> u64 {
        self.0 = self.0.wrapping_add(0x9E3779B97F4A7C15);
        let mut z = self.0;
        z = (z ^ (z >> 30)).wrapping_mul(0xBF58476D1CE4E5B9);
        z = (z ^ (z >> 27)).wrapping_mul(0x94D049BB133111EB);
        z ^ (z >> 31)
    }
    fn next_f32(&mut self) -> f32 {
        (self.next_u64() >> 40) as f32 / (1u64 << 24) as f32
    }
    fn next_vector(&mut self, dim: usize) -> Vec<f32> {
        (0..dim).map(|_| round_bf16(self.next_f32())).collect()
    }
}

struct Bench {
    index: HnswIndex,
    data: BTreeMap<u64, Vec<f32>>,
    queries: Vec<Vec<f32>>,
    metric: char,
}

fn build(cfg: &Cfg, n: usize, nq: usize, seed: u64) -> Bench {
    let index = HnswIndex::new("recall".into(), Some(cfg.to_hnsw()));
    let mut rng = SplitMix64(seed);
    let mut data = BTreeMap::new();
    for id in 1..=(n as u64) {
        let v = rng.next_vector(cfg.dim);
        index.insert_f32(id, v.clone(), id).expect("insert");
        data.insert(id, v);
    }
    let queries = (0..nq).map(|_| rng.next_vector(cfg.dim)).collect();
    Bench { index, data, queries, metric: cfg.metric }
}

fn default_cfg(metric: char, dim: usize) -> Cfg {
    let d = HnswConfig::default();
    Cfg { dim, metric, strategy: 'h', m: d.max_connections, efc: d.ef_construction, efs: d.ef_search, max_layers: d.max_layers, reconnect: false }
}

/// (avg, min, soundness violations)
fn measure(b: &Bench, index: &HnswIndex) -> (f64, f64, Vec<String>) {
    let k = 10usize;
    let (mut total, mut min) = (0.0f64, 1.0f64);
    let mut bad = vec![];
    for q in &b.queries {
        let res = match index.search_f32(q, k) {
            Ok(r) => r,
            Err(e) => {
                bad.push(format!("search failed: {}", err_str(&e)));
                vec![]
            }
        };
        if res.len() > k {
            bad.push("more than k results".into());
        }
        let mut seen = BTreeSet::new();
        for (id, d) in &res {
            if !b.data.contains_key(id) {
                bad.push(format!("dead id {id}"));
            }
            if !seen.insert(*id) {
                bad.push(format!("duplicate id {id}"));
            }
            if !d.is_finite() {
                bad.push(format!("non-finite distance for {id}"));
            }
        }
        let mut all: Vec<(f64, u64)> = b.data.iter().map(|(i, v)| (oracle_dist(b.metric, q, v).0, *i)).collect();
        all.sort_by(|a, b| a.partial_cmp(b).unwrap());
        let kth = all.get(k - 1).or(all.last()).map(|x| x.0).unwrap_or(0.0);
        let thr = kth * 1.001 + 1e-6;
        let hits = res.iter().take(k).filter(|(i, _)| b.data.get(i).is_some_and(|v| oracle_dist(b.metric, q, v).0 <= thr)).count();
        let r = hits as f64 / k as f64;
        total += r;
        min = min.min(r);
    }
    (total / b.queries.len().max(1) as f64, min, bad)
}

fn full_flush(rt: &Runtime, index: &HnswIndex, d: &mut Durable, now: u64) -> Vec<W> {
    let ws = flush_record(rt, index, now).expect("flush");
    for w in &ws {
        d.apply(w);
    }
    ws
}

struct Row {
    workload: String,
    seed: u64,
    avg: f64,
    min: f64,
    floor_avg: f64,
    floor_min: f64,
    bad: Vec<String>,
}

impl Row {
    fn ok(&self) -> bool {
        self.avg >= self.floor_avg && self.min >= self.floor_min && self.bad.is_empty()
    }
    fn json(&self) -> Value {
        json!({"workload": self.workload, "seed": self.seed, "avg": (self.avg * 1e4).round() / 1e4, "min": self.min, "floor_avg": (self.floor_avg * 1e4).round() / 1e4,
               "floor_min": self.floor_min, "ok": self.ok(), "soundness": self.bad.iter().take(3).collect::<Vec<_>>()})
    }
}

/// interrupted flush at `cut`, load, re-index of the touched documents, measure
fn crash_reindex(rt: &Runtime, b: &Bench, durable: &Durable, ws: &[W], touched: &BTreeSet<u64>, cut_sel: u64, now: u64) -> Result<(f64, f64, Vec<String>, String), String> {
    let n_nodes = ws.iter().filter(|w| matches!(w, W::Node(..))).count();
    let cut = match cut_sel {
        0 => 0,
        1 => n_nodes / 2,
        2 => n_nodes,         // all nodes, no ids
        3 => n_nodes + 1,     // ids, no metadata
        4 => (n_nodes + 2).min(ws.len()), // committed, nothing purged
        _ => ws.len() - (ws.len() - (n_nodes + 2).min(ws.len())) / 2, // inside the purge
    }
    .min(ws.len());
    let mut d = durable.clone();
    for w in &ws[..cut] {
        d.apply(w);
    }
    let loaded = load(rt, &d)?;
    let mut t = now + 10;
    for id in touched {
        t += 1;
        loaded.remove(*id, t);
        if let Some(v) = b.data.get(id) {
            loaded.insert_f32(*id, v.clone(), t).map_err(|e| format!("re-insert {id}: {}", err_str(&e)))?;
        }
    }
    let mut bad = vec![];
    let ids: BTreeSet<u64> = loaded.node_ids().into_iter().collect();
    let want: BTreeSet<u64> = b.data.keys().copied().collect();
    if ids != want {
        bad.push(format!("id set after re-index differs from the live documents ({} vs {})", ids.len(), want.len()));
    }
    let (avg, min, mut bad2) = measure(b, &loaded);
    bad.append(&mut bad2);
    Ok((avg, min, bad, format!("cut {cut}/{}", ws.len())))
}

fn run_workload(rt: &Runtime, name: &str, seed: u64, rows: &mut Vec<Row>) {
    let mut push = |workload: String, avg: f64, min: f64, fa: f64, fm: f64, bad: Vec<String>| rows.push(Row { workload, seed, avg, min, floor_avg: fa, floor_min: fm, bad });
    match name {
        "euclidean" | "cosine" => {
            let (cfg, n, nq) = if name == "euclidean" { (default_cfg('e', 32), 1000, 50) } else { (default_cfg('c', 24), 800, 40) };
            let b = build(&cfg, n, nq, seed);
            let (avg, min, bad) = measure(&b, &b.index);
            push(name.into(), avg, min, 0.95, 0.60, bad);
        }
        "deletions" => {
            let mut b = build(&default_cfg('e', 32), 1000, 50, seed);
            let mut durable = Durable::default();
            full_flush(rt, &b.index, &mut durable, 1500);
            let mut touched = BTreeSet::new();
            for id in (1..=1000u64).filter(|i| i % 5 == 0) {
                b.index.remove(id, 2000);
                b.data.remove(&id);
                touched.insert(id);
            }
            let (avg, min, bad) = measure(&b, &b.index);
            push("deletions".into(), avg, min, 0.90, 0.50, bad);
            // the same state reached through an interrupted flush + load + re-index
            let ws = flush_record(rt, &b.index, 3000).expect("flush");
            for cut in 0..6u64 {
                match crash_reindex(rt, &b, &durable, &ws, &touched, cut, 3000) {
                    Ok((avg, min, bad, what)) => push(format!("deletions+interrupted-flush({what})"), avg, min, 0.90 - CRASH_MARGIN_AVG, 0.50 - CRASH_MARGIN_MIN, bad),
                    Err(e) => push(format!("deletions+interrupted-flush(sel {cut})"), 0.0, 0.0, 0.90 - CRASH_MARGIN_AVG, 0.50 - CRASH_MARGIN_MIN, vec![e]),
                }
            }
        }
        "heavy-deletions" => {
            let cfg = Cfg { dim: 32, metric: 'e', strategy: 'h', m: 6, efc: 40, efs: 40, max_layers: 16, reconnect: true };
            let mut b = build(&cfg, 2000, 50, seed);
            let (before, _, bad0) = measure(&b, &b.index);
            push("heavy-deletions:before".into(), before, 1.0, 0.0, 0.0, bad0);
            for id in (1..=2000u64).filter(|i| i % 2 == 0) {
                b.index.remove(id, 2000);
                b.data.remove(&id);
            }
            let (avg, min, bad) = measure(&b, &b.index);
            push("heavy-deletions:50%".into(), avg, min, before - 0.06, 0.50, bad);
            for id in (1..=2000u64).filter(|i| i % 2 == 1 && i % 5 != 0) {
                b.index.remove(id, 3000);
                b.data.remove(&id);
            }
            let (avg, min, mut bad) = measure(&b, &b.index);
            if b.index.len() != b.data.len() {
                bad.push("len differs from the live documents".into());
            }
            push("heavy-deletions:80%".into(), avg, min, before - 0.08, 0.50, bad);
        }
        "churn" => {
            let mut b = build(&default_cfg('e', 16), 600, 30, seed);
            let mut durable = Durable::default();
            full_flush(rt, &b.index, &mut durable, 10);
            let mut rng = SplitMix64(0xC0FFEE);
            let mut touched = BTreeSet::new();
            for round in 0..5u64 {
                let victims: Vec<u64> = (1..=600u64).filter(|id| (id + round) % 3 == 0).collect();
                for id in &victims {
                    b.index.remove(*id, round);
                    b.data.remove(id);
                    touched.insert(*id);
                }
                for id in &victims {
                    let v = rng.next_vector(16);
                    b.index.insert_f32(*id, v.clone(), round).expect("re-insert");
                    b.data.insert(*id, v);
                }
            }
            let (avg, min, bad) = measure(&b, &b.index);
            push("churn".into(), avg, min, 0.93, 0.60, bad);
            let ws = flush_record(rt, &b.index, 3000).expect("flush");
            for cut in [1u64, 3, 5] {
                match crash_reindex(rt, &b, &durable, &ws, &touched, cut, 3000) {
                    Ok((avg, min, bad, what)) => push(format!("churn+interrupted-flush({what})"), avg, min, 0.93 - CRASH_MARGIN_AVG, 0.60 - CRASH_MARGIN_MIN, bad),
                    Err(e) => push(format!("churn+interrupted-flush(sel {cut})"), 0.0, 0.0, 0.93 - CRASH_MARGIN_AVG, 0.60 - CRASH_MARGIN_MIN, vec![e]),
                }
            }
        }
        _ => {
            // round trip
            let b = build(&default_cfg('e', 16), 600, 30, seed);
            let (before, _, _) = measure(&b, &b.index);
            let mut durable = Durable::default();
            full_flush(rt, &b.index, &mut durable, 5000);
            match load(rt, &durable) {
                Ok(ix) => {
                    let (avg, min, mut bad) = measure(&b, &ix);
                    if ix.len() != b.index.len() {
                        bad.push("len changed by the round trip".into());
                    }
                    if (before - avg).abs() > 0.02 {
                        bad.push(format!("reload changed retrieval quality: {before:.4} -> {avg:.4}"));
                    }
                    push("round-trip".into(), avg, min, 0.95, 0.0, bad);
                }
                Err(e) => push("round-trip".into(), 0.0, 0.0, 0.95, 0.0, vec![e]),
            }
        }
    }
}

pub const WORKLOADS: [(&str, u64); 6] = [("euclidean", 42), ("cosine", 7), ("deletions", 99), ("heavy-deletions", 4242), ("churn", 777), ("round-trip", 1234)];

pub fn one(rt: &Runtime, name: &str, seed: u64, rep: &mut Report) {
    let mut rows = vec![];
    run_workload(rt, name, seed, &mut rows);
    absorb(rows, rep);
}

fn absorb(rows: Vec<Row>, rep: &mut Report) {
    for r in &rows {
        rep.hit("recall:measurements");
        if !r.ok() {
            let base = r.workload.split(['(', ':']).next().unwrap_or(&r.workload).to_string();
            let family = base.split('+').next().unwrap().to_string();
            let documented = WORKLOADS.iter().any(|(n, s)| *n == family && *s == r.seed);
            // which part failed: a soundness violation, the average floor, or only the per-query minimum
            let part = if !r.bad.is_empty() { "soundness" } else if r.avg < r.floor_avg { "avg" } else { "min" };
            // The statement speaks of recall on the DOCUMENTED deterministic workloads (the seeds of tests/recall.rs).
            // A recall number of an extra seed is outside the statement: measured only, never an oracle failure.
            // (A soundness violation — dead id, duplicate, failed search — is in the statement for every input.)
            if !documented && part != "soundness" {
                rep.hit("recall:extra-seed-below-documented-floor");
                let l = rep.measured.entry("recall_extra_seeds_below_documented_floor (measured, outside the statement)".into()).or_insert_with(|| json!([]));
                if let Some(a) = l.as_array_mut() {
                    a.push(json!({"workload": r.workload, "seed": r.seed, "part": part, "avg": (r.avg * 1e4).round() / 1e4, "min": r.min,
                                  "floor_avg": (r.floor_avg * 1e4).round() / 1e4, "floor_min": r.floor_min}));
                }
                continue;
            }
            rep.oracle_failure(
                &format!("recall:{base}:{part}:{}", if documented { "documented-seed" } else { "extra-seed" }),
                "recall@10 (or soundness) on a documented workload is below its floor (recall is a statistic of a randomised graph: a replay re-measures, it does not reproduce bit for bit)",
                &[format!("recall {family} {}", r.seed)],
                &format!("avg >= {:.4}, min >= {:.2}, no soundness violation", r.floor_avg, r.floor_min),
                &format!("{}: avg {:.4} min {:.2} {:?}", r.workload, r.avg, r.min, r.bad.iter().take(3).collect::<Vec<_>>()),
            );
        }
    }
    let list = rep.measured.entry("recall_at_10 (measured, not proved)".into()).or_insert_with(|| json!([]));
    if let Some(a) = list.as_array_mut() {
        a.extend(rows.iter().map(|r| r.json()));
    }
}

pub fn suite(rt: &Runtime, args: &Args, rep: &mut Report) {
    // quick: the documented seeds only; thorough: 12 more seeds per workload
    let extra = args.budget(0, 12);
    let mut rows = vec![];
    for (name, seed) in WORKLOADS {
        run_workload(rt, name, seed, &mut rows);
        for j in 0..extra {
            let s = Rng::for_case(args.seed ^ 0xC12, seed + j).next_u64() >> 16;
            run_workload(rt, name, s, &mut rows);
        }
    }
    // summary per workload family
    let mut fam: BTreeMap<String, (f64, f64, u64)> = BTreeMap::new();
    for r in &rows {
        let f = r.workload.split('(').next().unwrap().to_string();
        let e = fam.entry(f).or_insert((1.0, 1.0, 0));
        e.0 = e.0.min(r.avg);
        e.1 = e.1.min(r.min);
        e.2 += 1;
    }
    rep.measured.insert(
        "recall_summary (lowest avg / lowest min / runs per workload)".into(),
        json!(fam.iter().map(|(k, v)| json!({"workload": k, "lowest_avg": (v.0 * 1e4).round() / 1e4, "lowest_min": v.1, "runs": v.2})).collect::<Vec<_>>()),
    );
    rep.measured.insert("recall_crash_margin".into(), json!({"avg": CRASH_MARGIN_AVG, "min": CRASH_MARGIN_MIN}));
    absorb(rows, rep);
}
