//! Mutations landing INSIDE a flush's write window.
//!
//! `flush_with` captures its snapshot under the structural lock, releases it, and then awaits the
//! write callbacks ("mutations can therefore continue while I/O is in flight").  Here the callbacks
//! themselves mutate the index — remove, re-insert the same id with another vector, insert a new id,
//! remove another id — before or after the write they stand for; then the flush commits.
//!
//! ```text
//! flushw <hooks>          windowed `flush_with` (no purge); everything it wrote becomes durable
//! crashw <cut> <hooks>    the same, but only the first `cut mod (writes+1)` writes become durable, then load_all
//! flushl <hooks>          the same window through `store_dirty_nodes` → `store_ids` → `store_metadata_with` (oracle only)
//! hooks  = <pos>=<mut>/<mut>…,<pos>=…      pos = n | n+ | I | I+ | M | M+
//!          n = the n-th node callback (0-based; beyond the last one it means I), I / M = the ids / metadata callback;
//!          without `+` the mutations run before the write of that callback is recorded, with `+` after it
//! mut    = r<id> | i<id>:<bf16 hex>
//! ```
//! What must hold (oracle, independent of the model): after the windowed flush and one further
//! quiescent flush, `load_all` of the durable objects gives exactly the live documents with their
//! CURRENT vectors and the same node lists (`window-stale-blob`), and the usual soundness of searches.
//! Correspondence: the model's `capture` / per-step `wwrite` / `insert` / `remove` / `wfinish`
//! (= remaining writes + `commit`) must reproduce every intermediate state, the dirty set after the
//! commit, and the durable objects.
use crate::util::*;
use crate::world::*;
use anda_db_hnsw::{BoxError, HnswIndex, half::bf16};
use std::cell::RefCell;
use std::collections::{BTreeMap, BTreeSet};
use std::rc::Rc;

#[derive(Clone, Debug)]
pub enum Mutn {
    Rm(u64),
    Ins(u64, Vec<bf16>),
}

#[derive(Clone, Debug, Default)]
pub struct Hooks {
    /// (position, after?) → mutations; position: Ok(n) node callback, Err(false) ids, Err(true) metadata
    pub at: Vec<(Result<usize, bool>, bool, Vec<Mutn>)>,
}

pub fn parse_hooks(s: &str) -> Option<Hooks> {
    let mut h = Hooks::default();
    if s == "-" {
        return Some(h);
    }
    for part in s.split(',') {
        let (pos, muts) = part.split_once('=')?;
        let (pos, after) = match pos.strip_suffix('+') {
            Some(p) => (p, true),
            None => (pos, false),
        };
        let pos = match pos {
            "I" => Err(false),
            "M" => Err(true),
            n => Ok(n.parse::<usize>().ok()?),
        };
        let mut ms = vec![];
        for m in muts.split('/') {
            if let Some(id) = m.strip_prefix('r') {
                ms.push(Mutn::Rm(id.parse().ok()?));
            } else if let Some(rest) = m.strip_prefix('i') {
                let (id, hex) = rest.split_once(':')?;
                ms.push(Mutn::Ins(id.parse().ok()?, parse_bf16(hex)?));
            } else {
                return None;
            }
        }
        h.at.push((pos, after, ms));
    }
    Some(h)
}

/// what happened, in order
pub enum Ev {
    Write(W),
    Mut {
        id: u64,
        vec: Option<Vec<bf16>>,
        ok: bool,
        /// driver lines reproducing the mutation on the model (edits + insert / remove)
        cmds: Vec<String>,
        /// the real state right after the mutation, in the driver's syntax
        expect: String,
    },
}

struct Shared {
    evs: Vec<Ev>,
    node_calls: usize,
    hooks: Hooks,
    universe: BTreeSet<u64>,
    fallback: Option<Vec<u8>>,
    dim: usize,
    reconnect: bool,
    now: u64,
    fired: BTreeSet<usize>,
}

fn run_muts(index: &HnswIndex, sh: &mut Shared, pos: Result<usize, bool>, after: bool, n_nodes_known: Option<usize>) {
    let mut todo: Vec<(usize, Vec<Mutn>)> = vec![];
    for (k, (p, a, ms)) in sh.hooks.at.iter().enumerate() {
        if sh.fired.contains(&k) || *a != after {
            continue;
        }
        let hit = match (p, pos) {
            (Ok(n), Ok(m)) => *n == m,
            // a node position beyond the last node callback fires at the ids callback
            (Ok(n), Err(false)) => n_nodes_known.is_some_and(|c| *n >= c),
            (Err(x), Err(y)) => *x == y,
            _ => false,
        };
        if hit {
            todo.push((k, ms.clone()));
        }
    }
    for (k, ms) in todo {
        sh.fired.insert(k);
        for m in ms {
            sh.now += 1;
            let (id, vec) = match &m {
                Mutn::Rm(id) => (*id, None),
                Mutn::Ins(id, v) => (*id, Some(v.clone())),
            };
            sh.universe.insert(id);
            let g0 = extract_graph(index, &sh.universe);
            let d0 = probe_dirty_nb(index);
            let ok = match &vec {
                None => index.remove(id, sh.now),
                Some(v) => index.insert(id, v.clone(), sh.now).is_ok(),
            };
            let g1 = extract_graph(index, &sh.universe);
            let d1 = probe_dirty_nb(index);
            if std::env::var("C12_DEBUG").is_ok() {
                eprintln!("DEBUG mut id={id} ins={} ok={ok} d0={d0:?} d1={d1:?} evs={}", vec.is_some(), sh.evs.len());
            }
            let e1 = entry_of(index, &sh.fallback);
            let pick = e1.unwrap_or((0, 0));
            let mut cmds = vec![];
            if sh.reconnect {
                // the re-linker is not modelled: bring the model's node lists up to date before the mutation
                for (j, n) in &g0 {
                    cmds.push(format!("node {j} {} {}", n.layer, lists_str(&n.nbrs)));
                }
            }
            let with_lists;
            match &vec {
                None => {
                    with_lists = !sh.reconnect;
                    cmds.push(format!("remove {id} {} {} {}", pick.0, pick.1, sh.reconnect as u8));
                }
                Some(v) => {
                    // after a re-linking remove the model's lists are stale: compare without them
                    with_lists = !sh.reconnect;
                    for (j, n) in &g1 {
                        if *j != id && (g0.get(j) != Some(n) || (d1.contains(j) && !d0.contains(j))) {
                            cmds.push(format!("edit {j} {} {}", n.layer, lists_str(&n.nbrs)));
                        }
                    }
                    let valid = v.len() == sh.dim && v.iter().all(|x| x.is_finite());
                    let (nl, nlists) = match (ok, g1.get(&id)) {
                        (true, Some(n)) => (n.layer, lists_str(&n.nbrs)),
                        _ => (0, "-".to_string()),
                    };
                    cmds.push(format!("insert {id} {nl} {nlists} {} {} {} {}", pick.0, pick.1, valid as u8, with_lists as u8));
                }
            }
            let expect = format!("{ok} {}", state_string(index, &g1, e1, &d1, with_lists));
            sh.evs.push(Ev::Mut { id, vec, ok, cmds, expect });
        }
    }
}

fn probe_dirty_nb(index: &HnswIndex) -> Vec<u64> {
    // `probe_dirty` ignores its runtime argument (it polls directly): safe inside a callback
    let log: Rc<RefCell<Vec<u64>>> = Rc::new(RefCell::new(vec![]));
    let l1 = log.clone();
    let _ = poll_now(index.flush_with(
        0,
        move |id, _| {
            l1.borrow_mut().push(id);
            std::future::ready(Ok::<bool, BoxError>(true))
        },
        |_| std::future::ready(Err::<(), BoxError>("probe".into())),
        |_| std::future::ready(Ok::<(), BoxError>(())),
    ));
    let mut v = log.take();
    v.sort();
    v
}

pub struct WindowRun {
    pub evs: Vec<Ev>,
    pub flushed: bool,
}

/// `flush_with` whose callbacks mutate the index (no purge afterwards)
pub fn flush_windowed(w: &mut World, hooks: Hooks) -> Result<WindowRun, String> {
    w.now += 1;
    let sh = Rc::new(RefCell::new(Shared {
        evs: vec![],
        node_calls: 0,
        hooks,
        universe: w.universe.clone(),
        fallback: w.entry_fallback.clone(),
        dim: w.cfg.dim,
        reconnect: w.cfg.reconnect,
        now: w.now + 1000,
        fired: BTreeSet::new(),
    }));
    let index = &w.index;
    let (s1, s2, s3) = (sh.clone(), sh.clone(), sh.clone());
    let r = poll_now(index.flush_with(
        w.now,
        move |id, data| {
            let mut sh = s1.borrow_mut();
            let n = sh.node_calls;
            run_muts(index, &mut sh, Ok(n), false, None);
            sh.evs.push(Ev::Write(W::Node(id, data)));
            run_muts(index, &mut sh, Ok(n), true, None);
            sh.node_calls += 1;
            std::future::ready(Ok::<bool, BoxError>(true))
        },
        move |data| {
            let mut sh = s2.borrow_mut();
            let c = sh.node_calls;
            run_muts(index, &mut sh, Err(false), false, Some(c));
            sh.evs.push(Ev::Write(W::Ids(data)));
            run_muts(index, &mut sh, Err(false), true, None);
            std::future::ready(Ok::<(), BoxError>(()))
        },
        move |data| {
            let mut sh = s3.borrow_mut();
            run_muts(index, &mut sh, Err(true), false, None);
            sh.evs.push(Ev::Write(W::Meta(data)));
            run_muts(index, &mut sh, Err(true), true, None);
            std::future::ready(Ok::<(), BoxError>(()))
        },
    ));
    let flushed = r.map_err(|e| format!("flush_with: {e:?}"))?;
    let sh = Rc::try_unwrap(sh).map_err(|_| "shared state still borrowed".to_string())?.into_inner();
    w.now = sh.now;
    w.universe = sh.universe;
    Ok(WindowRun { evs: sh.evs, flushed })
}

/// the same window through the older persistence API: `store_dirty_nodes` (per-node callbacks, each mark
/// cleared only if the global version did not move during that node's write) → `store_ids` →
/// `store_metadata_with`.  Not modelled; judged by the oracle only.
pub fn flush_legacy(w: &mut World, hooks: Hooks) -> Result<WindowRun, String> {
    w.now += 1;
    let sh = Rc::new(RefCell::new(Shared {
        evs: vec![],
        node_calls: 0,
        hooks,
        universe: w.universe.clone(),
        fallback: w.entry_fallback.clone(),
        dim: w.cfg.dim,
        reconnect: w.cfg.reconnect,
        now: w.now + 1000,
        fired: BTreeSet::new(),
    }));
    let index = &w.index;
    let s1 = sh.clone();
    poll_now(index.store_dirty_nodes(async move |id: u64, data: &[u8]| {
        let mut sh = s1.borrow_mut();
        let n = sh.node_calls;
        run_muts(index, &mut sh, Ok(n), false, None);
        sh.evs.push(Ev::Write(W::Node(id, data.to_vec())));
        run_muts(index, &mut sh, Ok(n), true, None);
        sh.node_calls += 1;
        Ok::<bool, BoxError>(true)
    }))
    .map_err(|e| format!("store_dirty_nodes: {e:?}"))?;
    {
        let mut shm = sh.borrow_mut();
        let c = shm.node_calls;
        run_muts(index, &mut shm, Err(false), false, Some(c));
        let mut buf = vec![];
        index.store_ids(&mut buf).map_err(|e| format!("store_ids: {e:?}"))?;
        shm.evs.push(Ev::Write(W::Ids(buf)));
        run_muts(index, &mut shm, Err(false), true, None);
    }
    let s3 = sh.clone();
    let now = w.now;
    poll_now(index.store_metadata_with(now, async move |buf: &[u8]| {
        let mut sh = s3.borrow_mut();
        run_muts(index, &mut sh, Err(true), false, None);
        sh.evs.push(Ev::Write(W::Meta(buf.to_vec())));
        run_muts(index, &mut sh, Err(true), true, None);
        Ok::<(), BoxError>(())
    }))
    .map_err(|e| format!("store_metadata_with: {e:?}"))?;
    let sh = Rc::try_unwrap(sh).map_err(|_| "shared state still borrowed".to_string())?.into_inner();
    w.now = sh.now;
    w.universe = sh.universe;
    Ok(WindowRun { evs: sh.evs, flushed: true })
}

/// after a windowed flush and a further quiescent flush: `load_all` of the durable objects must give
/// the live documents with their CURRENT vectors and exactly the in-memory node lists
pub fn stale_blobs(w: &mut World, rt: &tokio::runtime::Runtime) -> Vec<String> {
    let mut bad = vec![];
    let d = w.durable.clone();
    match load(rt, &d) {
        Err(e) => bad.push(format!("load_all failed: {e}")),
        Ok(ix) => {
            let cand: BTreeSet<u64> = w.universe.iter().copied().chain(w.live.keys().copied()).collect();
            let g_mem = extract_graph(&w.index, &cand);
            let g_dur = extract_graph(&ix, &cand);
            let live: BTreeMap<u64, Vec<f32>> = w.live.clone();
            let ids: BTreeSet<u64> = g_dur.keys().copied().collect();
            let want: BTreeSet<u64> = live.keys().copied().collect();
            if ids != want {
                bad.push(format!("durable ids {ids:?} != live documents {want:?}"));
            }
            for (id, v) in &live {
                match g_dur.get(id) {
                    None => {}
                    Some(n) => {
                        let dv: Vec<f32> = n.vec.iter().map(|x| x.to_f32()).collect();
                        if dv != *v {
                            bad.push(format!("id {id}: the durable blob holds a vector that is not the current one"));
                        }
                        if let Some(m) = g_mem.get(id)
                            && (m.layer != n.layer || m.nbrs != n.nbrs)
                        {
                            bad.push(format!("id {id}: the durable blob differs from the in-memory node (layer/lists)"));
                        }
                    }
                }
            }
        }
    }
    bad
}
