//! Harness for property C18 (stub: not built yet).
fn main() {
    let a = vh_common::Args::parse();
    let r = vh_common::Report::new("C18", &a, "stub");
    r.write(&a);
}
