//! C18 — reading AS OF a past point returns what was current then.
//!
//! Same statement generator and real-code runner as C17 (shared modules). After every statement
//! the coordinate that is now the present is recorded with a battery of queries (element, tuple,
//! path, join, filter, aggregate, belief, order/limit patterns) answered live; after **every**
//! later statement each recorded coordinate is replayed `AS OF SEQ s` (and `AS OF TX`, `AS OF TIME`
//! for committed coordinates) and compared with its recording.
//!
//! * correspondence: the Lean model (`drv_c18`), fed the same statements, predicts for every
//!   recorded coordinate the visible `(id, version, state)` set (its `elementAt` over its own
//!   version log), compared with what the real `AS OF` reads return;
//! * oracle (independent of the model): replay = recording; the epistemic payload of an Assertion /
//!   Evidence record is identical in all its version rows.
#[path = "../../c17/src/drive.rs"]
mod drive;
#[path = "../../c17/src/ops.rs"]
mod ops;
#[path = "../../c17/src/oracle.rs"]
mod oracle;
#[path = "../../c17/src/runner.rs"]
mod runner;
#[path = "../../c17/src/world.rs"]
mod world;

fn main() {
    drive::main_with(drive::Setup {
        property: "C18",
        rule: "a case is non-trivial when at least one statement committed with a non-empty change list (so that a later AS OF read has something to get wrong); distinct by the sequence of receipts",
        cfg: runner::Cfg { history: true, atomicity: false },
        cases: (320, 7000),
        len: (7, 12),
    });
}
