//! Harness for property C16 (stub: not built yet).
fn main() {
    let a = vh_common::Args::parse();
    let r = vh_common::Report::new("C16", &a, "stub");
    r.write(&a);
}
