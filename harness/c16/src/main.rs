//! vh-c16 — correspondence and oracle harness of property C16
//! ("no accepted KIP mutation can touch engine-owned or immutable state").
//!
//! Ops (one per line; a case is one op):
//!   json <Command as serde_json>      -> serde decode, `validate_command`
//!   text <KIP text on one line>       -> `parse_kip`
//!   assert <{"prefix":n,"spec":{…}}>  -> `MUTATE { n × CREATE CONCEPT … ASSERT … }` through `parse_kip`
//!   refuse <key> <KIP text>           -> `parse_kip` must refuse (a shape the tree cannot even express,
//!                                        e.g. structure created from a bare id); accepted = oracle failure <key>
//!
//! For every op the real `Command` (when there is one) is projected through its serde_json encoding
//! to the Lean driver's line format and the accept/reject verdict (and, when recognised, the reason)
//! is compared with the model. Every accepted command is walked by the independent oracle.

mod cases;
mod nexus;
mod oracle;
mod project;
mod unparse;

use anda_kip::{Command, KipError, KipErrorCode, parse_kip, validate_command};
use cases::*;
use serde_json::{Value, json};
use std::panic::{AssertUnwindSafe, catch_unwind};
use unparse::{PLAIN, Spelling, U};
use vh_common::{Args, ModelProc, Report, Rng};

struct Env {
    model: Option<ModelProc>,
    report: Report,
    filter_sample: Value,
    seen_failure_keys: std::collections::BTreeSet<String>,
    rt: Option<tokio::runtime::Runtime>,
    world: Option<nexus::World>,
}

fn code_name(e: &KipError) -> String {
    match e.code {
        KipErrorCode::InvalidSyntax => "syntax".into(),
        KipErrorCode::DuplicateLocalHandle => "duplicate_handle".into(),
        KipErrorCode::ReferenceError => "reference".into(),
        _ => e.name().to_string(),
    }
}

/// The reason of a tree-validator error, when its message is one this harness recognises.
/// Unrecognised (e.g. reworded) messages yield `None` and only the code is compared.
fn reason_tag(e: &KipError) -> Option<&'static str> {
    let m = e.message.as_str();
    let table: &[(&str, &str)] = &[
        ("must carry at least one mutation", "empty_plan"),
        ("is engine-maintained state", "protected"),
        ("is assigned twice in one block", "dup_key"),
        ("is listed twice in one block", "dup_key"),
        ("arguments, found", "arity"),
        ("BELIEF is a read-only Projection", "belief"),
        ("alternation and hop quantifiers are KQL traversal forms and are not selection", "pred_path"),
        ("a Proposition subject must be an Element reference", "literal_subject"),
        ("UPSERT CONCEPT must MATCH a stable identity", "upsert_identity"),
        ("UNSET STRUCTURAL removes named references", "empty_unset_structural"),
        ("ENSURE PROPOSITION needs an exact quoted predicate", "pred_variable"),
        ("UPDATE requires at least one SET or UNSET action", "no_actions"),
        ("a mutable field:", "immutable_field"),
        ("a mutable target:", "structural_target"),
        ("a target with structural fields", "structural_target"),
        ("an update expression that reads only the target", "foreign_path"),
        ("PURGE must be confirmed", "purge_confirm"),
        ("is claimed by two clauses", "dup_handle"),
        ("is not bound by this command's mutation outputs", "unbound"),
        ("EXPORT CAPSULE needs at least one selection pattern", "empty_export"),
    ];
    table.iter().find(|(needle, _)| m.contains(needle)).map(|(_, tag)| *tag)
}

/// Why the text grammar refused (context strings of the parser), for the histogram only.
fn text_reason(e: &KipError) -> &'static str {
    let m = e.message.as_str();
    let table: &[(&str, &str)] = &[
        ("a writable field:", "protected"),
        ("not already assigned in this block", "dup_key"),
        ("not already listed in this block", "dup_key"),
        ("a mutable pattern: BELIEF", "belief"),
        ("a mutable field:", "immutable_field"),
        ("a mutable target:", "structural_target"),
        ("a target with structural fields", "structural_target"),
        ("reads only the target element", "foreign_path"),
        ("a required MATCH on a stable identity", "upsert_identity"),
        ("the exact confirmation literal", "purge_confirm"),
        ("declared arity", "arity"),
        ("never a Literal", "literal_subject"),
        ("at least one (field, target) entry", "empty_unset_structural"),
        ("at least one SET or UNSET action", "no_actions"),
        ("no structure can be created from an id", "tuple_bare_id"),
        ("?variables are KQL read-pattern syntax", "tuple_pred_variable"),
        ("one exact predicate: alternation and hop quantifiers", "tuple_pred_path"),
        ("by: <semantic actor>", "assert_missing_by"),
        ("mode: one of", "assert_missing_mode"),
        ("an ASSERT member:", "assert_unknown_member"),
        ("for the ASSERT key member", "assert_bad_key"),
        ("a clause this mutation admits", "clause_not_admitted"),
        ("at least one selection pattern", "empty_export"),
    ];
    if let Some(t) = reason_tag(e) {
        return t;
    }
    table.iter().find(|(needle, _)| m.contains(needle)).map(|(_, tag)| *tag).unwrap_or("grammar")
}

fn fix_filters(v: &mut Value, sample: &Value) {
    match v {
        Value::Object(m) => {
            if m.len() == 1 && m.get("Filter").is_some_and(|f| f.is_null()) {
                *v = sample.clone();
                return;
            }
            m.values_mut().for_each(|c| fix_filters(c, sample));
        }
        Value::Array(xs) => xs.iter_mut().for_each(|c| fix_filters(c, sample)),
        _ => {}
    }
}

enum Real {
    Accepted(Value),
    Rejected(KipError, Option<Value>),
    Undecodable,
    Panicked(String),
}

thread_local! {
    /// entry routes that answered differently for one input (drained by `Env::eval`)
    static ROUTE_MISMATCH: std::cell::RefCell<Vec<String>> = const { std::cell::RefCell::new(Vec::new()) };
}

fn verdict_of<T>(r: &Result<T, KipError>) -> String {
    match r {
        Ok(_) => "ok".into(),
        Err(e) => format!("err:{}", e.name()),
    }
}

fn run_real(op: &str) -> Real {
    let (kind, rest) = op.split_once(' ').unwrap_or((op, ""));
    let r = catch_unwind(AssertUnwindSafe(|| match kind {
        "json" => match serde_json::from_str::<Command>(rest) {
            Err(_) => Real::Undecodable,
            Ok(cmd) => {
                let tree = serde_json::to_value(&cmd).expect("Command serialises");
                let direct = validate_command(&cmd);
                // the request route of a pre-parsed tree: Operation { ast }.parse()
                let via_operation = anda_kip::Operation { ast: Some(cmd.clone()), ..Default::default() }.parse();
                if verdict_of(&direct) != verdict_of(&via_operation) || via_operation.as_ref().is_ok_and(|c| *c != cmd) {
                    ROUTE_MISMATCH.with(|m| m.borrow_mut().push(format!("validate_command: {}, Operation{{ast}}.parse(): {}", verdict_of(&direct), verdict_of(&via_operation))));
                }
                match direct {
                    Ok(()) => Real::Accepted(tree),
                    Err(e) => Real::Rejected(e, Some(tree)),
                }
            }
        },
        "text" => {
            let direct = parse_kip(rest);
            let via_operation = anda_kip::Operation::new(rest).parse();
            let mut same = verdict_of(&direct) == verdict_of(&via_operation) && (direct.is_err() || direct.as_ref().ok() == via_operation.as_ref().ok());
            let mut detail = format!("parse_kip: {}, Operation{{command}}.parse(): {}", verdict_of(&direct), verdict_of(&via_operation));
            if let Ok(Command::Kml(st)) = &direct {
                let via_kml = anda_kip::parse_kml(rest);
                if via_kml.as_ref().ok() != Some(st) {
                    same = false;
                    detail.push_str(&format!(", parse_kml: {}", verdict_of(&via_kml)));
                }
            }
            if !same && !rest.trim().is_empty() {
                ROUTE_MISMATCH.with(|m| m.borrow_mut().push(detail));
            }
            match direct {
                Ok(cmd) => Real::Accepted(serde_json::to_value(&cmd).expect("Command serialises")),
                Err(e) => Real::Rejected(e, None),
            }
        }
        _ => Real::Undecodable,
    }));
    match r {
        Ok(x) => x,
        Err(p) => Real::Panicked(p.downcast_ref::<String>().cloned().or_else(|| p.downcast_ref::<&str>().map(|s| s.to_string())).unwrap_or_else(|| "panic".into())),
    }
}

fn nontrivial_tree(tree: &Value) -> bool {
    // carries something for the guards to look at
    let s = tree.to_string();
    ["\"set_fields\":[", "\"set_attributes\":[", "\"values\":[", "\"where_clauses\":[", "\"Handle\"", "\"SetFields\"", "\"SetAttributes\"", "\"SetStructural\"",
     "\"UnsetAttributes\"", "\"UnsetFacet\"", "\"UnsetStructural\"", "\"SetFacet\"", "\"set_structural\":[", "\"unset_attributes\":[", "\"EnsureProposition\"", "\"Purge\""]
        .iter()
        .any(|n| s.contains(n))
}

impl Env {
    fn ask(&mut self, line: &str) -> Option<String> {
        let answer = self.model.as_mut().map(|m| m.ask(line))?;
        // which branch of the model answered (coverage of the model under the correspondence run)
        let request = line.split(' ').next().unwrap_or("");
        let head = if answer.starts_with("ok:") { answer.split(':').take(2).collect::<Vec<_>>().join(":") } else { answer.split(' ').next().unwrap_or("").to_string() };
        self.report.hit(&format!("model:{request}:{head}"));
        Some(answer)
    }

    /// Compare the implementation's verdict on `tree` with the model's.
    fn compare(&mut self, op: &str, tree: &Value, implementation: Result<(), &KipError>) {
        let line = match project::command_line(tree) {
            Ok(Some(l)) => l,
            Ok(None) => return,
            Err(e) => {
                self.report.disagreement("projection drift: the Command encoding no longer matches the model's AST", &[op.to_string()], "-", &e);
                return;
            }
        };
        let Some(model) = self.ask(&line) else { return };
        self.report.model_compared += 1;
        let (imp_coarse, imp_fine) = match implementation {
            Ok(()) => ("ok".to_string(), Some("ok".to_string())),
            Err(e) => (format!("err:{}", code_name(e)), reason_tag(e).map(|t| format!("err:{}:{t}", code_name(e)))),
        };
        let model_coarse = model.splitn(3, ':').take(2).collect::<Vec<_>>().join(":");
        let agree = match &imp_fine {
            Some(f) => *f == model,
            None => {
                self.report.hit("reason_unrecognised");
                imp_coarse == model_coarse
            }
        };
        if !agree {
            let shown = imp_fine.unwrap_or(imp_coarse);
            let detail = match implementation {
                Err(e) => format!("{shown} ({})", e.message.lines().next().unwrap_or("")),
                Ok(()) => shown,
            };
            self.report.disagreement("validate verdict", &[op.to_string(), format!("# model line: {line}")], &model, &detail);
        }
    }

    fn oracle(&mut self, op: &str, tree: &Value) {
        let n = oracle::structural_engine_named(tree);
        if n > 0 {
            self.report.hit_n("observed:accepted_structural_field_named_like_engine_owned", n);
        }
        let n = oracle::near_miss_keys(tree);
        if n > 0 {
            self.report.hit_n("observed:accepted_key_near_miss_of_engine_owned_name", n);
        }
        let violations = oracle::check(tree);
        for v in violations {
            self.report.hit(&format!("oracle:{}", v.key));
            if !self.seen_failure_keys.insert(v.key.clone()) {
                continue;
            }
            let ops = self.shrink_op(op, &v.key);
            self.report.oracle_failure(&v.key, &v.what, &ops, "an accepted command satisfies the C16 safety walk", &format!("accepted; violation: {}", v.what));
        }
    }

    /// Minimise a failing op: drop clauses of the plan while the same oracle key still fires.
    fn shrink_op(&self, op: &str, key: &str) -> Vec<String> {
        let (kind, rest) = op.split_once(' ').unwrap_or((op, ""));
        if kind != "json" {
            return vec![op.to_string()];
        }
        let Ok(cmd) = serde_json::from_str::<Value>(rest) else { return vec![op.to_string()] };
        let Some(clauses) = cmd.pointer("/Kml/clauses").and_then(|c| c.as_array()).cloned() else { return vec![op.to_string()] };
        let rebuild = |cs: &[Value]| format!("json {}", json!({"Kml": {"explicit_transaction": true, "clauses": cs}}));
        let fails = |cs: &[Value]| -> bool {
            match run_real(&rebuild(cs)) {
                Real::Accepted(tree) => oracle::check(&tree).iter().any(|v| v.key == key),
                _ => false,
            }
        };
        let small = vh_common::shrink(clauses, fails, 200);
        vec![rebuild(&small)]
    }

    fn eval(&mut self, op: &str) {
        if op.starts_with('#') {
            return; // annotation lines carried inside a replay's `ops`
        }
        let (kind, rest) = op.split_once(' ').unwrap_or((op, ""));
        if kind == "assert" {
            return self.eval_assert(op, rest);
        }
        if kind == "ensure" {
            return self.eval_ensure(op, rest);
        }
        if kind == "exec" {
            return self.eval_exec(op, rest);
        }
        if kind == "refuse" {
            let (key, text) = rest.split_once(' ').unwrap_or((rest, ""));
            self.report.hit("op:refuse");
            self.report.case(op, false);
            match run_real(&format!("text {text}")) {
                Real::Accepted(tree) => {
                    self.report.oracle_failure(key, "a command the property says must be refused was accepted", &[op.to_string()], "refused", &format!("accepted as {}", project::short(&tree)))
                }
                Real::Panicked(msg) => self.report.oracle_failure("panic", "the parser panicked", &[op.to_string()], "Ok or Err", &msg),
                Real::Rejected(e, _) => self.report.hit(&format!("refused:{key}:{}", text_reason(&e))),
                Real::Undecodable => {}
            }
            return;
        }
        self.report.hit(&format!("op:{kind}"));
        let real = run_real(op);
        for m in ROUTE_MISMATCH.with(|m| std::mem::take(&mut *m.borrow_mut())) {
            self.report.hit("oracle:entry-routes-differ");
            if self.seen_failure_keys.insert("entry-routes-differ".into()) {
                self.report.oracle_failure("entry-routes-differ", "two entry routes of the parser crate answer differently for the same input", &[op.to_string()], "the same verdict and tree from every route", &m);
            }
        }
        match real {
            Real::Undecodable => {
                self.report.hit("err:decode");
                self.report.case(op, false);
            }
            Real::Panicked(msg) => {
                self.report.case(op, false);
                self.report.oracle_failure("panic", "the parser / validator panicked", &[op.to_string()], "Ok or Err", &msg);
            }
            Real::Accepted(tree) => {
                self.report.hit("verdict:accepted");
                self.report.case(&tree.to_string(), nontrivial_tree(&tree));
                self.compare(op, &tree, Ok(()));
                self.oracle(op, &tree);
                if kind == "text" {
                    // what the text parser produced must also pass the tree validator again, and survive serde
                    match serde_json::from_value::<Command>(tree.clone()) {
                        Ok(cmd) => {
                            if validate_command(&cmd).is_err() {
                                self.report.oracle_failure("text-tree-revalidation", "a tree produced by parse_kip is refused by validate_command", &[op.to_string()], "ok", "err");
                            }
                        }
                        Err(e) => self.report.oracle_failure("text-tree-serde", "a tree produced by parse_kip does not survive serde_json", &[op.to_string()], "round trip", &e.to_string()),
                    }
                }
                if self.report.samples.len() < self.report.max_samples && nontrivial_tree(&tree) {
                    self.report.sample(json!({"op": op, "verdict": "accepted"}));
                }
            }
            Real::Rejected(e, tree) => {
                self.report.case(op, false);
                match tree {
                    Some(tree) => {
                        self.report.hit(&format!("verdict:rejected:{}", reason_tag(&e).unwrap_or("unrecognised")));
                        self.compare(op, &tree, Err(&e));
                    }
                    None => self.report.hit(&format!("text_rejected:{}", text_reason(&e))),
                }
            }
        }
    }

    /// One UPDATE on an element whose kind the parser cannot know (`UPDATE :id …` / a literal id), through
    /// `parse_kip` + `Executor::execute` on a real in-memory Nexus, against the model's `applyAction`.
    fn eval_exec(&mut self, op: &str, rest: &str) {
        self.report.hit("op:exec");
        let Ok(case) = serde_json::from_str::<Value>(rest) else {
            self.report.hit("err:decode");
            self.report.case(op, false);
            return;
        };
        let kind = case["kind"].as_str().unwrap_or("Concept").to_string();
        let variant = case["action"].as_str().unwrap_or("SetFields").to_string();
        let fields: Vec<(String, Value)> = case["fields"].as_array().map(|xs| xs.iter().filter_map(|kv| Some((kv.get(0)?.as_str()?.to_string(), kv.get(1)?.clone()))).collect()).unwrap_or_default();
        if self.rt.is_none() {
            self.rt = Some(tokio::runtime::Builder::new_current_thread().enable_all().build().expect("runtime"));
        }
        if self.world.is_none() {
            let w = self.rt.as_ref().unwrap().block_on(nexus::World::new("c16"));
            self.world = Some(w);
        }
        let id = self.world.as_ref().unwrap().ids.get(kind.as_str()).cloned().unwrap_or_default();
        let target = if case["literal_id"].as_bool().unwrap_or(false) { eid(&id) } else { ep("id") };
        let entries: Vec<(String, Value)> = if fields.is_empty() && variant != "SetFields" { vec![("note".to_string(), lit("x"))] } else { fields.clone() };
        let block = match variant.as_str() {
            "SetFields" => Block::Fields,
            "SetAttributes" => Block::Attributes,
            "UnsetAttributes" => Block::UnsetAttributes,
            "SetFacet" => Block::Facet,
            "UnsetFacet" => Block::UnsetFacet,
            "SetStructural" => Block::SetStructural,
            _ => Block::UnsetStructural,
        };
        let entries = match block {
            Block::Facet | Block::UnsetFacet => vec![("salience".to_string(), num(1))],
            Block::SetStructural | Block::UnsetStructural => vec![("has_step".to_string(), ep("id"))],
            _ => entries,
        };
        let cmd = plan(false, vec![update(target, vec![update_action(block, &entries, None)], None)]);
        let Some(text) = (U { sp: PLAIN }).command(&cmd) else {
            self.report.hit("exec:no_text_spelling");
            self.report.case(op, false);
            return;
        };
        let mut params = std::collections::BTreeMap::new();
        params.insert("id".to_string(), Value::String(id.clone()));
        params.insert("ps".to_string(), Value::String("bound".into()));
        params.insert("pa".to_string(), json!(["a", "b"]));
        params.insert("pn".to_string(), json!(7));
        // the bound JSON shape `set_fields` will see
        let shape = |v: &Value| -> &'static str {
            match v {
                Value::Object(m) => match (m.get("Value"), m.get("Param").and_then(|p| p.as_str())) {
                    (Some(Value::Object(k)), _) if k.contains_key("String") => "str",
                    (Some(Value::Object(k)), _) if k.contains_key("Array") => "arr",
                    (_, Some("ps")) => "str",
                    (_, Some("pa")) => "arr",
                    _ => "other",
                },
                _ => "other",
            }
        };
        let mut sorted = fields.clone();
        sorted.sort_by(|a, b| a.0.cmp(&b.0));
        let line = if variant == "SetFields" {
            format!("exec {kind} SetFields {} {}", sorted.len(), sorted.iter().map(|(k, v)| format!("{} {}", project::enc(k), shape(v))).collect::<Vec<_>>().join(" "))
        } else {
            format!("exec {kind} {variant} 0")
        };
        let model = self.ask(line.trim_end());
        let mut via_tree = false;
        let (before, outcome, after) = {
            let w = self.world.as_ref().unwrap();
            let rt = self.rt.as_ref().unwrap();
            let before = rt.block_on(w.view(&kind));
            // text route first; what the parser itself refuses (engine-owned keys) is sent as a tree
            // straight to the executor, so that the engine's own gate is the one that answers
            let mut outcome = rt.block_on(w.exec(&text, None, &params));
            if let nexus::Outcome::Parse(_) = outcome {
                via_tree = true;
                outcome = rt.block_on(w.exec(&text, Some(&cmd), &params));
            }
            let after = rt.block_on(w.view(&kind));
            (before, outcome, after)
        };
        const GATE_CODES: &[&str] = &["EpistemicRevisionRequired", "EvidenceCorrectionRequired", "InvalidLifecycleTransition", "ImmutableField", "TypeMismatch"];
        let real = match &outcome {
            nexus::Outcome::Parse(e) => format!("parse:{}", e.lines().next().unwrap_or("")),
            nexus::Outcome::Refused { code, .. } if GATE_CODES.contains(&code.as_str()) => format!("err:{code}"),
            nexus::Outcome::Refused { code, .. } => format!("downstream:{code}"),
            nexus::Outcome::Done { changed } => format!("done:{}", if *changed { "changed" } else { "no_effect" }),
        };
        if via_tree {
            self.report.hit("exec:parser_refused_text:sent_as_tree");
        }
        self.report.hit(&format!("exec:{kind}:{variant}:{}", real.split(':').take(2).collect::<Vec<_>>().join(":")));
        self.report.case(&format!("{kind} {text} {real}"), real.starts_with("done"));
        if let Some(model) = model {
            self.report.model_compared += 1;
            let agree = if model.starts_with("err:") { real == model } else { real.starts_with("done") || real.starts_with("downstream") };
            if !agree {
                self.report.disagreement("run-time kind gate (apply_action)", &[op.to_string(), format!("# text: {text}"), format!("# model line: {line}")], &model, &format!("{real} ({outcome:?})"));
            }
        }
        // independent oracle: whatever happened, nothing but the mutable planes of the element moved
        let strip = |view: &str| -> Value {
            let mut v: Value = serde_json::from_str(view).unwrap_or(Value::Null);
            if let Some(e) = v.get_mut(0).and_then(|e| e.as_object_mut()) {
                for k in ["attributes", "facets"] {
                    e.remove(k);
                }
                if kind == "Concept" {
                    for k in ["name", "canonical_id", "aliases", "structural"] {
                        e.remove(k);
                    }
                }
                if let Some(sys) = e.get_mut("_system").and_then(|s| s.as_object_mut()) {
                    for k in ["version", "updated_at", "updated_tx", "space_seq"] {
                        sys.remove(k);
                    }
                }
            }
            v
        };
        let (b, a) = (strip(&before), strip(&after));
        if b.is_null() || b != a {
            let key = if kind == "Concept" { "runtime-engine-owned-or-identity-rewritten" } else { "runtime-payload-rewritten" };
            if self.seen_failure_keys.insert(key.to_string()) {
                self.report.oracle_failure(key, "an UPDATE changed something other than the mutable planes of the element", &[op.to_string(), format!("# text: {text}")], &b.to_string(), &a.to_string());
            }
        }
        if !real.starts_with("done") && before != after {
            if self.seen_failure_keys.insert("runtime-refused-but-changed".to_string()) {
                self.report.oracle_failure("runtime-refused-but-changed", "a refused UPDATE changed the element", &[op.to_string(), format!("# text: {text}")], &before, &after);
            }
        }
    }

    /// `ENSURE PROPOSITION` through the text route, against the model's `lowerEnsure` (+ `validatePlan`).
    fn eval_ensure(&mut self, op: &str, rest: &str) {
        self.report.hit("op:ensure");
        let Ok(spec) = serde_json::from_str::<Value>(rest) else {
            self.report.hit("err:decode");
            self.report.case(op, false);
            return;
        };
        let u = U { sp: Spelling { quote_keys: false, lower_keywords: spec["lower"].as_bool().unwrap_or(false) } };
        let Some(text) = u.ensure_stmt(&spec) else {
            self.report.hit("ensure:no_text_spelling");
            self.report.case(op, false);
            return;
        };
        let ctx = project::Ctx { items: true };
        let line = (|| -> project::R<String> {
            let handle = match spec["handle"].as_str() {
                Some(h) => format!("+ {}", project::enc(h)),
                None => "-".into(),
            };
            Ok(format!("ensure {handle} {} {}", ctx.prop_matcher(&spec["matcher"])?, if spec["expect_version"].as_bool().unwrap_or(false) { 1 } else { 0 }))
        })();
        let line = match line {
            Ok(l) => l,
            Err(e) => {
                self.report.disagreement("ensure spec cannot be projected", &[op.to_string()], "-", &e);
                return;
            }
        };
        let model = self.ask(&line);
        let inexact = spec["matcher"].get("Id").is_some() || spec.pointer("/matcher/Tuple/predicate/Atom/Variable").is_some() || spec.pointer("/matcher/Tuple/predicate/Path").is_some();
        match run_real(&format!("text {text}")) {
            Real::Accepted(tree) => {
                self.report.hit("ensure:accepted");
                self.report.case(&tree.to_string(), true);
                if inexact {
                    self.report.oracle_failure("structure-from-bare-id", "ENSURE PROPOSITION created structure from an id / an inexact tuple", &[op.to_string(), format!("# text: {text}")], "refused", "accepted");
                }
                if let Some(model) = model {
                    self.report.model_compared += 1;
                    let out = project::Ctx { items: false };
                    let imp = tree.pointer("/Kml/clauses/0").ok_or("no clause".to_string()).and_then(|c| out.clause(c)).map(|c| format!("ok {c}"));
                    match imp {
                        Ok(imp) if imp == model => {}
                        Ok(imp) => self.report.disagreement("ENSURE PROPOSITION lowering", &[op.to_string(), format!("# text: {text}"), format!("# model line: {line}")], &model, &imp),
                        Err(e) => self.report.disagreement("projection drift in ENSURE PROPOSITION", &[op.to_string()], &model, &e),
                    }
                }
                self.compare(op, &tree, Ok(()));
                self.oracle(&format!("text {text}"), &tree);
            }
            Real::Rejected(e, _) => {
                let why = text_reason(&e);
                self.report.hit(&format!("ensure:rejected:{why}"));
                self.report.case(op, false);
                if let Some(model) = model {
                    self.report.model_compared += 1;
                    if why.starts_with("tuple_") {
                        if model != format!("none:{}", why.trim_start_matches("tuple_")) {
                            self.report.disagreement("ENSURE PROPOSITION refusal reason", &[op.to_string(), format!("# text: {text}")], &model, &format!("none:{why}"));
                        }
                    } else if let Some(clause) = model.strip_prefix("ok ") {
                        // the model lowers it: then the plan-level guards (or the grammar, for shapes the
                        // exact flavor cannot even read) must be what refused
                        let verdict = self.ask(&format!("plan 1 {clause}")).unwrap_or_default();
                        if verdict == "ok" && why != "grammar" {
                            self.report.disagreement("ENSURE PROPOSITION refused by the text route, lowered and accepted by the model", &[op.to_string(), format!("# text: {text}")], "ok", &format!("err ({why})"));
                        } else {
                            self.report.hit(&format!("ensure:refused_after_lowering:{}", if verdict == "ok" { "grammar".to_string() } else { verdict }));
                        }
                    }
                }
            }
            Real::Panicked(msg) => {
                self.report.case(op, false);
                self.report.oracle_failure("panic", "the parser panicked on ENSURE PROPOSITION", &[op.to_string()], "Ok or Err", &msg);
            }
            Real::Undecodable => {}
        }
    }

    fn eval_assert(&mut self, op: &str, rest: &str) {
        self.report.hit("op:assert");
        let Ok(mut case) = serde_json::from_str::<Value>(rest) else {
            self.report.hit("err:decode");
            self.report.case(op, false);
            return;
        };
        let sample = self.filter_sample.clone();
        fix_filters(&mut case, &sample);
        let prefix = case["prefix"].as_u64().unwrap_or(0) as usize;
        let mut spec = case["spec"].clone();
        if let Some(t) = spec.pointer("/matcher/Tuple").cloned()
            && let Some(atom) = t.pointer("/predicate/Atom").cloned()
        {
            spec["subject"] = t["subject"].clone();
            spec["predicate"] = atom;
            spec["object"] = t["object"].clone();
        }
        let sp = Spelling { quote_keys: case["quote_keys"].as_bool().unwrap_or(false), lower_keywords: case["lower"].as_bool().unwrap_or(false) };
        let u = U { sp };
        let Some(stmt) = u.assert_stmt(&spec) else {
            self.report.hit("assert:no_text_spelling");
            self.report.case(op, false);
            return;
        };
        let mut parts: Vec<String> = (0..prefix).map(|i| format!("CREATE CONCEPT ?p{i} {{ TYPE \"Thing\" }}")).collect();
        parts.push(stmt);
        let text = format!("MUTATE {{ {} }}", parts.join(" "));
        // the model's answer for what the author wrote
        let ctx = project::Ctx { items: true };
        let line = (|| -> project::R<String> {
            let handle = match spec["handle"].as_str() {
                Some(h) => format!("+ {}", project::enc(h)),
                None => "-".into(),
            };
            let sup = if spec["superseding"].is_null() { "-".to_string() } else { format!("+ {}", ctx.eref(&spec["superseding"])?) };
            let matcher = match spec.get("matcher").filter(|m| !m.is_null()) {
                Some(m) => ctx.prop_matcher(m)?,
                None => format!("qt {} ta {} {}", ctx.term(&spec["subject"])?, ctx.patom(&spec["predicate"])?, ctx.term(&spec["object"])?),
            };
            Ok(format!("assert {prefix} {handle} {matcher} {} {sup}", ctx.asg(&spec["members"])?))
        })();
        let line = match line {
            Ok(l) => l,
            Err(e) => {
                self.report.disagreement("assert spec cannot be projected", &[op.to_string()], "-", &e);
                return;
            }
        };
        let model = self.ask(&line);
        let real = run_real(&format!("text {text}"));
        match real {
            Real::Accepted(tree) => {
                self.report.hit("assert:accepted");
                self.report.case(&tree.to_string(), true);
                let clauses: Vec<Value> = tree.pointer("/Kml/clauses").and_then(|c| c.as_array()).cloned().unwrap_or_default();
                let expansion: Vec<Value> = clauses.iter().skip(prefix).cloned().collect();
                // model vs implementation: the expansion itself
                if let Some(model) = model {
                    self.report.model_compared += 1;
                    let out = project::Ctx { items: false };
                    let shown = expansion.iter().map(|c| out.clause(c)).collect::<project::R<Vec<_>>>();
                    match shown {
                        Ok(cs) => {
                            let imp = format!("ok {} {}", cs.len(), cs.join(" "));
                            if imp != model {
                                self.report.disagreement("ASSERT expansion", &[op.to_string(), format!("# text: {text}"), format!("# model line: {line}")], &model, &imp);
                            }
                        }
                        Err(e) => self.report.disagreement("projection drift in an ASSERT expansion", &[op.to_string()], &model, &e),
                    }
                }
                // implementation vs oracle
                for v in oracle::check_assert_expansion(&spec, prefix, &expansion) {
                    self.report.hit(&format!("oracle:{}", v.key));
                    if self.seen_failure_keys.insert(v.key.clone()) {
                        self.report.oracle_failure(&v.key, &v.what, &[op.to_string(), format!("# text: {text}")], "exactly ENSURE PROPOSITION / CREATE ASSERTION / optional SUPERSEDE with the written members", &v.what);
                    }
                }
                self.compare(op, &tree, Ok(()));
                self.oracle(&format!("text {text}"), &tree);
                self.report.sample(json!({"op": op, "text": text, "verdict": "accepted", "clauses": clauses.len()}));
            }
            Real::Rejected(e, _) => {
                let why = text_reason(&e);
                self.report.hit(&format!("assert:rejected:{why}"));
                self.report.case(op, false);
                // must-refuse oracle: by / mode missing, unknown member
                if let Some(model) = model {
                    self.report.model_compared += 1;
                    let model_rejects = model.starts_with("none:");
                    let recognised = why.starts_with("assert_") || why.starts_with("tuple_");
                    let same_reason = model == format!("none:{}", why.trim_start_matches("assert_").trim_start_matches("tuple_"));
                    if recognised && !same_reason {
                        self.report.disagreement("ASSERT refusal reason", &[op.to_string(), format!("# text: {text}")], &model, &format!("none:{why}"));
                    } else if !recognised && !model_rejects {
                        // the grammar refused for a reason of its own (a handle check, a protected key …):
                        // the model accepted the sugar, so the plan-level verdict on the would-be expansion decides
                        self.report.hit("assert:text_refused_model_expands");
                    }
                }
            }
            Real::Panicked(msg) => {
                self.report.case(op, false);
                self.report.oracle_failure("panic", "the parser panicked on an ASSERT", &[op.to_string()], "Ok or Err", &msg);
            }
            Real::Undecodable => {}
        }
        // independent must-refuse rule
        let members: Vec<&str> = spec["members"].as_array().map(|xs| xs.iter().filter_map(|kv| kv.get(0)?.as_str()).collect()).unwrap_or_default();
        let inexact = spec.get("matcher").filter(|m| !m.is_null()).is_some_and(|m| m.get("Id").is_some() || m.pointer("/Tuple/predicate/Atom/Variable").is_some() || m.pointer("/Tuple/predicate/Path").is_some());
        let must_refuse = inexact || !members.contains(&"by") || !members.contains(&"mode") || members.iter().any(|m| !["by", "mode", "stance", "confidence", "at", "valid", "evidence", "key"].contains(m));
        if must_refuse && let Real::Accepted(_) = run_real(&format!("text {text}")) {
            self.report.oracle_failure("assert-accepted-without-actor-or-mode", "ASSERT without by / mode (or with an unknown member) was accepted", &[op.to_string(), format!("# text: {text}")], "refused", "accepted");
        }
    }
}

fn ops_of(cmd: &Value, spellings: &[Spelling]) -> Vec<String> {
    let mut out = vec![format!("json {cmd}")];
    for sp in spellings {
        if let Some(t) = (U { sp: *sp }).command(cmd) {
            out.push(format!("text {t}"));
        }
    }
    out
}

const QUOTED: Spelling = Spelling { quote_keys: true, lower_keywords: false };
const LOWER: Spelling = Spelling { quote_keys: false, lower_keywords: true };

/// The complete finite matrix: clause family × (UPDATE: target binding) × block × field name × spelling.
fn matrix(env: &mut Env, thorough: bool) -> Vec<String> {
    let mut ops = Vec::new();
    let mut names: Vec<(String, String)> = Vec::new();
    for p in PROTECTED {
        for (s, tag) in spellings(p) {
            names.push((s, format!("protected:{tag}")));
        }
    }
    for p in PAYLOAD {
        names.push((p.to_string(), "payload:exact".into()));
        if thorough {
            names.push((p.to_ascii_uppercase(), "payload:upper".into()));
        }
    }
    for o in ORDINARY {
        names.push((o.to_string(), "ordinary".into()));
    }
    let entry_shapes = |name: &str| -> Vec<Vec<(String, Value)>> {
        vec![vec![(name.to_string(), lit("x"))], vec![("note".to_string(), lit("n")), (name.to_string(), lit("x"))]]
    };
    let spell: &[Spelling] = &[PLAIN, QUOTED];
    let mut push = |env: &mut Env, clauses: Vec<Value>, label: &str| {
        let mut cmd = plan(true, clauses);
        fix_filters(&mut cmd, &env.filter_sample);
        env.report.hit(&format!("matrix:{label}"));
        ops.extend(ops_of(&cmd, spell));
    };
    for (name, class) in &names {
        for entries in entry_shapes(name) {
            for family in FAMILIES {
                for block in BLOCKS {
                    if let Some(c) = site_clause(family, *block, &entries, None) {
                        push(env, vec![c], class);
                    }
                }
            }
            for (_, target, wh) in update_targets() {
                for block in BLOCKS {
                    push(env, vec![update(target.clone(), vec![update_action(*block, &entries, None)], wh.clone())], class);
                }
            }
        }
    }
    // duplicate keys (same string through two spellings is the same key)
    for name in ["note", "stance", "governance"] {
        let entries = vec![(name.to_string(), lit("a")), ("other".to_string(), lit("b")), (name.to_string(), lit("c"))];
        for family in FAMILIES {
            for block in BLOCKS {
                if let Some(c) = site_clause(family, *block, &entries, None) {
                    push(env, vec![c], "duplicate");
                }
            }
        }
        for block in BLOCKS {
            push(env, vec![update(ep("t"), vec![update_action(*block, &entries, None)], None)], "duplicate");
        }
    }
    // values: handles (bound / unbound / nested), own-field reads, update expressions
    let values: Vec<(&str, Value)> = vec![
        ("param", param("p")),
        ("handle-bound", handle("c0")),
        ("handle-unbound", handle("nobody")),
        ("array-handle-bound", json!({"Array": [{"Handle": "c0"}, {"Param": "p"}]})),
        ("array-handle-unbound", json!({"Array": [{"Value": {"String": "x"}}, {"Array": [{"Handle": "nobody"}]}]})),
        ("object-handle-unbound", json!({"Object": [["a", {"Object": [["b", {"Handle": "nobody"}]]}]]})),
        ("object-engine-named-member", json!({"Object": [["governance", {"Param": "p"}]]})),
        ("literal-object-engine-named-member", json!({"Value": {"Object": {"governance": {"String": "x"}, "Handle": {"String": "y"}}}})),
        ("own-field", dotted("t", "score")),
        ("foreign-field", dotted("other", "score")),
        ("array-foreign-field", json!({"Array": [{"Variable": {"var": "other", "path": [{"Field": "a"}]}}]})),
        ("expr", expr_add("t")),
        ("expr-foreign", expr_add("other")),
        ("expr-bad-arity", expr_bad_arity("t")),
        ("expr-nested", expr_nested("t", true)),
        ("expr-nested-bad-arity", expr_nested("t", false)),
    ];
    for (label, value) in &values {
        let entries = vec![("note".to_string(), value.clone())];
        for family in FAMILIES {
            for block in [Block::Fields, Block::Attributes, Block::Facet, Block::SetStructural, Block::UnsetStructural] {
                if let Some(c) = site_clause(family, block, &entries, None) {
                    push(env, vec![create_concept("c0"), c], &format!("value:{label}"));
                }
            }
        }
        for (_, target, wh) in update_targets().into_iter().take(5) {
            for block in [Block::Fields, Block::Attributes, Block::Facet, Block::SetStructural, Block::UnsetStructural] {
                push(env, vec![create_concept("c0"), update(target.clone(), vec![update_action(block, &entries, None)], wh.clone())], &format!("value:{label}"));
            }
        }
    }
    // structural edge options carrying handles
    for (label, opt) in [("bound", json!({"index": {"Value": {"Number": 1}}, "role": {"Handle": "c0"}})), ("unbound", json!({"role": {"Array": [{"Handle": "nobody"}]}}))] {
        let entries = vec![("has_step".to_string(), param("x"))];
        for family in FAMILIES {
            if let Some(c) = site_clause(family, Block::SetStructural, &entries, Some(opt.clone())) {
                push(env, vec![create_concept("c0"), c], &format!("edge-options:{label}"));
            }
        }
        push(env, vec![create_concept("c0"), update(ep("t"), vec![update_action(Block::SetStructural, &entries, Some(opt.clone()))], None)], &format!("edge-options:{label}"));
    }
    // empty UNSET STRUCTURAL, UPDATE without actions, PURGE confirmation, empty plan
    push(env, vec![update(ep("t"), vec![json!({"UnsetStructural": []})], None)], "shape");
    push(env, vec![update(ep("t"), vec![], None)], "shape");
    {
        let mut u = upsert_concept("s");
        u["UpsertConcept"]["unset_structural"] = json!([]);
        push(env, vec![u], "shape");
    }
    for c in ["PURGE", "purge", "Purge", "PURGE ", ""] {
        push(env, vec![purge(ep("t"), None, c)], "purge-confirm");
    }
    push(env, vec![], "shape");
    // UPSERT identity selectors
    let selectors: Vec<Value> = vec![
        json!({"id": {"Literal": {"String": "c-1"}}}),
        json!({"key": {"Param": "k"}}),
        json!({"name": {"Literal": {"String": "n"}}}),
        json!({"key": {"Variable": "v"}}),
        json!({"id": {"Array": [{"Literal": {"String": "a"}}]}}),
        json!({"id": {"Match": {"x": {"Param": "k"}}}}),
        json!({"ID": {"Literal": {"String": "c-1"}}}),
        json!({"Key": {"Param": "k"}}),
        json!({"name": {"Literal": {"String": "n"}}, "key": {"Literal": {"Number": 3}}}),
        json!({"key": {"Literal": "Null"}}),
        json!({}),
        json!({"key": {"Param": "k"}, "links": {"Array": [{"Proposition": {"Tuple": {"subject": tlit("x"), "predicate": atom("a"), "object": tvar("b")}}}]}}),
        json!({"key": {"Param": "k"}, "links": {"Proposition": {"Tuple": {"subject": tvar("x"), "predicate": path2("a", "b"), "object": tvar("b")}}}}),
    ];
    for sel in selectors {
        let mut u = upsert_concept("s");
        u["UpsertConcept"]["match"] = sel;
        push(env, vec![u], "upsert-selector");
    }
    {
        let mut u = upsert_concept("s");
        u["UpsertConcept"]["match"] = Value::Null;
        push(env, vec![u], "upsert-selector");
    }
    // ENSURE PROPOSITION: create structure only from an exact tuple
    let subjects = vec![tvar("c0"), tparam("s"), tlit("x"), json!({"Match": {"key": {"Literal": {"String": "k"}}}}),
        json!({"Proposition": {"Tuple": {"subject": tvar("a"), "predicate": atom("p"), "object": tvar("b")}}}),
        json!({"Proposition": {"Tuple": {"subject": tlit("lit"), "predicate": atom("p"), "object": tvar("b")}}}),
        json!({"Proposition": {"Tuple": {"subject": tvar("a"), "predicate": path_hops("p"), "object": tvar("b")}}}),
        json!({"Proposition": {"Id": {"Param": "pid"}}}),
        json!({"Match": {"links": {"Proposition": {"Tuple": {"subject": tlit("lit"), "predicate": atom("p"), "object": tvar("b")}}}}})];
    let preds = vec![json!({"Literal": "likes"}), json!({"Param": "pp"}), json!({"Variable": "pv"})];
    for s in &subjects {
        for p in &preds {
            for o in [tparam("o"), tlit("blue"), subjects[6].clone(), subjects[5].clone()] {
                push(env, vec![create_concept("c0"), ensure_proposition(Some("e"), s.clone(), p.clone(), o)], "ensure-proposition");
            }
        }
    }
    ops
}

/// Selection blocks: BELIEF at every nesting depth, path predicates, literal subjects — in every
/// family that carries a WHERE and in EXPORT CAPSULE.
fn selections(env: &mut Env) -> Vec<String> {
    let t = "t";
    let belief = json!({"Belief": {"variable": "b", "target": {"Proposition": t}}});
    let belief_id = json!({"Belief": {"variable": "b", "target": {"Id": {"Param": "pid"}}}});
    let belief_tuple = json!({"Belief": {"variable": "b", "target": {"Tuple": {"subject": tvar(t), "predicate": atom("likes"), "object": tvar("o")}}}});
    let slot = json!({"BeliefSlot": {"variable": "b", "subject": tvar(t), "predicate": {"Literal": "likes"}}});
    let bad_atoms: Vec<(&str, Value)> = vec![
        ("belief", belief),
        ("belief-id", belief_id),
        ("belief-tuple", belief_tuple),
        ("belief-slot", slot),
        ("path-alt", w_prop(None, tvar(t), path2("a", "b"), tvar("o"))),
        ("path-hops", w_prop(Some("p"), tvar(t), path_hops("a"), tvar("o"))),
        ("literal-subject", w_prop(None, tlit("x"), atom("a"), tvar(t))),
        ("nested-term-path", w_prop(None, json!({"Proposition": {"Tuple": {"subject": tvar(t), "predicate": path2("a", "b"), "object": tvar("o")}}}), atom("says"), tvar("o"))),
        ("nested-object-literal-subject", w_prop(None, tvar(t), atom("says"), json!({"Proposition": {"Tuple": {"subject": tlit("x"), "predicate": atom("a"), "object": tvar("o")}}}))),
        ("matcher-array-path", json!({"Concept": {"variable": t, "matcher": {"links": {"Array": [{"Match": {"via": {"Proposition": {"Tuple": {"subject": tvar("q"), "predicate": path_hops("a"), "object": tvar("r")}}}}}]}}}})),
        ("structural-term-literal-subject", json!({"Structural": {"variable": null, "subject": json!({"Proposition": {"Tuple": {"subject": tlit("x"), "predicate": atom("a"), "object": tvar("o")}}}), "field": {"Name": "has_step"}, "object": tvar(t)}})),
        ("ok-concept", w_kind("Concept", t)),
        ("ok-prop-id", json!({"Proposition": {"variable": t, "matcher": {"Id": {"Literal": {"String": "p-1"}}}}})),
        ("ok-nested-prop", w_prop(Some(t), json!({"Proposition": {"Tuple": {"subject": tvar("a"), "predicate": atom("b"), "object": tlit("lit-object")}}}), atom("says"), tlit("x"))),
        ("ok-filter", json!({"Filter": null})),
    ];
    let wrap = |depth: usize, which: usize, inner: Value| -> Value {
        let mut w = inner;
        for d in 0..depth {
            let tag = ["Not", "Optional", "Union"][(which + d) % 3];
            w = json!({tag: [w_kind("Concept", "z"), w]});
        }
        w
    };
    let mut ops = Vec::new();
    for (label, a) in &bad_atoms {
        for depth in 0..4usize {
            for which in 0..3usize {
                if depth == 0 && which > 0 {
                    continue;
                }
                let wh = json!([w_kind("Concept", t), wrap(depth, which, a.clone())]);
                let mut cmds = vec![
                    plan(false, vec![update(eh(t), vec![update_action(Block::Attributes, &[("note".to_string(), lit("x"))], None)], Some(wh.clone()))]),
                    plan(false, vec![target_where("RetractAssertion", eh(t), Some(wh.clone()))]),
                    plan(false, vec![target_where("Archive", eh(t), Some(wh.clone()))]),
                    plan(false, vec![target_where("Tombstone", eh(t), Some(wh.clone()))]),
                    plan(false, vec![set_retention(eh(t), json!([["retention_class", lit("short")]]), Some(wh.clone()))]),
                    plan(false, vec![purge(eh(t), Some(wh.clone()), "PURGE")]),
                    plan(false, vec![merge(ep("a"), ep("b"), Some(wh.clone()))]),
                    export(wh.clone()),
                ];
                for cmd in cmds.iter_mut() {
                    fix_filters(cmd, &env.filter_sample);
                    env.report.hit(&format!("selection:{label}:depth{depth}"));
                    ops.extend(ops_of(cmd, &[PLAIN, LOWER]));
                }
            }
        }
    }
    let mut e = export(json!([]));
    fix_filters(&mut e, &env.filter_sample);
    ops.extend(ops_of(&e, &[PLAIN]));
    ops
}

fn asserts(thorough: bool) -> Vec<String> {
    let mut ops = Vec::new();
    let subject = json!({"Param": "alice"});
    let mk = |prefix: u64, handle: Option<&str>, members: Vec<(String, Value)>, sup: Value, quote: bool| -> String {
        let spec = json!({"handle": handle, "subject": subject, "predicate": {"Literal": "prefers"}, "object": {"Literal": {"String": "dark mode"}},
            "members": members.iter().map(|(k, v)| json!([k, v])).collect::<Vec<_>>(), "superseding": sup});
        format!("assert {}", json!({"prefix": prefix, "spec": spec, "quote_keys": quote, "lower": false}))
    };
    // every subset of the eight members, in table order
    for mask in 0u32..256 {
        let members: Vec<(String, Value)> =
            ASSERT_MEMBERS.iter().enumerate().filter(|(i, _)| mask & (1 << i) != 0).map(|(i, m)| (m.to_string(), assert_value(m, (mask as u64 + i as u64) % 4))).collect();
        let handle = if mask % 3 == 0 { Some("a") } else { None };
        let sup = match mask % 5 {
            0 => json!({"Param": "old"}),
            1 => json!({"Id": "as-1"}),
            _ => Value::Null,
        };
        ops.push(mk(1 + (mask as u64 % 3), handle, members, sup, mask % 2 == 1));
    }
    // value variants per member, member order shuffled, unknown members
    let vmax = if thorough { 6 } else { 6 };
    for m in ASSERT_MEMBERS {
        for variant in 0..vmax {
            let mut members = vec![("by".to_string(), param("alice")), ("mode".to_string(), lit("stated"))];
            members.retain(|(k, _)| k != m);
            members.insert((variant as usize) % (members.len() + 1), (m.to_string(), assert_value(m, variant)));
            ops.push(mk(1, None, members, Value::Null, false));
        }
    }
    for unknown in ["note", "By", "MODE", "asserted_by", "proposition", "governance", "_system", "evidence_refs", "mode "] {
        let members = vec![("by".to_string(), param("alice")), ("mode".to_string(), lit("stated")), (unknown.to_string(), lit("x"))];
        ops.push(mk(1, None, members.clone(), Value::Null, false));
        ops.push(mk(1, Some("a"), members, json!({"Handle": "p0"}), true));
    }
    // no structure from a bare id: `(id: …)` names an existing Proposition and can drive neither
    // ENSURE PROPOSITION nor the ASSERT sugar (the tree cannot even express it, so text only)
    for id in ["\"P-1\"", ":pid", "7", "null"] {
        for (head, tail) in [
            ("ENSURE PROPOSITION", ""),
            ("ENSURE PROPOSITION ?p", ""),
            ("ensure proposition ?p", " EXPECT VERSION 3"),
            ("ASSERT", " { by: :alice, mode: \"stated\" }"),
            ("ASSERT ?a", " { by: :alice, mode: \"stated\", evidence: :e } SUPERSEDING :old"),
        ] {
            ops.push(format!("refuse structure-from-bare-id {head} (id: {id}){tail}"));
            ops.push(format!("refuse structure-from-bare-id MUTATE {{ CREATE CONCEPT ?c {{ TYPE \"T\" }} {head} ( id : {id} ){tail} }}"));
        }
    }
    // … nor from a predicate path or a ?variable predicate
    for pred in ["\"a\" | \"b\"", "\"a\"{1,3}", "?v"] {
        ops.push(format!("refuse structure-from-inexact-tuple ENSURE PROPOSITION ?p (:s, {pred}, :o)"));
        ops.push(format!("refuse structure-from-inexact-tuple ASSERT (:s, {pred}, :o) {{ by: :alice, mode: \"stated\" }}"));
    }
    // the tuple slot of ASSERT / ENSURE PROPOSITION through the model (`structural_tuple`): ids, predicate
    // atoms of every kind, nested terms; endpoints as parameters, handles, matchers, nested tuples
    let scalars = [json!({"Literal": {"String": "P-1"}}), json!({"Param": "pid"}), json!({"Literal": {"Number": 7}})];
    let preds = [json!({"Atom": {"Literal": "prefers"}}), json!({"Atom": {"Param": "pp"}}), json!({"Atom": {"Variable": "pv"}}), path2("a", "b"), path_hops("a")];
    let subjects = [tparam("s"), tvar("p0"), tvar("nobody"), tlit("x"), json!({"Match": {"key": {"Literal": {"String": "k"}}}}),
        json!({"Proposition": {"Id": {"Param": "pid"}}}),
        json!({"Proposition": {"Tuple": {"subject": tparam("a"), "predicate": {"Atom": {"Literal": "owns"}}, "object": tlit("bike")}}})];
    let mut matchers: Vec<Value> = scalars.iter().map(|s| json!({"Id": s})).collect();
    for s in &subjects {
        for p in &preds {
            for o in [tparam("o"), tlit("blue"), json!({"Proposition": {"Id": {"Literal": {"String": "P-2"}}}})] {
                matchers.push(json!({"Tuple": {"subject": s, "predicate": p, "object": o}}));
            }
        }
    }
    for (i, m) in matchers.iter().enumerate() {
        for (handle, ev, lower) in [(None, false, false), (Some("e"), true, false), (Some("p0"), false, true)] {
            ops.push(format!("ensure {}", json!({"handle": handle, "matcher": m, "expect_version": ev, "lower": lower})));
        }
        let members = vec![("by".to_string(), param("alice")), ("mode".to_string(), lit("stated"))];
        let spec = json!({"handle": if i % 2 == 0 { Some("a") } else { None }, "matcher": m, "subject": null, "predicate": null, "object": null,
            "members": members.iter().map(|(k, v)| json!([k, v])).collect::<Vec<_>>(), "superseding": if i % 3 == 0 { json!({"Param": "old"}) } else { Value::Null }});
        ops.push(format!("assert {}", json!({"prefix": 1, "spec": spec, "quote_keys": false, "lower": i % 4 == 0})));
        // and with the members missing: the tuple is looked at first
        let spec2 = json!({"handle": null, "matcher": m, "subject": null, "predicate": null, "object": null, "members": [["mode", lit("stated")]], "superseding": null});
        ops.push(format!("assert {}", json!({"prefix": 0, "spec": spec2, "quote_keys": false, "lower": false})));
    }
    // two handle-less ASSERTs need distinct synthetic handles: positions 0..3
    for prefix in 0..4 {
        ops.push(mk(prefix, None, vec![("by".to_string(), param("alice")), ("mode".to_string(), lit("observed"))], Value::Null, false));
    }
    ops
}

/// The oracle looks at every block: hand-built trees (never shown to the code under test) whose only
/// offence sits in a later block must each be flagged with the expected key.
fn oracle_selftest(report: &mut Report) {
    let ok = |k: &str| (k.to_string(), lit("x"));
    let bound = |kind: &str| Some(json!([w_kind(kind, "t")]));
    let cases: Vec<(&str, Value)> = vec![
        ("immutable-payload", plan(false, vec![update(eh("t"), vec![update_action(Block::Fields, &[ok("note")], None), update_action(Block::Fields, &[], None), update_action(Block::Attributes, &[ok("a")], None),
            update_action(Block::Fields, &[ok("b"), ok("confidence")], None)], bound("Assertion"))])),
        ("structural-on-record", plan(false, vec![update(eh("t"), vec![update_action(Block::Attributes, &[ok("a")], None), update_action(Block::Facet, &[ok("b")], None), update_action(Block::UnsetStructural, &[ok("f")], None)], bound("Evidence"))])),
        ("engine-owned-key", plan(false, vec![update(ep("t"), vec![update_action(Block::Attributes, &[ok("a")], None), update_action(Block::Attributes, &[], None), update_action(Block::UnsetFacet, &[ok("b"), ok("space_seq")], None)], None)])),
        ("duplicate-key", plan(false, vec![update(ep("t"), vec![update_action(Block::Attributes, &[ok("a")], None), update_action(Block::Facet, &[ok("a"), ok("c"), ok("a")], None)], None)])),
        ("engine-owned-key", {
            let mut c = create_concept("s");
            c["CreateConcept"]["set_facets"] = json!([{"facet": {"Name": "A"}, "values": [["a", lit("x")]]}, {"facet": {"Name": "B"}, "values": []}, {"facet": {"Name": "C"}, "values": [["b", lit("x")], ["governance", lit("x")]]}]);
            plan(false, vec![c])
        }),
        ("engine-owned-key", {
            let mut c = upsert_concept("s");
            c["UpsertConcept"]["unset_facets"] = json!([{"facet": {"Name": "A"}, "fields": ["a"]}, {"facet": {"Name": "B"}, "fields": ["b", "_system"]}]);
            plan(false, vec![c])
        }),
        ("handle-unbound", plan(false, vec![update(ep("t"), vec![update_action(Block::Attributes, &[ok("a")], None), update_action(Block::SetStructural, &[("f".to_string(), handle("nobody"))], None)], None)])),
    ];
    for (key, tree) in cases {
        if !oracle::check(&tree).iter().any(|v| v.key == key) {
            report.disagreement("oracle self-test: the independent safety walk missed an offence in a later block", &[format!("json {tree}")], key, "not flagged");
        }
    }
    report.hit("oracle_selftest_done");
}

/// Every guard × every place it has to look: k = 2..4 blocks (actions of one kind, or of kinds writing
/// the same plane) with the offending key in block j for every j, after harmless and after empty
/// blocks, for every UPDATE target binding; the repeated SET FACET / UNSET FACET lists of the other
/// families; both routes.
fn multi_block(env: &mut Env) -> Vec<String> {
    let mut ops = Vec::new();
    let mut push = |env: &mut Env, clauses: Vec<Value>, label: &str| {
        let mut cmd = plan(clauses.len() > 1, clauses);
        fix_filters(&mut cmd, &env.filter_sample);
        env.report.hit(&format!("multiblock:{label}"));
        ops.extend(ops_of(&cmd, &[PLAIN, QUOTED]));
    };
    let harmless = |i: usize| vec![(format!("h{i}"), lit("x"))];
    // (label, offending entries) per guard that looks at keys
    let key_guards: Vec<(&str, Vec<(String, Value)>)> = vec![
        ("engine-owned", vec![("z".to_string(), lit("x")), ("governance".to_string(), lit("x"))]),
        ("engine-owned-system", vec![("_system".to_string(), lit("x"))]),
        ("duplicate", vec![("d".to_string(), lit("x")), ("e".to_string(), lit("x")), ("d".to_string(), lit("y"))]),
        ("payload-assertion", vec![("confidence".to_string(), num(1))]),
        ("payload-evidence", vec![("q".to_string(), lit("x")), ("payload".to_string(), lit("x"))]),
        ("payload-proposition", vec![("object".to_string(), lit("x"))]),
        ("unbound-handle", vec![("r".to_string(), handle("nobody"))]),
        ("foreign-read", vec![("r".to_string(), dotted("other", "score"))]),
        ("bad-arity", vec![("r".to_string(), expr_bad_arity("t"))]),
    ];
    let targets: Vec<(&str, Value, Option<Value>)> = update_targets().into_iter().filter(|(n, _, _)| ["param", "Concept", "Assertion", "Evidence", "Proposition", "Activity", "union-assertion", "not-concept+assertion", "concept+proposition"].contains(n)).collect();
    let key_blocks = [Block::Fields, Block::Attributes, Block::Facet, Block::UnsetAttributes, Block::UnsetFacet];
    for (label, offending) in &key_guards {
        for (_, target, wh) in &targets {
            for k in 2..=4usize {
                for j in 0..k {
                    // (a) k actions of one kind
                    for kind in key_blocks {
                        let acts: Vec<Value> = (0..k).map(|i| update_action(kind, if i == j { offending } else { &[] }, None)).zip(0..k).map(|(a, i)| if i == j { a } else { update_action(kind, &harmless(i), None) }).collect();
                        push(env, vec![update(target.clone(), acts, wh.clone())], label);
                    }
                    // (b) the offending SET FIELDS / block after an empty block of the same kind
                    if j > 0 {
                        for kind in [Block::Fields, Block::Attributes] {
                            let acts: Vec<Value> = (0..k).map(|i| if i == j { update_action(kind, offending, None) } else if i + 1 == j { update_action(kind, &[], None) } else { update_action(kind, &harmless(i), None) }).collect();
                            push(env, vec![update(target.clone(), acts, wh.clone())], label);
                        }
                    }
                    // (c) mixed kinds: the other actions are of different kinds (same or other plane)
                    for kind in key_blocks {
                        let acts: Vec<Value> = (0..k).map(|i| if i == j { update_action(kind, offending, None) } else { update_action(key_blocks[(i + 1) % key_blocks.len()], &harmless(i), None) }).collect();
                        push(env, vec![update(target.clone(), acts, wh.clone())], label);
                    }
                }
            }
        }
    }
    // structural actions at every position among harmless ones, for every target binding
    for (_, target, wh) in &targets {
        for k in 2..=4usize {
            for j in 0..k {
                for kind in [Block::SetStructural, Block::UnsetStructural] {
                    let entries = vec![("has_step".to_string(), param("x"))];
                    let acts: Vec<Value> = (0..k).map(|i| if i == j { update_action(kind, &entries, None) } else { update_action(key_blocks[i % key_blocks.len()], &harmless(i), None) }).collect();
                    push(env, vec![update(target.clone(), acts, wh.clone())], "structural");
                    // an empty UNSET STRUCTURAL / an unbound handle / a bad arity in a later structural block
                    let acts: Vec<Value> = (0..k).map(|i| if i == j { update_action(Block::UnsetStructural, &[], None) } else { update_action(Block::SetStructural, &entries, None) }).collect();
                    push(env, vec![update(target.clone(), acts, wh.clone())], "structural-empty-unset");
                    let bad = vec![("has_step".to_string(), if kind == Block::SetStructural { handle("nobody") } else { expr_bad_arity("t") })];
                    let acts: Vec<Value> = (0..k).map(|i| update_action(kind, if i == j { &bad } else { &entries }, None)).collect();
                    push(env, vec![update(target.clone(), acts, wh.clone())], "structural-value");
                }
            }
        }
    }
    // the repeated blocks of the other families: SET FACET lists everywhere, UNSET FACET lists in UPSERT, and
    // the offending key in a different block kind than the harmless ones
    for (label, offending) in key_guards.iter().filter(|(l, _)| l.starts_with("engine") || *l == "duplicate" || *l == "unbound-handle" || *l == "bad-arity") {
        for family in FAMILIES {
            for k in 2..=4usize {
                for j in 0..k {
                    if let Some(mut c) = site_clause(family, Block::Facet, &[], None) {
                        let fam = c.as_object().unwrap().keys().next().unwrap().clone();
                        c[&fam]["set_facets"] = Value::Array((0..k).map(|i| {
                            let e = if i == j { offending.clone() } else if i + 1 == j { vec![] } else { harmless(i) };
                            json!({"facet": {"Name": format!("F{i}")}, "values": e.iter().map(|(k, v)| json!([k, v])).collect::<Vec<_>>()})
                        }).collect());
                        push(env, vec![c], label);
                    }
                    if *family == "UpsertConcept" && !label.contains("handle") && !label.contains("arity") {
                        let mut c = upsert_concept("s");
                        c["UpsertConcept"]["unset_facets"] = Value::Array((0..k).map(|i| {
                            let e = if i == j { offending.clone() } else { harmless(i) };
                            json!({"facet": {"Name": format!("F{i}")}, "fields": e.iter().map(|(k, _)| json!(k)).collect::<Vec<_>>()})
                        }).collect());
                        push(env, vec![c], label);
                    }
                }
            }
            // one clause, several block kinds: harmless everywhere but one
            let blocks: Vec<Block> = BLOCKS.iter().copied().filter(|b| !matches!(b, Block::SetStructural | Block::UnsetStructural) && site_clause(family, *b, &[], None).is_some()).collect();
            for bad in &blocks {
                let mut c: Option<Value> = None;
                for (i, b) in blocks.iter().enumerate() {
                    let e = if b == bad { offending.clone() } else { harmless(i) };
                    if matches!(b, Block::UnsetAttributes | Block::UnsetFacet) && (label.contains("handle") || label.contains("arity")) && b == bad {
                        continue;
                    }
                    let donor = site_clause(family, *b, &e, None).unwrap();
                    match c.as_mut() {
                        None => c = Some(donor),
                        Some(mine) => {
                            let fam = donor.as_object().unwrap().keys().next().unwrap().clone();
                            for f in ["set_fields", "set_attributes", "set_facets", "unset_attributes", "unset_facets", "values"] {
                                if let Some(v) = donor[&fam].get(f) && !v.is_null() && v.as_array().is_some_and(|a| !a.is_empty()) {
                                    mine[&fam][f] = v.clone();
                                }
                            }
                        }
                    }
                }
                if let Some(c) = c {
                    push(env, vec![c], label);
                }
            }
        }
    }
    ops
}

/// Systematic AST shapes, most of which the text grammar cannot produce (the validator has to refuse or
/// accept them on its own): every `Option` none / some(empty) / some(non-empty), empty lists, repeated
/// facets, empty / odd handles, every pair of handle-declaring families with one handle, nested
/// SET / UNSET combinations.
fn shapes(env: &mut Env) -> Vec<String> {
    fn product(base: &Value, family: &str, axes: &[(&str, Vec<Value>)], out: &mut Vec<Value>) {
        let mut idx = vec![0usize; axes.len()];
        loop {
            let mut c = base.clone();
            for (a, (field, variants)) in axes.iter().enumerate() {
                c[family][*field] = variants[idx[a]].clone();
            }
            out.push(c);
            let mut a = 0;
            loop {
                if a == axes.len() {
                    return;
                }
                idx[a] += 1;
                if idx[a] < axes[a].1.len() {
                    break;
                }
                idx[a] = 0;
                a += 1;
            }
        }
    }
    let asg = |k: &str| json!([[k, lit("x")]]);
    let opt_asg = || vec![Value::Null, json!([]), asg("note")];
    let facet = |vals: Value| json!({"facet": {"Name": "MnemonicState"}, "values": vals});
    let facets = || vec![json!([]), json!([facet(json!([]))]), json!([facet(asg("salience")), facet(asg("salience"))])];
    let edge = |opts: Value| json!({"field": {"Name": "has_step"}, "value": {"Param": "x"}, "options": opts});
    let opt_edges = || vec![Value::Null, json!([]), json!([edge(Value::Null)]), json!([edge(json!({})), edge(json!({"index": {"Value": {"Number": 0}}}))])];
    let opt_unset = || vec![Value::Null, json!([]), json!(["old"])];
    let facet_unsets = || vec![json!([]), json!([{"facet": {"Name": "MnemonicState"}, "fields": []}]), json!([{"facet": {"Param": "f"}, "fields": ["a", "b"]}])];
    let opt_removals = || vec![Value::Null, json!([]), json!([{"field": {"Name": "has_step"}, "value": {"Param": "x"}}])];
    let wheres = |t: &str| vec![Value::Null, json!([]), json!([w_kind("Concept", t)]), json!([w_kind("Concept", "other")])];
    let targets = || vec![eh("t"), ep("t"), eid("el-1")];
    let scalar = || vec![Value::Null, json!({"Literal": {"Number": 3}}), json!({"Param": "v"})];

    let mut clauses: Vec<Value> = Vec::new();
    product(&create_concept("h"), "CreateConcept", &[("type", vec![Value::Null, json!({"Name": "T"}), json!({"Param": "ty"})]), ("client_key", scalar()), ("name", vec![Value::Null, json!({"Literal": {"String": "n"}})]),
        ("set_fields", opt_asg()), ("set_attributes", opt_asg()), ("set_facets", facets()), ("set_structural", opt_edges())], &mut clauses);
    product(&upsert_concept("h"), "UpsertConcept", &[("match", vec![Value::Null, json!({}), json!({"key": {"Literal": {"String": "k"}}}), json!({"id": {"Param": "i"}, "name": {"Literal": {"String": "n"}}})]),
        ("set_fields", vec![Value::Null, asg("name")]), ("set_attributes", vec![Value::Null, json!([])]), ("set_facets", facets()), ("unset_attributes", opt_unset()), ("unset_facets", facet_unsets()),
        ("set_structural", vec![Value::Null, json!([edge(Value::Null)])]), ("unset_structural", opt_removals()), ("expect_version", vec![Value::Null, json!({"Param": "v"})])], &mut clauses);
    for kind in ["CreateEvidence", "CreateAssertion", "CreateActivity"] {
        product(&record(kind, "h"), kind, &[("client_key", scalar()), ("set_fields", opt_asg()), ("set_facets", facets()), ("set_structural", opt_edges())], &mut clauses);
    }
    product(&ensure_proposition(Some("h"), tparam("s"), json!({"Literal": "likes"}), tparam("o")), "EnsureProposition",
        &[("handle", vec![Value::Null, json!("h"), json!("")]), ("expect_version", scalar()), ("predicate", vec![json!({"Literal": "likes"}), json!({"Param": "p"}), json!({"Variable": "v"})]),
          ("subject", vec![tparam("s"), tlit("x"), tvar("free")])], &mut clauses);
    let seven = |k: &str| -> Value {
        let e = vec![(k.to_string(), lit("x"))];
        Value::Array(BLOCKS.iter().map(|b| update_action(*b, &e, None)).collect())
    };
    product(&update(eh("t"), vec![], None), "Update", &[("target", targets()), ("where_clauses", wheres("t")), ("expect_version", vec![Value::Null, json!({"Param": "v"})]), ("limit", vec![Value::Null, json!({"Literal": {"Number": 1}})]),
        ("actions", vec![json!([]), json!([update_action(Block::Attributes, &[("a".to_string(), lit("x"))], None)]), seven("note"),
            json!([update_action(Block::Fields, &[("name".to_string(), lit("x"))], None), update_action(Block::Fields, &[("name".to_string(), lit("y"))], None)]),
            json!([update_action(Block::Attributes, &[], None), update_action(Block::UnsetAttributes, &[], None), update_action(Block::SetStructural, &[], None)]),
            json!([update_action(Block::Facet, &[], None), update_action(Block::UnsetFacet, &[], None), update_action(Block::UnsetStructural, &[], None)])])], &mut clauses);
    for kind in ["RetractAssertion", "Archive", "Tombstone"] {
        product(&target_where(kind, eh("t"), None), kind, &[("target", targets()), ("where_clauses", wheres("t")), ("limit", vec![Value::Null, json!({"Param": "n"})]), ("expect_state", vec![Value::Null, json!({"Literal": {"String": "active"}})])], &mut clauses);
    }
    for kind in ["SupersedeAssertion", "CorrectEvidence"] {
        product(&target_by(kind, eh("t"), eh("t")), kind, &[("target", targets()), ("by", vec![eh("t"), eh("h"), ep("b"), eid("el-2")]), ("expect_state", vec![Value::Null, json!({"Param": "s"})])], &mut clauses);
    }
    product(&transition(ep("act")), "TransitionActivity", &[("target", targets()), ("to", vec![json!({"Literal": {"String": "completed"}}), json!({"Param": "to"})]), ("set_fields", opt_asg()), ("set_structural", opt_edges()),
        ("expect_state", vec![Value::Null, json!({"Param": "s"})])], &mut clauses);
    product(&set_retention(ep("el"), json!([]), None), "SetRetention", &[("target", targets()), ("values", vec![json!([]), asg("retention_class"), json!([["a", lit("x")], ["a", lit("y")]])]), ("where_clauses", wheres("t")),
        ("limit", vec![Value::Null, json!({"Param": "n"})]), ("expect_version", vec![Value::Null, json!({"Param": "v"})])], &mut clauses);
    product(&purge(ep("el"), None, "PURGE"), "Purge", &[("target", targets()), ("where_clauses", wheres("t")), ("reference_policy", vec![Value::Null, json!({"Literal": {"String": "restrict"}})]), ("limit", vec![Value::Null, json!({"Param": "n"})]),
        ("confirm", vec![json!("PURGE"), json!("PURGE\n"), json!("")])], &mut clauses);
    product(&merge(ep("a"), ep("b"), None), "MergeConcept", &[("source", targets()), ("into", vec![eh("t"), eh("h"), ep("b")]), ("where_clauses", wheres("t")), ("expect_version", vec![Value::Null, json!({"Param": "v"})])], &mut clauses);

    let mut ops = Vec::new();
    let mut emit = |env: &mut Env, cmd: Value, label: &str| {
        let o = ops_of(&cmd, &[PLAIN]);
        env.report.hit(&format!("shape:{label}"));
        if o.len() == 1 {
            env.report.hit("shape:no_text_spelling");
        }
        ops.extend(o);
    };
    for c in clauses {
        let family = c.as_object().and_then(|m| m.keys().next().cloned()).unwrap_or_default();
        emit(env, plan(false, vec![c.clone()]), &family);
    }
    // handles: empty, synthetic-looking, not an identifier, and one handle declared by two families
    let declare = |family: &str, h: &str| -> Value {
        match family {
            "CreateConcept" => create_concept(h),
            "UpsertConcept" => upsert_concept(h),
            "EnsureProposition" => ensure_proposition(Some(h), tparam("s"), json!({"Literal": "likes"}), tparam("o")),
            k => record(k, h),
        }
    };
    let families = ["CreateConcept", "UpsertConcept", "EnsureProposition", "CreateEvidence", "CreateAssertion", "CreateActivity"];
    for h in ["", "#assert0", "#assert0#proposition", "a b", "ä", "h"] {
        for f in families {
            emit(env, plan(true, vec![declare(f, h), target_where("Archive", eh(h), None)]), "handle-spelling");
            for g in families {
                emit(env, plan(true, vec![declare(f, h), declare(g, h)]), "handle-declared-twice");
                emit(env, plan(true, vec![declare(f, h), target_where("Tombstone", ep("x"), None), declare(g, h)]), "handle-declared-twice");
            }
        }
    }
    // an anonymous ENSURE PROPOSITION never collides; a handle is visible before its declaration and
    // never leaks out of another clause's WHERE
    emit(env, plan(true, vec![ensure_proposition(None, tparam("s"), json!({"Literal": "a"}), tparam("o")), ensure_proposition(None, tparam("s"), json!({"Literal": "a"}), tparam("o"))]), "handle-scope");
    emit(env, plan(true, vec![target_where("Archive", eh("late"), None), create_concept("late")]), "handle-scope");
    for later in [target_where("Tombstone", eh("t"), None), purge(eh("t"), None, "PURGE"), target_by("SupersedeAssertion", ep("a"), eh("t")), merge(eh("t"), ep("b"), None),
        transition(eh("t")), update(ep("x"), vec![update_action(Block::Attributes, &[("a".to_string(), handle("t"))], None)], None)] {
        emit(env, plan(true, vec![target_where("Archive", eh("t"), Some(json!([w_kind("Concept", "t")]))), later.clone()]), "handle-scope");
        emit(env, plan(true, vec![later, target_where("Archive", eh("t"), Some(json!([w_kind("Concept", "t")])))]), "handle-scope");
    }
    ops
}

/// UPDATEs whose target kind only the engine can know: every element kind × every action × field
/// names of every class × the JSON shapes `set_fields` distinguishes, by parameter and by literal id.
fn runtime_cases() -> Vec<String> {
    let mut ops = Vec::new();
    let kinds = ["Concept", "Proposition", "Assertion", "Evidence", "Activity"];
    let values: Vec<Value> = vec![lit("x"), json!({"Value": {"Array": [{"String": "a"}]}}), num(3), json!({"Value": "Null"}), param("ps"), param("pa"), param("pn"),
        json!({"Value": {"Object": {"a": {"Number": 1}}}})];
    let mut names: Vec<&str> = vec!["name", "canonical_id", "aliases", "key", "client_key", "schema_ref", "retention", "note", "id", "kind", "state", "version"];
    names.extend(PROTECTED);
    names.extend(PAYLOAD);
    for kind in kinds {
        for name in &names {
            for (i, v) in values.iter().enumerate() {
                // records refuse before looking at the field: a few shapes are enough there
                if kind != "Concept" && i > 2 {
                    continue;
                }
                ops.push(format!("exec {}", json!({"kind": kind, "action": "SetFields", "fields": [[name, v]], "literal_id": i % 2 == 1})));
            }
        }
        // several fields at once: the map is walked in key order and the first refusal wins
        for fs in [
            json!([["name", lit("n")], ["aliases", json!({"Value": {"Array": [{"String": "a"}]}})]]),
            json!([["name", num(3)], ["key", lit("k")]]),
            json!([["zzz", lit("n")], ["key", lit("k")]]),
            json!([["name", lit("n")], ["stance", lit("oppose")], ["canonical_id", lit("c")]]),
            json!([["retention", lit("n")], ["_system", lit("k")], ["aliases", lit("not-an-array")]]),
            json!([]),
        ] {
            ops.push(format!("exec {}", json!({"kind": kind, "action": "SetFields", "fields": fs, "literal_id": false})));
        }
        for action in ["SetAttributes", "UnsetAttributes", "SetFacet", "UnsetFacet", "SetStructural", "UnsetStructural"] {
            for literal in [false, true] {
                ops.push(format!("exec {}", json!({"kind": kind, "action": action, "fields": [], "literal_id": literal})));
            }
        }
        for name in ["governance", "_system", "stance", "payload"] {
            ops.push(format!("exec {}", json!({"kind": kind, "action": "SetAttributes", "fields": [[name, lit("x")]], "literal_id": false})));
        }
    }
    ops
}

fn main() {
    let args = Args::parse();
    let rule = "non-trivial = a command accepted by parse_kip / validate_command that carries at least one assignment block, structural entry, \
                selection block, handle reference, ENSURE PROPOSITION or PURGE (i.e. something the guards had to look at and the oracle walked), \
                or an ASSERT whose expansion was compared; distinct after serde canonicalisation of the accepted tree";
    let report = Report::new("C16", &args, rule);
    // one real FILTER tree, so that generated selections can carry a filter clause
    let filter_sample = match parse_kip("FIND(?t) WHERE { ?t {type: \"T\"} FILTER(?t.score > 1) }") {
        Ok(cmd) => serde_json::to_value(&cmd).ok().and_then(|v| v.pointer("/Kql/where_clauses/1").cloned()).expect("filter sample"),
        Err(e) => panic!("cannot build the FILTER sample: {e}"),
    };
    let mut env = Env { model: ModelProc::from_args(&args), report, filter_sample, seen_failure_keys: Default::default(), rt: None, world: None };
    env.report.max_samples = 8;

    if let Some(path) = &args.replay {
        for op in vh_common::read_replay(path) {
            env.eval(&op);
        }
        env.report.write(&args);
        return;
    }

    if let Some(dir) = &args.corpus {
        for (_, ops) in vh_common::read_corpus(dir) {
            for op in ops {
                env.report.hit("corpus_ops");
                env.eval(&op);
            }
        }
    }

    let thorough = args.thorough() || args.focus.is_some();
    let ops = matrix(&mut env, thorough);
    env.report.hit_n("generated:matrix_ops", ops.len() as u64);
    for op in &ops {
        env.eval(op);
    }
    let ops = selections(&mut env);
    env.report.hit_n("generated:selection_ops", ops.len() as u64);
    for op in &ops {
        env.eval(op);
    }
    let ops = asserts(thorough);
    env.report.hit_n("generated:assert_ops", ops.len() as u64);
    for op in &ops {
        env.eval(op);
    }
    oracle_selftest(&mut env.report);
    let ops = multi_block(&mut env);
    env.report.hit_n("generated:multi_block_ops", ops.len() as u64);
    for op in &ops {
        env.eval(op);
    }
    let ops = shapes(&mut env);
    env.report.hit_n("generated:shape_ops", ops.len() as u64);
    for op in &ops {
        env.eval(op);
    }
    let ops = runtime_cases();
    env.report.hit_n("generated:runtime_ops", ops.len() as u64);
    for op in &ops {
        env.eval(op);
    }
    // the matrix, the selections and the ASSERT member subsets are enumerated completely
    env.report.exhaustive = true;

    let n = args.budget(6000, 400_000);
    for i in 0..n {
        let mut rng = Rng::for_case(args.seed, i);
        let mut cmd = random_plan(&mut rng);
        if thorough && i % 4 == 0 {
            // deeper plans: two or three plans' clauses in one transaction (up to 18 clauses)
            for _ in 0..1 + rng.usize(2) {
                let more = random_plan(&mut rng);
                let extra = more.pointer("/Kml/clauses").and_then(|c| c.as_array()).cloned().unwrap_or_default();
                if let Some(cs) = cmd.pointer_mut("/Kml/clauses").and_then(|c| c.as_array_mut()) {
                    cs.extend(extra);
                }
            }
        }
        fix_filters(&mut cmd, &env.filter_sample);
        let sp = [PLAIN, QUOTED, LOWER][rng.usize(3)];
        env.report.hit("generated:random_plan");
        for op in ops_of(&cmd, &[sp]) {
            env.eval(&op);
        }
    }
    env.report.notes.push(
        "exhaustive part: clause family × UPDATE target binding × block × field name (engine-owned ×6 spellings, immutable payload, ordinary) × key spelling \
         (bare / quoted) as text and as injected tree; selection blocks × 15 patterns × nesting depth 0–3 × 8 carriers; all 256 ASSERT member subsets. \
         Random part: multi-clause plans over handle graphs."
            .into(),
    );
    // model branches the run was expected to reach
    let mut expected: Vec<String> = vec!["model:plan:ok".into(), "model:export:ok".into(), "model:assert:ok".into(), "model:ensure:ok".into()];
    for t in ["syntax:empty_plan", "syntax:protected", "syntax:dup_key", "syntax:arity", "syntax:belief", "syntax:pred_path", "syntax:literal_subject", "syntax:upsert_identity", "syntax:empty_unset_structural",
        "syntax:pred_variable", "syntax:no_actions", "syntax:immutable_field", "syntax:structural_target", "syntax:foreign_path", "syntax:purge_confirm", "duplicate_handle:dup_handle", "reference:unbound"] {
        expected.push(format!("model:plan:err:{t}"));
    }
    for t in ["syntax:empty_export", "syntax:belief", "syntax:pred_path", "syntax:literal_subject"] {
        expected.push(format!("model:export:err:{t}"));
    }
    for t in ["unknown_member", "missing_by", "missing_mode", "bad_key", "bare_id", "pred_variable"] {
        expected.push(format!("model:assert:none:{t}"));
    }
    for t in ["bare_id", "pred_variable", "pred_path"] {
        expected.push(format!("model:ensure:none:{t}"));
    }
    for t in ["ok:core", "ok:attributes", "ok:facets", "ok:structural", "err:EpistemicRevisionRequired", "err:EvidenceCorrectionRequired", "err:InvalidLifecycleTransition", "err:ImmutableField", "err:TypeMismatch"] {
        expected.push(format!("model:exec:{t}"));
    }
    if env.model.is_some() && args.replay.is_none() {
        let unvisited: Vec<String> = expected.iter().filter(|k| !env.report.histogram.contains_key(*k)).cloned().collect();
        env.report.measured.insert("model_branches_expected".into(), json!(expected.len()));
        env.report.measured.insert("model_branches_unvisited".into(), json!(unvisited));
        let bad = env.report.histogram.iter().filter(|(k, _)| k.starts_with("model:") && (k.ends_with(":bad-op") || k.ends_with(":<driver-eof>"))).map(|(k, v)| format!("{k}={v}")).collect::<Vec<_>>();
        if !bad.is_empty() {
            env.report.disagreement("the driver could not read a request line", &bad, "an answer", "bad-op");
        }
    }
    for k in ["observed:accepted_key_near_miss_of_engine_owned_name", "observed:accepted_structural_field_named_like_engine_owned", "reason_unrecognised"] {
        let n = env.report.histogram.get(k).copied().unwrap_or(0);
        env.report.measured.insert(k.to_string(), json!(n));
    }
    env.report.write(&args);
}
