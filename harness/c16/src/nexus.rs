//! Run-time side of C16: the kind gate of the executor (`anda_cognitive_nexus::kml::update`) for an
//! UPDATE whose target kind the parser could not know (`UPDATE :id …`). A fresh in-memory Nexus holds
//! one element of every kind; each case runs one UPDATE through `parse_kip` + `Executor::execute`.
use anda_cognitive_nexus::{
    CognitiveNexus,
    nexus::DEFAULT_SPACE,
    profiles::COGNITIVE_MEMORY,
    schema::{PackageState, SchemaLock, SchemaPackage},
};
use anda_db::database::{AndaDB, DBConfig};
use anda_kip::{Executor, Request, Response, TopLevelStatus};
use object_store::memory::InMemory;
use serde_json::Value;
use std::collections::BTreeMap;
use std::sync::Arc;

const PROFILE_ID: &str = "kip://profiles/cognitive-memory";

pub struct World {
    pub nexus: CognitiveNexus,
    /// kind name ("Concept", …) → element id
    pub ids: BTreeMap<&'static str, String>,
}

#[derive(Debug, Clone)]
#[allow(dead_code)]
pub enum Outcome {
    Parse(String),
    Refused { code: String, message: String },
    Done { changed: bool },
}

impl World {
    pub async fn new(name: &str) -> World {
        let db = AndaDB::connect(Arc::new(InMemory::new()), DBConfig { name: name.to_string(), description: "vh".into(), ..Default::default() }).await.expect("db");
        let nexus = CognitiveNexus::connect(Arc::new(db)).await.expect("nexus");
        nexus.install_package(&SchemaPackage::parse(COGNITIVE_MEMORY).expect("profile"), "vh").await.expect("install");
        let mut lock = SchemaLock::default();
        lock.packages.insert(PROFILE_ID.to_string(), "2.0.0".to_string());
        lock.states.insert(PROFILE_ID.to_string(), PackageState::Active);
        nexus.activate_schema(DEFAULT_SPACE, lock).await.expect("activate");
        let mut w = World { nexus, ids: BTreeMap::new() };
        let setup = "MUTATE { CREATE CONCEPT ?a { TYPE \"Person\" NAME \"alice\" } CREATE CONCEPT ?b { TYPE \"Preference\" NAME \"dark\" } \
                     ENSURE PROPOSITION ?p (?a, \"prefers\", ?b) \
                     CREATE EVIDENCE ?e { SET FIELDS {evidence_class: \"message\", payload: \"seen\"} } \
                     CREATE ASSERTION ?s { SET FIELDS {proposition: ?p, asserted_by: ?a, stance: \"support\", mode: \"stated\", confidence: 0.9} } \
                     CREATE ACTIVITY ?x { SET FIELDS {activity_class: \"reflection\", parameters_digest: \"d1\"} } }";
        let resp = w.run(setup, &BTreeMap::new()).await.expect("setup parses");
        assert!(resp.status == TopLevelStatus::Succeeded, "setup failed: {:?}", resp.error.or_else(|| resp.results.iter().find_map(|r| r.error.clone())));
        let result = resp.first_result().cloned().unwrap_or(Value::Null);
        for c in result["changes"].as_array().cloned().unwrap_or_default() {
            let id = c["id"].as_str().unwrap_or("").to_string();
            let kind = match id.chars().next() {
                Some('C') => "Concept",
                Some('P') => "Proposition",
                Some('E') => "Evidence",
                Some('A') => "Assertion",
                Some('X') => "Activity",
                _ => continue,
            };
            w.ids.entry(kind).or_insert(id);
        }
        assert_eq!(w.ids.len(), 5, "setup did not create one element of every kind: {:?}", w.ids);
        w
    }

    pub async fn run(&self, command: &str, params: &BTreeMap<String, Value>) -> Result<Response, String> {
        let mut request = Request::single(command);
        if !params.is_empty() {
            request.parameters = Some(params.iter().map(|(k, v)| (k.clone(), v.clone())).collect());
        }
        let parsed = anda_kip::parse_kip(command).map_err(|e| e.message.to_string())?;
        Ok(self.nexus.execute(parsed, &request, &request.operations[0]).await)
    }

    /// a pre-parsed tree handed straight to the executor (no `parse_kip`, no `validate_command` by the caller)
    pub async fn run_tree(&self, tree: &Value, text: &str, params: &BTreeMap<String, Value>) -> Result<Response, String> {
        let mut request = Request::single(text);
        if !params.is_empty() {
            request.parameters = Some(params.iter().map(|(k, v)| (k.clone(), v.clone())).collect());
        }
        let parsed: anda_kip::Command = serde_json::from_value(tree.clone()).map_err(|e| e.to_string())?;
        Ok(self.nexus.execute(parsed, &request, &request.operations[0]).await)
    }

    pub async fn exec(&self, command: &str, tree: Option<&Value>, params: &BTreeMap<String, Value>) -> Outcome {
        let run = match tree {
            Some(t) => self.run_tree(t, command, params).await,
            None => self.run(command, params).await,
        };
        let resp = match run {
            Err(e) => return Outcome::Parse(e),
            Ok(r) => r,
        };
        if resp.status != TopLevelStatus::Succeeded {
            let err = resp.error.clone().or_else(|| resp.results.iter().find_map(|r| r.error.clone()));
            return match err {
                Some(e) => Outcome::Refused { code: e.code.to_string(), message: e.message.clone() },
                None => Outcome::Refused { code: "?".into(), message: "failed without an error object".into() },
            };
        }
        let result = resp.first_result().cloned().unwrap_or(Value::Null);
        Outcome::Done { changed: result["changes"].as_array().is_some_and(|a| !a.is_empty()) }
    }

    /// the element as a KQL read renders it (what an observer can see of it)
    pub async fn view(&self, kind: &str) -> String {
        let id = &self.ids[kind];
        let kw = kind.to_ascii_uppercase();
        let q = if kind == "Proposition" { "FIND(?e) WHERE { ?e PROPOSITION (id: :id) }".to_string() } else { format!("FIND(?e) WHERE {{ ?e {kw} {{id: :id}} }}") };
        let mut params = BTreeMap::new();
        params.insert("id".to_string(), Value::String(id.clone()));
        match self.run(&q, &params).await {
            Err(e) => format!("parse-error: {e}"),
            Ok(r) => serde_json::to_string(&r.first_result().cloned().unwrap_or(Value::Null)).unwrap_or_default(),
        }
    }
}
