//! Independent oracle of C16: a generic walk over the `serde_json` encoding of a `Command` that
//! `parse_kip` / `validate_command` accepted. It shares no code with the validator, the projection
//! or the Lean model; its tables are written out here from the specification (§6.3, §12.5, §13.7,
//! §15.5), so dropping an entry from a table in the source makes the code disagree with it.

use serde_json::Value;
use std::collections::BTreeSet;

const ENGINE_OWNED: &[&str] = &["_system", "governance", "space_id", "space_seq"];
const ASSERTION_PAYLOAD: &[&str] =
    &["proposition_id", "proposition", "asserted_by", "stance", "mode", "confidence", "asserted_at", "valid_time", "evidence", "evidence_refs"];
const EVIDENCE_PAYLOAD: &[&str] = &["evidence_class", "payload", "content_digest", "media_type", "observed_at"];
const PROPOSITION_PAYLOAD: &[&str] = &["subject", "predicate", "object"];

#[derive(Debug, Clone)]
pub struct Violation {
    pub key: String,
    pub what: String,
}

fn v(key: &str, what: String) -> Violation {
    Violation { key: key.into(), what }
}

fn tagged(x: &Value) -> Option<(&str, &Value)> {
    match x {
        Value::Object(m) if m.len() == 1 => m.iter().next().map(|(k, v)| (k.as_str(), v)),
        _ => None,
    }
}

const MV_TAGS: &[&str] = &["Value", "Param", "Handle", "Variable", "Array", "Object", "Expr"];

/// An `Assignments` block: a JSON array of `[string, <MutationValue>]` pairs (non-empty).
fn as_assignment_block(x: &Value) -> Option<Vec<&str>> {
    let xs = x.as_array()?;
    if xs.is_empty() {
        return None;
    }
    let mut keys = Vec::new();
    for kv in xs {
        let kv = kv.as_array()?;
        if kv.len() != 2 {
            return None;
        }
        let k = kv[0].as_str()?;
        let (tag, _) = tagged(&kv[1])?;
        if !MV_TAGS.contains(&tag) {
            return None;
        }
        keys.push(k);
    }
    Some(keys)
}

fn check_keys(site: &str, keys: &[&str], out: &mut Vec<Violation>) {
    let mut seen = BTreeSet::new();
    for k in keys {
        if ENGINE_OWNED.contains(k) {
            out.push(v("engine-owned-key", format!("{site}: engine-owned field `{k}` is written/unset by an accepted command")));
        }
        if !seen.insert(*k) {
            out.push(v("duplicate-key", format!("{site}: key `{k}` appears twice in one block")));
        }
    }
}

/// Every assignment block and unset list below `x` (outside literal payloads and WHERE blocks).
fn walk_blocks(path: &str, x: &Value, out: &mut Vec<Violation>) {
    if let Some(keys) = as_assignment_block(x) {
        check_keys(path, &keys, out);
    }
    match x {
        Value::Object(m) => {
            for (k, child) in m {
                // literal payloads and nested object values are data, not blocks
                if k == "Value" || k == "Literal" || k == "where_clauses" || k == "Object" {
                    continue;
                }
                let here = format!("{path}.{k}");
                if (k == "unset_attributes" || k == "UnsetAttributes" || k == "fields")
                    && let Some(xs) = child.as_array()
                    && xs.iter().all(|s| s.is_string())
                {
                    let keys: Vec<&str> = xs.iter().filter_map(|s| s.as_str()).collect();
                    check_keys(&here, &keys, out);
                }
                walk_blocks(&here, child, out);
            }
        }
        Value::Array(xs) => {
            for (i, child) in xs.iter().enumerate() {
                walk_blocks(&format!("{path}[{i}]"), child, out);
            }
        }
        _ => {}
    }
}

/// Anything named Belief / BeliefSlot, a path predicate, or a literal subject, at any depth of a
/// selection block or of an exact tuple.
fn walk_exact(path: &str, x: &Value, out: &mut Vec<Violation>) {
    match x {
        Value::Object(m) => {
            if m.contains_key("Belief") || m.contains_key("BeliefSlot") {
                out.push(v("belief-in-selection", format!("{path}: a BELIEF pattern inside a mutation / export selection")));
            }
            if m.contains_key("subject") && m.contains_key("predicate") && m.contains_key("object") {
                if let Some(("Literal", _)) = tagged(&m["subject"]) {
                    out.push(v("literal-subject", format!("{path}: a Proposition tuple whose subject is a Literal")));
                }
                if let Some(("Path", _)) = tagged(&m["predicate"]) {
                    out.push(v("path-predicate", format!("{path}: a raw predicate path in an exact position")));
                }
            }
            for (k, child) in m {
                if k == "Literal" || k == "Filter" {
                    continue;
                }
                walk_exact(&format!("{path}.{k}"), child, out);
            }
        }
        Value::Array(xs) => {
            for (i, child) in xs.iter().enumerate() {
                walk_exact(&format!("{path}[{i}]"), child, out);
            }
        }
        _ => {}
    }
}

/// `{"Handle": name}` anywhere outside literal payloads and WHERE blocks.
fn handle_refs(x: &Value, out: &mut BTreeSet<String>) {
    match x {
        Value::Object(m) => {
            if m.len() == 1
                && let Some(Value::String(h)) = m.get("Handle")
            {
                out.insert(h.clone());
            }
            for (k, child) in m {
                if k == "Value" || k == "Literal" || k == "where_clauses" {
                    continue;
                }
                handle_refs(child, out);
            }
        }
        Value::Array(xs) => xs.iter().for_each(|c| handle_refs(c, out)),
        _ => {}
    }
}

/// Every variable a selection block mentions as a binding position: `variable: "x"` fields and
/// `{"Variable": "x"}` with a string payload (FILTER operands carry a path object and do not bind).
fn where_vars(x: &Value, out: &mut BTreeSet<String>) {
    match x {
        Value::Object(m) => {
            if let Some(Value::String(s)) = m.get("variable") {
                out.insert(s.clone());
            }
            if m.len() == 1
                && let Some(Value::String(s)) = m.get("Variable")
            {
                out.insert(s.clone());
            }
            for (k, child) in m {
                if k == "Literal" || k == "Filter" {
                    continue;
                }
                where_vars(child, out);
            }
        }
        Value::Array(xs) => xs.iter().for_each(|c| where_vars(c, out)),
        _ => {}
    }
}

/// Every kind the selection binds `var` to, as the variable of a kind pattern at any depth.
fn kinds_of(var: &str, x: &Value, out: &mut BTreeSet<&'static str>) {
    match x {
        Value::Object(m) => {
            for (k, child) in m {
                let kind = match k.as_str() {
                    "Concept" => Some("Concept"),
                    "Assertion" => Some("Assertion"),
                    "Evidence" => Some("Evidence"),
                    "Activity" => Some("Activity"),
                    "Proposition" => Some("Proposition"),
                    _ => None,
                };
                if let Some(kind) = kind
                    && child.get("variable").and_then(|s| s.as_str()) == Some(var)
                    && child.get("matcher").is_some()
                {
                    out.insert(kind);
                }
                if k == "Literal" || k == "Filter" {
                    continue;
                }
                kinds_of(var, child, out);
            }
        }
        Value::Array(xs) => xs.iter().for_each(|c| kinds_of(var, c, out)),
        _ => {}
    }
}

fn immutable_of(kind: &str) -> &'static [&'static str] {
    match kind {
        "Assertion" => ASSERTION_PAYLOAD,
        "Evidence" => EVIDENCE_PAYLOAD,
        "Proposition" => PROPOSITION_PAYLOAD,
        _ => &[],
    }
}

fn declared_handle(tag: &str, p: &Value) -> Option<String> {
    match tag {
        "CreateConcept" | "UpsertConcept" | "CreateEvidence" | "CreateAssertion" | "CreateActivity" | "EnsureProposition" => {
            p.get("handle").and_then(|h| h.as_str()).map(|s| s.to_string())
        }
        _ => None,
    }
}

fn check_update(i: usize, p: &Value, out: &mut Vec<Violation>) {
    let Some(("Handle", Value::String(target))) = p.get("target").and_then(tagged) else { return };
    let Some(ws) = p.get("where_clauses").filter(|w| !w.is_null()) else { return };
    let mut kinds = BTreeSet::new();
    kinds_of(target, ws, &mut kinds);
    let first_only = kinds.len() > 1;
    for action in p.get("actions").and_then(|a| a.as_array()).into_iter().flatten() {
        let Some((tag, body)) = tagged(action) else { continue };
        match tag {
            "SetFields" => {
                for k in as_assignment_block(body).unwrap_or_default() {
                    for kind in &kinds {
                        if immutable_of(kind).contains(&k) {
                            let key = if first_only { "update-kind-shadowed" } else { "immutable-payload" };
                            out.push(v(
                                key,
                                format!("clause {i}: UPDATE ?{target} bound as {kind} by its WHERE rewrites immutable payload field `{k}`"),
                            ));
                        }
                    }
                }
            }
            "SetStructural" | "UnsetStructural" => {
                for kind in &kinds {
                    if *kind != "Concept" {
                        let key = if first_only { "update-kind-shadowed" } else { "structural-on-record" };
                        out.push(v(key, format!("clause {i}: UPDATE ?{target} bound as {kind} by its WHERE mutates structural topology")));
                    }
                }
            }
            _ => {}
        }
    }
}

fn check_upsert(i: usize, p: &Value, out: &mut Vec<Violation>) {
    let ok = p.get("match").and_then(|m| m.as_object()).is_some_and(|m| {
        ["id", "key"].iter().any(|f| matches!(m.get(*f).and_then(tagged), Some(("Literal", _)) | Some(("Param", _))))
    });
    if !ok {
        out.push(v("upsert-without-identity", format!("clause {i}: UPSERT CONCEPT without a literal/parameter `id` or `key` selector")));
    }
}

/// All violations of the property on an accepted command.
pub fn check(cmd: &Value) -> Vec<Violation> {
    let mut out = Vec::new();
    let Some((family, body)) = tagged(cmd) else { return out };
    match family {
        "Kml" => {
            let clauses = body.get("clauses").and_then(|c| c.as_array()).cloned().unwrap_or_default();
            if clauses.is_empty() {
                out.push(v("empty-plan", "an accepted KML statement carries no mutation".into()));
            }
            let mut declared: BTreeSet<String> = BTreeSet::new();
            for (i, c) in clauses.iter().enumerate() {
                let Some((tag, p)) = tagged(c) else { continue };
                if let Some(h) = declared_handle(tag, p)
                    && !declared.insert(h.clone())
                {
                    out.push(v("handle-bound-twice", format!("clause {i}: handle ?{h} is bound twice in one plan")));
                }
            }
            for (i, c) in clauses.iter().enumerate() {
                let Some((tag, p)) = tagged(c) else { continue };
                walk_blocks(&format!("clause {i} {tag}"), p, &mut out);
                let mut allowed = declared.clone();
                if let Some(ws) = p.get("where_clauses").filter(|w| !w.is_null()) {
                    walk_exact(&format!("clause {i} {tag}.where"), ws, &mut out);
                    where_vars(ws, &mut allowed);
                }
                let mut refs = BTreeSet::new();
                handle_refs(p, &mut refs);
                for h in refs {
                    if !allowed.contains(&h) {
                        out.push(v("handle-unbound", format!("clause {i} {tag}: ?{h} is bound neither by the plan nor by the clause's WHERE")));
                    }
                }
                match tag {
                    "Update" => {
                        check_update(i, p, &mut out);
                        if p.get("actions").and_then(|a| a.as_array()).is_none_or(|a| a.is_empty()) {
                            out.push(v("update-without-action", format!("clause {i}: UPDATE without an action")));
                        }
                    }
                    "UpsertConcept" => check_upsert(i, p, &mut out),
                    "EnsureProposition" => {
                        walk_exact(&format!("clause {i} EnsureProposition"), p, &mut out);
                        if let Some(("Variable", _)) = p.get("predicate").and_then(tagged) {
                            out.push(v("ensure-variable-predicate", format!("clause {i}: ENSURE PROPOSITION with a ?variable predicate")));
                        }
                    }
                    "Purge" => {
                        if p.get("confirm").and_then(|c| c.as_str()) != Some("PURGE") {
                            out.push(v("purge-unconfirmed", format!("clause {i}: PURGE accepted without the literal confirmation")));
                        }
                    }
                    _ => {}
                }
            }
        }
        "Meta" => {
            if let Some(("ExportCapsule", p)) = tagged(body) {
                let ws = p.get("where_clauses").cloned().unwrap_or(Value::Null);
                if ws.as_array().is_none_or(|a| a.is_empty()) {
                    out.push(v("export-unbounded", "EXPORT CAPSULE accepted without a selection pattern".into()));
                }
                walk_exact("export.where", &ws, &mut out);
            }
        }
        _ => {}
    }
    out
}

/// Observation only (not a violation): a structural entry whose field symbol is an engine-owned name.
pub fn structural_engine_named(cmd: &Value) -> u64 {
    fn walk(x: &Value, n: &mut u64) {
        match x {
            Value::Object(m) => {
                if m.contains_key("field")
                    && m.contains_key("value")
                    && let Some(("Name", Value::String(s))) = m.get("field").and_then(tagged)
                    && ENGINE_OWNED.contains(&s.as_str())
                {
                    *n += 1;
                }
                m.values().for_each(|c| walk(c, n));
            }
            Value::Array(xs) => xs.iter().for_each(|c| walk(c, n)),
            _ => {}
        }
    }
    let mut n = 0;
    walk(cmd, &mut n);
    n
}

/// Observation only: assignment / unset keys that are a near miss of an engine-owned name (other case,
/// dotted prefix / suffix, padding). The engine matches keys exactly, so these name other fields.
pub fn near_miss_keys(cmd: &Value) -> u64 {
    fn near(k: &str) -> bool {
        if ENGINE_OWNED.contains(&k) {
            return false;
        }
        let low = k.trim().to_ascii_lowercase();
        ENGINE_OWNED.iter().any(|e| low == *e || low.split('.').any(|seg| seg == *e))
    }
    fn walk(x: &Value, n: &mut u64) {
        if let Some(keys) = as_assignment_block(x) {
            *n += keys.iter().filter(|k| near(k)).count() as u64;
        }
        match x {
            Value::Object(m) => {
                for (k, c) in m {
                    if k == "Value" || k == "Literal" || k == "where_clauses" || k == "Object" {
                        continue;
                    }
                    if (k == "unset_attributes" || k == "UnsetAttributes" || k == "fields")
                        && let Some(xs) = c.as_array()
                    {
                        *n += xs.iter().filter_map(|s| s.as_str()).filter(|k| near(k)).count() as u64;
                    }
                    walk(c, n);
                }
            }
            Value::Array(xs) => xs.iter().for_each(|c| walk(c, n)),
            _ => {}
        }
    }
    let mut n = 0;
    walk(cmd, &mut n);
    n
}

/// The ASSERT expansion, checked on the real clauses against what the author wrote (spec JSON).
/// `clauses` are the clauses the statement expanded to (already cut out of the plan).
pub fn check_assert_expansion(spec: &Value, seq: usize, clauses: &[Value]) -> Vec<Violation> {
    let mut out = Vec::new();
    let members: Vec<(&str, &Value)> = spec["members"]
        .as_array()
        .map(|xs| xs.iter().filter_map(|kv| Some((kv.get(0)?.as_str()?, kv.get(1)?))).collect())
        .unwrap_or_default();
    let get = |name: &str| members.iter().find(|(k, _)| *k == name).map(|(_, v)| *v);
    let want = 2 + usize::from(!spec["superseding"].is_null());
    if clauses.len() != want {
        out.push(v("assert-shape", format!("ASSERT expanded to {} clauses, expected {want}", clauses.len())));
        return out;
    }
    let handle = spec["handle"].as_str().map(|s| s.to_string()).unwrap_or_else(|| format!("#assert{seq}"));
    let prop = format!("{handle}#proposition");
    match tagged(&clauses[0]) {
        Some(("EnsureProposition", p)) => {
            if p["handle"].as_str() != Some(prop.as_str()) || p["subject"] != spec["subject"] || p["predicate"] != spec["predicate"] || p["object"] != spec["object"] {
                out.push(v("assert-shape", "ENSURE PROPOSITION of the expansion does not carry the written tuple / synthesized handle".into()));
            }
        }
        _ => out.push(v("assert-shape", "first clause of the expansion is not ENSURE PROPOSITION".into())),
    }
    match tagged(&clauses[1]) {
        Some(("CreateAssertion", p)) => {
            if p["handle"].as_str() != Some(handle.as_str()) {
                out.push(v("assert-shape", "CREATE ASSERTION of the expansion has the wrong handle".into()));
            }
            let mut expect: Vec<(String, Value)> = vec![
                ("proposition".into(), serde_json::json!({"Handle": prop})),
                ("asserted_by".into(), get("by").cloned().unwrap_or(Value::Null)),
                ("mode".into(), get("mode").cloned().unwrap_or(Value::Null)),
                ("stance".into(), get("stance").cloned().unwrap_or(serde_json::json!({"Value": {"String": "support"}}))),
            ];
            for (m, f) in [("confidence", "confidence"), ("at", "asserted_at"), ("valid", "valid_time")] {
                if let Some(x) = get(m) {
                    expect.push((f.into(), x.clone()));
                }
            }
            let got: Vec<(String, Value)> = p["set_fields"]
                .as_array()
                .map(|xs| xs.iter().filter_map(|kv| Some((kv.get(0)?.as_str()?.to_string(), kv.get(1)?.clone()))).collect())
                .unwrap_or_default();
            if got != expect {
                out.push(v(
                    "assert-fields",
                    format!("CREATE ASSERTION carries {:?}, the author wrote {:?}", got.iter().map(|x| &x.0).collect::<Vec<_>>(), expect.iter().map(|x| &x.0).collect::<Vec<_>>()),
                ));
            }
            let cited: usize = match get("evidence") {
                None => 0,
                Some(x) => match tagged(x) {
                    Some(("Array", Value::Array(items))) => items.len(),
                    Some(("Value", inner)) => match tagged(inner) {
                        Some(("Array", Value::Array(items))) => items.len(),
                        _ => 1,
                    },
                    _ => 1,
                },
            };
            let edges = p["set_structural"].as_array().cloned().unwrap_or_default();
            if edges.len() != cited {
                out.push(v("assert-evidence", format!("{} evidence edges for {cited} cited artifacts", edges.len())));
            }
            for e in &edges {
                if e["field"] != serde_json::json!({"Name": "evidence"}) || e["options"] != serde_json::json!({"role": {"Value": {"String": "support"}}}) {
                    out.push(v("assert-evidence", "an evidence edge of the expansion is not (\"evidence\", ref) {role: \"support\"}".into()));
                }
            }
            if !p["set_facets"].as_array().is_some_and(|f| f.is_empty()) {
                out.push(v("assert-shape", "the expansion fabricated a facet".into()));
            }
            let want_key = get("key").map(|k| match tagged(k) {
                Some(("Param", n)) => serde_json::json!({"Param": n}),
                Some(("Value", lit)) => serde_json::json!({"Literal": lit}),
                _ => Value::Null,
            });
            if p["client_key"] != want_key.unwrap_or(Value::Null) {
                out.push(v("assert-fields", "client_key of the expansion is not the written key member".into()));
            }
        }
        _ => out.push(v("assert-shape", "second clause of the expansion is not CREATE ASSERTION".into())),
    }
    if want == 3 {
        match tagged(&clauses[2]) {
            Some(("SupersedeAssertion", p)) => {
                if p["target"] != spec["superseding"] || p["by"] != serde_json::json!({"Handle": handle}) {
                    out.push(v("assert-shape", "SUPERSEDE of the expansion does not name the written target / the new assertion".into()));
                }
            }
            _ => out.push(v("assert-shape", "third clause of the expansion is not SUPERSEDE ASSERTION".into())),
        }
    }
    out
}
