//! Generators of C16 cases. Every generated command is a `serde_json` tree in the encoding of
//! `anda_kip::Command`; the same tree is injected (`json` op) and rendered as KIP text (`text` op).

use serde_json::{Value, json};
use vh_common::Rng;

pub const PROTECTED: &[&str] = &["_system", "governance", "space_id", "space_seq"];
pub const PAYLOAD: &[&str] = &[
    "proposition_id", "proposition", "asserted_by", "stance", "mode", "confidence", "asserted_at", "valid_time", "evidence", "evidence_refs",
    "evidence_class", "payload", "content_digest", "media_type", "observed_at", "subject", "predicate", "object",
];
pub const ORDINARY: &[&str] = &["name", "note", "score", "key", "retention", "aliases"];

pub fn lit(s: &str) -> Value {
    json!({"Value": {"String": s}})
}
pub fn num(n: i64) -> Value {
    json!({"Value": {"Number": n}})
}
pub fn param(p: &str) -> Value {
    json!({"Param": p})
}
pub fn handle(h: &str) -> Value {
    json!({"Handle": h})
}
pub fn dotted(v: &str, field: &str) -> Value {
    json!({"Variable": {"var": v, "path": [{"Field": field}]}})
}
pub fn expr_add(v: &str) -> Value {
    json!({"Expr": {"Function": {"func": "Add", "args": [{"Variable": {"var": v, "path": [{"Field": "score"}]}}, {"Number": 1}]}}})
}
pub fn expr_bad_arity(v: &str) -> Value {
    json!({"Expr": {"Function": {"func": "Clamp", "args": [{"Variable": {"var": v, "path": [{"Field": "score"}]}}, {"Number": 1}]}}})
}
pub fn expr_nested(v: &str, inner_ok: bool) -> Value {
    let inner = if inner_ok {
        json!({"Function": {"func": "Mul", "args": [{"Variable": {"var": v, "path": [{"Field": "score"}, {"Key": "k"}]}}, {"Param": "f"}]}})
    } else {
        json!({"Function": {"func": "Mul", "args": [{"Param": "f"}]}})
    };
    json!({"Expr": {"Function": {"func": "Coalesce", "args": [inner, {"Number": 0}]}}})
}

pub fn plan(explicit: bool, clauses: Vec<Value>) -> Value {
    json!({"Kml": {"explicit_transaction": explicit, "clauses": clauses}})
}

pub fn create_concept(h: &str) -> Value {
    json!({"CreateConcept": {"handle": h, "type": {"Name": "Thing"}, "client_key": null, "name": null,
        "set_fields": null, "set_attributes": null, "set_facets": [], "set_structural": null}})
}
pub fn upsert_concept(h: &str) -> Value {
    json!({"UpsertConcept": {"handle": h, "match": {"key": {"Literal": {"String": "k1"}}}, "expect_version": null,
        "set_fields": null, "set_attributes": null, "set_facets": [], "unset_attributes": null, "unset_facets": [],
        "set_structural": null, "unset_structural": null}})
}
pub fn record(kind: &str, h: &str) -> Value {
    json!({kind: {"handle": h, "client_key": null, "set_fields": null, "set_facets": [], "set_structural": null}})
}
pub fn ensure_proposition(h: Option<&str>, s: Value, p: Value, o: Value) -> Value {
    json!({"EnsureProposition": {"handle": h, "subject": s, "predicate": p, "object": o, "expect_version": null}})
}
pub fn update(target: Value, actions: Vec<Value>, wh: Option<Value>) -> Value {
    json!({"Update": {"target": target, "expect_version": null, "actions": actions, "where_clauses": wh, "limit": null}})
}
pub fn target_where(kind: &str, target: Value, wh: Option<Value>) -> Value {
    json!({kind: {"target": target, "where_clauses": wh, "limit": null, "expect_state": null}})
}
pub fn target_by(kind: &str, target: Value, by: Value) -> Value {
    json!({kind: {"target": target, "by": by, "expect_state": null}})
}
pub fn transition(target: Value) -> Value {
    json!({"TransitionActivity": {"target": target, "to": {"Literal": {"String": "completed"}}, "set_fields": null, "set_structural": null, "expect_state": null}})
}
pub fn set_retention(target: Value, values: Value, wh: Option<Value>) -> Value {
    json!({"SetRetention": {"target": target, "values": values, "where_clauses": wh, "limit": null, "expect_version": null}})
}
pub fn purge(target: Value, wh: Option<Value>, confirm: &str) -> Value {
    json!({"Purge": {"target": target, "where_clauses": wh, "limit": null, "reference_policy": null, "confirm": confirm}})
}
pub fn merge(source: Value, into: Value, wh: Option<Value>) -> Value {
    json!({"MergeConcept": {"source": source, "into": into, "where_clauses": wh, "expect_version": null}})
}
pub fn export(wh: Value) -> Value {
    json!({"Meta": {"ExportCapsule": {"target": {"Param": "out"}, "where_clauses": wh, "options": null, "as_of": null}}})
}

pub fn eh(h: &str) -> Value {
    json!({"Handle": h})
}
pub fn ep(p: &str) -> Value {
    json!({"Param": p})
}
pub fn eid(s: &str) -> Value {
    json!({"Id": s})
}

// ---- WHERE patterns --------------------------------------------------------------------------

pub fn w_kind(kind: &str, var: &str) -> Value {
    json!({kind: {"variable": var, "matcher": {"type": {"Literal": {"String": "T"}}}}})
}
pub fn w_prop(var: Option<&str>, s: Value, p: Value, o: Value) -> Value {
    json!({"Proposition": {"variable": var, "matcher": {"Tuple": {"subject": s, "predicate": p, "object": o}}}})
}
pub fn atom(s: &str) -> Value {
    json!({"Atom": {"Literal": s}})
}
pub fn path2(a: &str, b: &str) -> Value {
    json!({"Path": [{"predicate": {"Literal": a}, "hops": null}, {"predicate": {"Literal": b}, "hops": null}]})
}
pub fn path_hops(a: &str) -> Value {
    json!({"Path": [{"predicate": {"Literal": a}, "hops": {"min": 1, "max": 3}}]})
}
pub fn tvar(v: &str) -> Value {
    json!({"Variable": v})
}
pub fn tparam(v: &str) -> Value {
    json!({"Param": v})
}
pub fn tlit(s: &str) -> Value {
    json!({"Literal": {"String": s}})
}

/// How the WHERE of an `UPDATE ?t` binds (or does not bind) the kind of its target.
pub fn update_targets() -> Vec<(&'static str, Value, Option<Value>)> {
    let t = "t";
    let mut out: Vec<(&'static str, Value, Option<Value>)> = vec![
        ("param", ep("t"), None),
        ("id", eid("el-1"), None),
        ("param+where", ep("t"), Some(json!([w_kind("Assertion", "x")]))),
    ];
    for kind in ["Concept", "Assertion", "Evidence", "Activity"] {
        out.push((kind, eh(t), Some(json!([w_kind(kind, t)]))));
    }
    out.push(("Proposition", eh(t), Some(json!([w_prop(Some(t), tvar("s"), atom("likes"), tvar("o"))]))));
    out.push(("prop-id", eh(t), Some(json!([{"Proposition": {"variable": t, "matcher": {"Id": {"Param": "pid"}}}}]))));
    out.push(("structural-var", eh(t), Some(json!([{"Structural": {"variable": t, "subject": tvar("a"), "field": {"Name": "has_step"}, "object": tvar("b")}}]))));
    out.push(("via-matcher", eh(t), Some(json!([{"Assertion": {"variable": "a", "matcher": {"proposition": {"Variable": t}}}}]))));
    out.push(("union-assertion", eh(t), Some(json!([{"Union": [w_kind("Assertion", t)]}]))));
    out.push(("optional-evidence", eh(t), Some(json!([{"Optional": [w_kind("Evidence", t)]}, {"Filter": null}]))));
    out.push(("not-concept+assertion", eh(t), Some(json!([{"Not": [w_kind("Concept", t)]}, w_kind("Assertion", t)]))));
    out.push(("optional-concept+evidence", eh(t), Some(json!([{"Optional": [w_kind("Concept", t)]}, w_kind("Evidence", t)]))));
    out.push(("concept+proposition", eh(t), Some(json!([w_kind("Concept", t), w_prop(Some(t), tvar("s"), atom("likes"), tvar("o"))]))));
    out.push(("activity+concept", eh(t), Some(json!([w_kind("Activity", t), w_kind("Concept", t)]))));
    out
}

#[derive(Clone, Copy, PartialEq, Eq, Debug)]
pub enum Block {
    Fields,
    Attributes,
    Facet,
    UnsetAttributes,
    UnsetFacet,
    SetStructural,
    UnsetStructural,
}
pub const BLOCKS: &[Block] =
    &[Block::Fields, Block::Attributes, Block::Facet, Block::UnsetAttributes, Block::UnsetFacet, Block::SetStructural, Block::UnsetStructural];

fn asg(entries: &[(String, Value)]) -> Value {
    Value::Array(entries.iter().map(|(k, v)| json!([k, v])).collect())
}
fn keys(entries: &[(String, Value)]) -> Value {
    Value::Array(entries.iter().map(|(k, _)| json!(k)).collect())
}
fn edges(entries: &[(String, Value)], options: Option<Value>) -> Value {
    Value::Array(entries.iter().map(|(k, v)| json!({"field": {"Name": k}, "value": v, "options": options})).collect())
}
fn removals(entries: &[(String, Value)]) -> Value {
    Value::Array(entries.iter().map(|(k, v)| json!({"field": {"Name": k}, "value": v})).collect())
}

pub const FAMILIES: &[&str] = &["CreateConcept", "UpsertConcept", "CreateEvidence", "CreateAssertion", "CreateActivity", "TransitionActivity", "SetRetention"];

/// One clause of `family` carrying `entries` in `block`; `None` when the family has no such block.
pub fn site_clause(family: &str, block: Block, entries: &[(String, Value)], options: Option<Value>) -> Option<Value> {
    let (mut clause, field, content): (Value, &str, Value) = match (family, block) {
        ("CreateConcept", Block::Fields) => (create_concept("s"), "set_fields", asg(entries)),
        ("CreateConcept", Block::Attributes) => (create_concept("s"), "set_attributes", asg(entries)),
        ("CreateConcept", Block::Facet) => (create_concept("s"), "set_facets", json!([{"facet": {"Name": "MnemonicState"}, "values": asg(entries)}])),
        ("CreateConcept", Block::SetStructural) => (create_concept("s"), "set_structural", edges(entries, options)),
        ("UpsertConcept", Block::Fields) => (upsert_concept("s"), "set_fields", asg(entries)),
        ("UpsertConcept", Block::Attributes) => (upsert_concept("s"), "set_attributes", asg(entries)),
        ("UpsertConcept", Block::Facet) => (upsert_concept("s"), "set_facets", json!([{"facet": {"Name": "MnemonicState"}, "values": asg(entries)}])),
        ("UpsertConcept", Block::UnsetAttributes) => (upsert_concept("s"), "unset_attributes", keys(entries)),
        ("UpsertConcept", Block::UnsetFacet) => (upsert_concept("s"), "unset_facets", json!([{"facet": {"Name": "MnemonicState"}, "fields": keys(entries)}])),
        ("UpsertConcept", Block::SetStructural) => (upsert_concept("s"), "set_structural", edges(entries, options)),
        ("UpsertConcept", Block::UnsetStructural) => (upsert_concept("s"), "unset_structural", removals(entries)),
        ("CreateEvidence" | "CreateAssertion" | "CreateActivity", Block::Fields) => (record(family, "s"), "set_fields", asg(entries)),
        ("CreateEvidence" | "CreateAssertion" | "CreateActivity", Block::Facet) => {
            (record(family, "s"), "set_facets", json!([{"facet": {"Name": "MnemonicState"}, "values": asg(entries)}]))
        }
        ("CreateEvidence" | "CreateAssertion" | "CreateActivity", Block::SetStructural) => (record(family, "s"), "set_structural", edges(entries, options)),
        ("TransitionActivity", Block::Fields) => (transition(ep("act")), "set_fields", asg(entries)),
        ("TransitionActivity", Block::SetStructural) => (transition(ep("act")), "set_structural", edges(entries, options)),
        ("SetRetention", Block::Fields) => (set_retention(ep("el"), json!([]), None), "values", asg(entries)),
        _ => return None,
    };
    let (_, body) = clause.as_object_mut()?.iter_mut().next()?;
    body[field] = content;
    Some(clause)
}

pub fn update_action(block: Block, entries: &[(String, Value)], options: Option<Value>) -> Value {
    match block {
        Block::Fields => json!({"SetFields": asg(entries)}),
        Block::Attributes => json!({"SetAttributes": asg(entries)}),
        Block::Facet => json!({"SetFacet": {"facet": {"Name": "MnemonicState"}, "values": asg(entries)}}),
        Block::UnsetAttributes => json!({"UnsetAttributes": keys(entries)}),
        Block::UnsetFacet => json!({"UnsetFacet": {"facet": {"Name": "MnemonicState"}, "fields": keys(entries)}}),
        Block::SetStructural => json!({"SetStructural": edges(entries, options)}),
        Block::UnsetStructural => json!({"UnsetStructural": removals(entries)}),
    }
}

/// Spellings of a field name: the name itself and near misses an engine would treat as another key.
pub fn spellings(name: &str) -> Vec<(String, &'static str)> {
    let mut cap = name.to_string();
    if let Some(first) = cap.chars().find(|c| c.is_ascii_alphabetic()) {
        let idx = cap.find(first).unwrap();
        cap.replace_range(idx..idx + 1, &first.to_ascii_uppercase().to_string());
    }
    vec![
        (name.to_string(), "exact"),
        (name.to_ascii_uppercase(), "upper"),
        (cap, "capital"),
        (format!("{name}.role"), "dotted-suffix"),
        (format!("facets.{name}"), "dotted-prefix"),
        (format!("{name} "), "trailing-space"),
    ]
}

// ---- random multi-clause plans ----------------------------------------------------------------

fn rand_value(rng: &mut Rng, handles: &[String], target: Option<&str>) -> Value {
    let pick_handle = |rng: &mut Rng| -> String {
        if !handles.is_empty() && rng.chance(5, 6) { rng.pick(handles).clone() } else { format!("u{}", rng.below(3)) }
    };
    match rng.below(12) {
        0 | 1 => lit("v"),
        2 => num(rng.range(-3, 9)),
        3 => param("p"),
        4 | 5 => handle(&pick_handle(rng)),
        6 => json!({"Array": [{"Handle": pick_handle(rng)}, {"Value": {"String": "x"}}]}),
        7 => json!({"Object": [["a", {"Param": "p"}], ["b", {"Array": [{"Handle": pick_handle(rng)}]}]]}),
        8 => json!({"Value": {"Array": [{"String": "a"}, {"Number": 2}]}}),
        9 => match target {
            Some(t) if rng.chance(4, 5) => dotted(t, "score"),
            _ => dotted("zz", "score"),
        },
        10 => match target {
            Some(t) if rng.chance(4, 5) => expr_add(t),
            _ => expr_add("zz"),
        },
        _ => {
            if rng.chance(1, 4) {
                expr_bad_arity(target.unwrap_or("zz"))
            } else {
                expr_nested(target.unwrap_or("zz"), rng.chance(3, 4))
            }
        }
    }
}

fn rand_key(rng: &mut Rng) -> String {
    match rng.below(20) {
        0 => rng.pick(PROTECTED).to_string(),
        1 => rng.pick(PAYLOAD).to_string(),
        2 => {
            let p: &str = PROTECTED[rng.usize(PROTECTED.len())];
            spellings(p)[1 + rng.usize(5)].0.clone()
        }
        _ => format!("k{}", rng.below(5)),
    }
}

fn rand_entries(rng: &mut Rng, handles: &[String], target: Option<&str>) -> Vec<(String, Value)> {
    let n = 1 + rng.usize(3);
    (0..n).map(|_| (rand_key(rng), rand_value(rng, handles, target))).collect()
}

fn rand_where(rng: &mut Rng, var: &str, depth: u32) -> Value {
    let mut out = Vec::new();
    let n = 1 + rng.usize(3);
    for _ in 0..n {
        let v = if rng.chance(2, 3) { var.to_string() } else { format!("w{}", rng.below(3)) };
        out.push(match rng.below(14) {
            0 | 1 => w_kind("Concept", &v),
            2 => w_kind("Assertion", &v),
            3 => w_kind("Evidence", &v),
            4 => w_kind("Activity", &v),
            5 => w_prop(Some(&v), tvar("s"), atom("likes"), tparam("o")),
            6 => w_prop(None, tvar(&v), if rng.chance(1, 6) { path2("a", "b") } else { atom("likes") }, if rng.chance(1, 6) { tlit("x") } else { tvar("o") }),
            7 => json!({"Structural": {"variable": null, "subject": tvar(&v), "field": {"Name": "has_step"}, "object": tvar("o")}}),
            8 if depth < 3 => json!({"Not": rand_where(rng, var, depth + 1)}),
            9 if depth < 3 => json!({"Optional": rand_where(rng, var, depth + 1)}),
            10 if depth < 3 => json!({"Union": rand_where(rng, var, depth + 1)}),
            11 if rng.chance(1, 4) => json!({"Belief": {"variable": v, "target": {"Proposition": "p"}}}),
            12 if rng.chance(1, 4) => json!({"BeliefSlot": {"variable": v, "subject": tvar("s"), "predicate": {"Literal": "likes"}}}),
            13 => json!({"Concept": {"variable": v, "matcher": {"links": {"Array": [{"Proposition": {"Tuple": {
                "subject": if rng.chance(1, 5) { tlit("x") } else { tvar("q") },
                "predicate": if rng.chance(1, 5) { path_hops("a") } else { atom("a") }, "object": tvar("r")}}}]}}}}),
            _ => json!({"Filter": null}),
        });
    }
    Value::Array(out)
}

/// A plan of 1–6 clauses over a handle graph: mostly well-formed, with a dose of every defect.
pub fn random_plan(rng: &mut Rng) -> Value {
    let n = 1 + rng.usize(6);
    // handles the plan will declare (known up front so forward references are generated too)
    let mut declared: Vec<String> = Vec::new();
    let mut kinds: Vec<u64> = Vec::new();
    for i in 0..n {
        let k = rng.below(16);
        kinds.push(k);
        if k < 6 {
            let h = if rng.chance(1, 12) && !declared.is_empty() { rng.pick(&declared).clone() } else { format!("h{i}") };
            declared.push(h);
        }
    }
    let mut di = 0usize;
    let mut clauses = Vec::new();
    for &k in kinds.iter() {
        let hs = declared.clone();
        let refh = |rng: &mut Rng| -> Value {
            match rng.below(8) {
                0 => ep("p"),
                1 => eid("el-9"),
                2 => eh(&format!("u{}", rng.below(2))),
                _ => {
                    if hs.is_empty() { ep("p") } else { eh(rng.pick(&hs[..]).as_str()) }
                }
            }
        };
        let clause = match k {
            0..=5 => {
                let h = declared[di].clone();
                di += 1;
                let family = ["CreateConcept", "UpsertConcept", "CreateEvidence", "CreateAssertion", "CreateActivity", "EnsureProposition"][k as usize];
                if family == "EnsureProposition" {
                    let subj = match rng.below(6) {
                        0 => tlit("x"),
                        1 => tparam("s"),
                        2 => json!({"Match": {"key": {"Literal": {"String": "k"}}}}),
                        3 => json!({"Proposition": {"Tuple": {"subject": tvar("a"), "predicate": if rng.chance(1, 4) { path2("x", "y") } else { atom("x") }, "object": tvar("b")}}}),
                        _ => tvar(if hs.is_empty() { "q" } else { rng.pick(&hs[..]).as_str() }),
                    };
                    let pred = match rng.below(6) {
                        0 => json!({"Variable": "pv"}),
                        1 => json!({"Param": "pp"}),
                        _ => json!({"Literal": "likes"}),
                    };
                    ensure_proposition(if rng.chance(1, 5) { None } else { Some(&h) }, subj, pred, tparam("o"))
                } else {
                    let blocks: Vec<Block> = BLOCKS.iter().copied().filter(|b| site_clause(family, *b, &[], None).is_some()).collect();
                    let mut c = if family == "CreateConcept" {
                        create_concept(&h)
                    } else if family == "UpsertConcept" {
                        let mut u = upsert_concept(&h);
                        match rng.below(8) {
                            0 => u["UpsertConcept"]["match"] = Value::Null,
                            1 => u["UpsertConcept"]["match"] = json!({"name": {"Literal": {"String": "n"}}}),
                            2 => u["UpsertConcept"]["match"] = json!({"id": {"Variable": "v"}}),
                            3 => u["UpsertConcept"]["match"] = json!({"id": {"Param": "id"}, "links": {"Proposition": {"Tuple": {"subject": tlit("x"), "predicate": atom("a"), "object": tvar("b")}}}}),
                            _ => {}
                        }
                        u
                    } else {
                        record(family, &h)
                    };
                    for _ in 0..rng.below(3) {
                        let b = *rng.pick(&blocks);
                        let entries = if b == Block::UnsetStructural && rng.chance(1, 6) { vec![] } else { rand_entries(rng, &hs, None) };
                        let opts = rng.chance(1, 3).then(|| json!({"role": {"Handle": if hs.is_empty() { "u0".to_string() } else { rng.pick(&hs).clone() }}}));
                        if let Some(donor) = site_clause(family, b, &entries, opts) {
                            let (_, body) = donor.as_object().unwrap().iter().next().unwrap();
                            let (_, mine) = c.as_object_mut().unwrap().iter_mut().next().unwrap();
                            for f in ["set_fields", "set_attributes", "set_facets", "unset_attributes", "unset_facets", "set_structural", "unset_structural"] {
                                if let Some(v) = body.get(f)
                                    && !v.is_null()
                                    && v.as_array().is_none_or(|a| !a.is_empty() || f == "unset_structural")
                                {
                                    mine[f] = v.clone();
                                }
                            }
                        }
                    }
                    c
                }
            }
            6..=8 => {
                let t = "t";
                let (target, wh) = match rng.below(6) {
                    0 => (ep("t"), None),
                    1 => (eid("el-2"), None),
                    2 => (eh(t), None),
                    3 => (refh(rng), Some(rand_where(rng, t, 0))),
                    _ => (eh(t), Some(rand_where(rng, t, 0))),
                };
                let tv = match &target {
                    Value::Object(m) => m.get("Handle").and_then(|h| h.as_str()).map(|s| s.to_string()),
                    _ => None,
                };
                let na = rng.below(4);
                let mut actions = Vec::new();
                for _ in 0..na {
                    let b = *rng.pick(BLOCKS);
                    let entries = if b == Block::UnsetStructural && rng.chance(1, 6) { vec![] } else { rand_entries(rng, &hs, tv.as_deref()) };
                    actions.push(update_action(b, &entries, None));
                }
                update(target, actions, wh)
            }
            9 => target_where(["RetractAssertion", "Archive", "Tombstone"][rng.usize(3)], refh(rng), rng.chance(1, 2).then(|| rand_where(rng, "t", 0))),
            10 => target_by(["SupersedeAssertion", "CorrectEvidence"][rng.usize(2)], refh(rng), refh(rng)),
            11 => {
                let mut c = transition(refh(rng));
                if rng.chance(1, 2) {
                    c["TransitionActivity"]["set_fields"] = asg(&rand_entries(rng, &hs, None));
                }
                if rng.chance(1, 2) {
                    c["TransitionActivity"]["set_structural"] = edges(&rand_entries(rng, &hs, None), None);
                }
                c
            }
            12 => set_retention(refh(rng), asg(&rand_entries(rng, &hs, None)), rng.chance(1, 2).then(|| rand_where(rng, "t", 0))),
            13 => purge(refh(rng), rng.chance(1, 2).then(|| rand_where(rng, "t", 0)), if rng.chance(1, 5) { "purge" } else { "PURGE" }),
            14 => merge(refh(rng), refh(rng), rng.chance(1, 2).then(|| rand_where(rng, "t", 0))),
            _ => target_where("Archive", eh("t"), Some(rand_where(rng, "t", 0))),
        };
        clauses.push(clause);
    }
    plan(true, clauses)
}

// ---- ASSERT -----------------------------------------------------------------------------------

pub const ASSERT_MEMBERS: &[&str] = &["by", "mode", "stance", "confidence", "at", "valid", "evidence", "key"];

pub fn assert_value(member: &str, variant: u64) -> Value {
    match (member, variant % 6) {
        ("evidence", 0) => param("ev"),
        ("evidence", 1) => json!({"Value": {"Array": [{"String": "ev-1"}, {"String": "ev-2"}, {"String": "ev-3"}]}}),
        ("evidence", 2) => json!({"Array": [{"Param": "e1"}, {"Handle": "p0"}, {"Value": {"String": "ev-9"}}]}),
        ("evidence", 3) => lit("ev-1"),
        ("evidence", 4) => json!({"Value": {"Array": []}}),
        ("evidence", _) => handle("p0"),
        ("key", 0) => lit("ck-1"),
        ("key", 1) => param("ck"),
        ("key", 2) => num(7),
        ("key", 3) => json!({"Value": {"Bool": true}}),
        ("key", 4) => json!({"Value": {"Array": [{"String": "a"}]}}),
        ("key", _) => handle("p0"),
        ("confidence", v) => json!({"Value": {"Number": (v as i64) % 2}}),
        ("by", 1) => handle("p0"),
        ("by", _) => param("alice"),
        ("mode", 1) => param("mode"),
        ("mode", _) => lit("stated"),
        ("stance", 1) => lit("oppose"),
        ("stance", _) => lit("support"),
        (_, 1) => json!({"Object": [["from", {"Param": "t0"}], ["to", {"Value": "Null"}]]}),
        (_, _) => lit("2026-01-01T00:00:00Z"),
    }
}
