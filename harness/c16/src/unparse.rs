//! Renders a `Command` tree (in its `serde_json` encoding) as KIP text, so that the same generated
//! command can be sent through `parse_kip` (text) and through `validate_command` (injected tree).
//! `None` = this tree has no text spelling (e.g. a handle that is not an identifier).

use crate::project::variant;
use serde_json::Value;

#[derive(Clone, Copy)]
pub struct Spelling {
    /// write every assignment / unset / matcher key as a quoted string
    pub quote_keys: bool,
    /// lower-case the protocol keywords
    pub lower_keywords: bool,
}

pub const PLAIN: Spelling = Spelling { quote_keys: false, lower_keywords: false };

fn is_ident(s: &str) -> bool {
    let mut cs = s.chars();
    match cs.next() {
        Some(c) if c.is_ascii_alphabetic() || c == '_' => cs.all(|c| c.is_ascii_alphanumeric() || c == '_'),
        _ => false,
    }
}

fn q(s: &str) -> String {
    serde_json::to_string(s).unwrap()
}

pub struct U {
    pub sp: Spelling,
}

impl U {
    fn kw(&self, s: &str) -> String {
        if self.sp.lower_keywords { s.to_ascii_lowercase() } else { s.to_string() }
    }

    fn key(&self, k: &str) -> String {
        if !self.sp.quote_keys && is_ident(k) { k.to_string() } else { q(k) }
    }

    fn ident(&self, s: &str) -> Option<String> {
        is_ident(s).then(|| s.to_string())
    }

    fn kip(&self, v: &Value) -> Option<String> {
        let (tag, p) = variant(v).ok()?;
        Some(match tag {
            "Null" => "null".into(),
            "Bool" | "Number" => p.to_string(),
            "String" => q(p.as_str()?),
            "Array" => format!("[{}]", p.as_array()?.iter().map(|x| self.kip(x)).collect::<Option<Vec<_>>>()?.join(", ")),
            "Object" => {
                let mut items = Vec::new();
                for (k, v) in p.as_object()? {
                    items.push(format!("{}: {}", q(k), self.kip(v)?));
                }
                format!("{{{}}}", items.join(", "))
            }
            _ => return None,
        })
    }

    fn dot_path(&self, v: &Value) -> Option<String> {
        let mut out = format!("?{}", self.ident(v.get("var")?.as_str()?)?);
        for s in v.get("path")?.as_array()? {
            let (tag, p) = variant(s).ok()?;
            match tag {
                "Field" => out.push_str(&format!(".{}", self.ident(p.as_str()?)?)),
                "Key" => out.push_str(&format!("[{}]", q(p.as_str()?))),
                _ => return None,
            }
        }
        Some(out)
    }

    fn bound_entries(&self, v: &Value) -> Option<String> {
        let mut items = Vec::new();
        match v {
            Value::Array(xs) => {
                for kv in xs {
                    items.push(format!("{}: {}", self.key(kv.get(0)?.as_str()?), self.bound(kv.get(1)?)?));
                }
            }
            Value::Object(m) => {
                for (k, v) in m {
                    items.push(format!("{}: {}", self.key(k), self.bound(v)?));
                }
            }
            _ => return None,
        }
        Some(format!("{{{}}}", items.join(", ")))
    }

    fn bound(&self, v: &Value) -> Option<String> {
        let (tag, p) = variant(v).ok()?;
        Some(match tag {
            "Value" => self.kip(p)?,
            "Param" => format!(":{}", self.ident(p.as_str()?)?),
            "Handle" => format!("?{}", self.ident(p.as_str()?)?),
            "Variable" => self.dot_path(p)?,
            "Array" => format!("[{}]", p.as_array()?.iter().map(|x| self.bound(x)).collect::<Option<Vec<_>>>()?.join(", ")),
            "Object" => self.bound_entries(p)?,
            _ => return None,
        })
    }

    fn expr(&self, v: &Value) -> Option<String> {
        let (tag, p) = variant(v).ok()?;
        Some(match tag {
            "Variable" => self.dot_path(p)?,
            "Number" => p.to_string(),
            "Param" => format!(":{}", self.ident(p.as_str()?)?),
            "Function" => {
                let f = p.get("func")?.as_str()?.to_ascii_uppercase();
                let args = p.get("args")?.as_array()?.iter().map(|a| self.expr(a)).collect::<Option<Vec<_>>>()?;
                format!("{f}({})", args.join(", "))
            }
            _ => return None,
        })
    }

    fn mv(&self, v: &Value) -> Option<String> {
        let (tag, p) = variant(v).ok()?;
        match tag {
            "Expr" => self.expr(p),
            _ => self.bound(v),
        }
    }

    fn asg(&self, v: &Value) -> Option<String> {
        let mut items = Vec::new();
        for kv in v.as_array()? {
            items.push(format!("{}: {}", self.key(kv.get(0)?.as_str()?), self.mv(kv.get(1)?)?));
        }
        Some(format!("{{ {} }}", items.join(", ")))
    }

    fn unset(&self, v: &Value) -> Option<String> {
        let items = v.as_array()?.iter().map(|k| k.as_str().map(|k| self.key(k))).collect::<Option<Vec<_>>>()?;
        Some(format!("{{ {} }}", items.join(", ")))
    }

    fn scalar(&self, v: &Value) -> Option<String> {
        let (tag, p) = variant(v).ok()?;
        match tag {
            "Literal" => self.kip(p),
            "Param" => Some(format!(":{}", self.ident(p.as_str()?)?)),
            _ => None,
        }
    }

    fn sym(&self, v: &Value) -> Option<String> {
        let (tag, p) = variant(v).ok()?;
        match tag {
            "Name" => Some(q(p.as_str()?)),
            "Param" => Some(format!(":{}", self.ident(p.as_str()?)?)),
            _ => None,
        }
    }

    fn eref(&self, v: &Value) -> Option<String> {
        let (tag, p) = variant(v).ok()?;
        match tag {
            "Handle" => Some(format!("?{}", self.ident(p.as_str()?)?)),
            "Param" => Some(format!(":{}", self.ident(p.as_str()?)?)),
            "Id" => Some(q(p.as_str()?)),
            _ => None,
        }
    }

    fn patom(&self, v: &Value) -> Option<String> {
        let (tag, p) = variant(v).ok()?;
        match tag {
            "Variable" => Some(format!("?{}", self.ident(p.as_str()?)?)),
            "Literal" => Some(q(p.as_str()?)),
            "Param" => Some(format!(":{}", self.ident(p.as_str()?)?)),
            _ => None,
        }
    }

    fn pterm(&self, v: &Value) -> Option<String> {
        let (tag, p) = variant(v).ok()?;
        match tag {
            "Atom" => self.patom(p),
            "Path" => {
                let mut items = Vec::new();
                for a in p.as_array()? {
                    let mut s = self.patom(a.get("predicate")?)?;
                    let hops = a.get("hops")?;
                    if !hops.is_null() {
                        let min = hops.get("min")?.as_u64()?;
                        match hops.get("max")? {
                            Value::Null => s.push_str(&format!("{{{min},}}")),
                            m => s.push_str(&format!("{{{min},{}}}", m.as_u64()?)),
                        }
                    }
                    items.push(s);
                }
                Some(items.join(" | "))
            }
            _ => None,
        }
    }

    fn matcher(&self, v: &Value) -> Option<String> {
        let mut items = Vec::new();
        for (k, v) in v.as_object()? {
            items.push(format!("{}: {}", self.key(k), self.match_value(v)?));
        }
        Some(format!("{{{}}}", items.join(", ")))
    }

    fn match_value(&self, v: &Value) -> Option<String> {
        let (tag, p) = variant(v).ok()?;
        Some(match tag {
            "Variable" => format!("?{}", self.ident(p.as_str()?)?),
            "Param" => format!(":{}", self.ident(p.as_str()?)?),
            "Literal" => self.kip(p)?,
            "Array" => format!("[{}]", p.as_array()?.iter().map(|x| self.match_value(x)).collect::<Option<Vec<_>>>()?.join(", ")),
            "Match" => self.matcher(p)?,
            "Proposition" => self.prop_matcher(p)?,
            _ => return None,
        })
    }

    fn triple(&self, v: &Value) -> Option<String> {
        Some(format!("({}, {}, {})", self.term(v.get("subject")?)?, self.pterm(v.get("predicate")?)?, self.term(v.get("object")?)?))
    }

    pub fn prop_matcher(&self, v: &Value) -> Option<String> {
        let (tag, p) = variant(v).ok()?;
        match tag {
            "Id" => Some(format!("(id: {})", self.scalar(p)?)),
            "Tuple" => self.triple(p),
            _ => None,
        }
    }

    fn term(&self, v: &Value) -> Option<String> {
        let (tag, p) = variant(v).ok()?;
        Some(match tag {
            "Variable" => format!("?{}", self.ident(p.as_str()?)?),
            "Param" => format!(":{}", self.ident(p.as_str()?)?),
            "Literal" => self.kip(p)?,
            "Match" => self.matcher(p)?,
            "Proposition" => self.prop_matcher(p)?,
            _ => return None,
        })
    }

    fn where_clause(&self, v: &Value) -> Option<String> {
        let (tag, p) = variant(v).ok()?;
        let var = |p: &Value| -> Option<String> { Some(format!("?{}", self.ident(p.get("variable")?.as_str()?)?)) };
        Some(match tag {
            "Concept" => format!("{} {} {}", var(p)?, self.kw("CONCEPT"), self.matcher(p.get("matcher")?)?),
            "Assertion" => format!("{} {} {}", var(p)?, self.kw("ASSERTION"), self.matcher(p.get("matcher")?)?),
            "Evidence" => format!("{} {} {}", var(p)?, self.kw("EVIDENCE"), self.matcher(p.get("matcher")?)?),
            "Activity" => format!("{} {} {}", var(p)?, self.kw("ACTIVITY"), self.matcher(p.get("matcher")?)?),
            "Proposition" => {
                let m = self.prop_matcher(p.get("matcher")?)?;
                match p.get("variable")? {
                    Value::Null => format!("{} {m}", self.kw("PROPOSITION")),
                    v => format!("?{} {} {m}", self.ident(v.as_str()?)?, self.kw("PROPOSITION")),
                }
            }
            "Structural" => {
                let body = format!("({}, {}, {})", self.term(p.get("subject")?)?, self.sym(p.get("field")?)?, self.term(p.get("object")?)?);
                match p.get("variable")? {
                    Value::Null => format!("{} {body}", self.kw("STRUCTURAL")),
                    v => format!("?{} {} {body}", self.ident(v.as_str()?)?, self.kw("STRUCTURAL")),
                }
            }
            "Belief" => {
                let (t, tp) = variant(p.get("target")?).ok()?;
                let target = match t {
                    "Proposition" => format!("(?{})", self.ident(tp.as_str()?)?),
                    "Id" => format!("(id: {})", self.scalar(tp)?),
                    "Tuple" => self.triple(tp)?,
                    _ => return None,
                };
                format!("{} {} {target}", var(p)?, self.kw("BELIEF"))
            }
            "BeliefSlot" => format!(
                "{} {} {} ({}, {})",
                var(p)?,
                self.kw("BELIEF"),
                self.kw("SLOT"),
                self.term(p.get("subject")?)?,
                self.patom(p.get("predicate")?)?
            ),
            // the generator only ever emits the one filter whose tree `filter_sample` holds
            "Filter" => format!("{}(?t.score > 1)", self.kw("FILTER")),
            "Not" => format!("{} {}", self.kw("NOT"), self.where_block(p)?),
            "Optional" => format!("{} {}", self.kw("OPTIONAL"), self.where_block(p)?),
            "Union" => format!("{} {}", self.kw("UNION"), self.where_block(p)?),
            _ => return None,
        })
    }

    pub fn where_block(&self, v: &Value) -> Option<String> {
        let items = v.as_array()?.iter().map(|w| self.where_clause(w)).collect::<Option<Vec<_>>>()?;
        Some(format!("{{ {} }}", items.join(" ")))
    }

    fn edges(&self, v: &Value) -> Option<String> {
        let mut items = Vec::new();
        for e in v.as_array()? {
            let mut s = format!("({}, {})", self.sym(e.get("field")?)?, self.mv(e.get("value")?)?);
            let o = e.get("options")?;
            if !o.is_null() {
                s.push_str(&format!(" {}", self.bound_entries(o)?));
            }
            items.push(s);
        }
        Some(format!("{{ {} }}", items.join(" ")))
    }

    fn removals(&self, v: &Value) -> Option<String> {
        let mut items = Vec::new();
        for e in v.as_array()? {
            items.push(format!("({}, {})", self.sym(e.get("field")?)?, self.mv(e.get("value")?)?));
        }
        Some(format!("{{ {} }}", items.join(" ")))
    }

    fn opt<F: Fn(&Value) -> Option<String>>(&self, out: &mut Vec<String>, kw: &str, v: Option<&Value>, f: F) -> Option<()> {
        let v = v?;
        if !v.is_null() {
            out.push(format!("{} {}", self.kw(kw), f(v)?));
        }
        Some(())
    }

    fn facets(&self, out: &mut Vec<String>, v: &Value) -> Option<()> {
        for f in v.as_array()? {
            out.push(format!("{} {} {}", self.kw("SET FACET"), self.sym(f.get("facet")?)?, self.asg(f.get("values")?)?));
        }
        Some(())
    }

    fn facet_unsets(&self, out: &mut Vec<String>, v: &Value) -> Option<()> {
        for f in v.as_array()? {
            out.push(format!("{} {} {}", self.kw("UNSET FACET"), self.sym(f.get("facet")?)?, self.unset(f.get("fields")?)?));
        }
        Some(())
    }

    fn action(&self, v: &Value) -> Option<String> {
        let (tag, p) = variant(v).ok()?;
        Some(match tag {
            "SetFields" => format!("{} {}", self.kw("SET FIELDS"), self.asg(p)?),
            "SetAttributes" => format!("{} {}", self.kw("SET ATTRIBUTES"), self.asg(p)?),
            "SetFacet" => format!("{} {} {}", self.kw("SET FACET"), self.sym(p.get("facet")?)?, self.asg(p.get("values")?)?),
            "UnsetAttributes" => format!("{} {}", self.kw("UNSET ATTRIBUTES"), self.unset(p)?),
            "UnsetFacet" => format!("{} {} {}", self.kw("UNSET FACET"), self.sym(p.get("facet")?)?, self.unset(p.get("fields")?)?),
            "SetStructural" => format!("{} {}", self.kw("SET STRUCTURAL"), self.edges(p)?),
            "UnsetStructural" => format!("{} {}", self.kw("UNSET STRUCTURAL"), self.removals(p)?),
            _ => return None,
        })
    }

    pub fn clause(&self, v: &Value) -> Option<String> {
        let (tag, p) = variant(v).ok()?;
        let mut out: Vec<String> = Vec::new();
        let handle = |p: &Value| -> Option<String> { Some(format!("?{}", self.ident(p.get("handle")?.as_str()?)?)) };
        match tag {
            "CreateConcept" => {
                out.push(format!("{} {} {{", self.kw("CREATE CONCEPT"), handle(p)?));
                self.opt(&mut out, "TYPE", p.get("type"), |v| self.sym(v))?;
                self.opt(&mut out, "CLIENT KEY", p.get("client_key"), |v| self.scalar(v))?;
                self.opt(&mut out, "NAME", p.get("name"), |v| self.scalar(v))?;
                self.opt(&mut out, "SET FIELDS", p.get("set_fields"), |v| self.asg(v))?;
                self.opt(&mut out, "SET ATTRIBUTES", p.get("set_attributes"), |v| self.asg(v))?;
                self.facets(&mut out, p.get("set_facets")?)?;
                self.opt(&mut out, "SET STRUCTURAL", p.get("set_structural"), |v| self.edges(v))?;
                out.push("}".into());
            }
            "UpsertConcept" => {
                out.push(format!("{} {} {{", self.kw("UPSERT CONCEPT"), handle(p)?));
                self.opt(&mut out, "MATCH", p.get("match"), |v| self.matcher(v))?;
                self.opt(&mut out, "EXPECT VERSION", p.get("expect_version"), |v| self.scalar(v))?;
                self.opt(&mut out, "SET FIELDS", p.get("set_fields"), |v| self.asg(v))?;
                self.opt(&mut out, "SET ATTRIBUTES", p.get("set_attributes"), |v| self.asg(v))?;
                self.facets(&mut out, p.get("set_facets")?)?;
                self.opt(&mut out, "UNSET ATTRIBUTES", p.get("unset_attributes"), |v| self.unset(v))?;
                self.facet_unsets(&mut out, p.get("unset_facets")?)?;
                self.opt(&mut out, "SET STRUCTURAL", p.get("set_structural"), |v| self.edges(v))?;
                self.opt(&mut out, "UNSET STRUCTURAL", p.get("unset_structural"), |v| self.removals(v))?;
                out.push("}".into());
            }
            "CreateEvidence" | "CreateAssertion" | "CreateActivity" => {
                let kind = match tag {
                    "CreateEvidence" => "EVIDENCE",
                    "CreateAssertion" => "ASSERTION",
                    _ => "ACTIVITY",
                };
                out.push(format!("{} {} {} {{", self.kw("CREATE"), self.kw(kind), handle(p)?));
                self.opt(&mut out, "CLIENT KEY", p.get("client_key"), |v| self.scalar(v))?;
                self.opt(&mut out, "SET FIELDS", p.get("set_fields"), |v| self.asg(v))?;
                self.facets(&mut out, p.get("set_facets")?)?;
                self.opt(&mut out, "SET STRUCTURAL", p.get("set_structural"), |v| self.edges(v))?;
                out.push("}".into());
            }
            "EnsureProposition" => {
                out.push(self.kw("ENSURE PROPOSITION"));
                if let Some(h) = p.get("handle")?.as_str() {
                    out.push(format!("?{}", self.ident(h)?));
                }
                out.push(format!("({}, {}, {})", self.term(p.get("subject")?)?, self.patom(p.get("predicate")?)?, self.term(p.get("object")?)?));
                self.opt(&mut out, "EXPECT VERSION", p.get("expect_version"), |v| self.scalar(v))?;
            }
            "Update" => {
                out.push(format!("{} {}", self.kw("UPDATE"), self.eref(p.get("target")?)?));
                self.opt(&mut out, "EXPECT VERSION", p.get("expect_version"), |v| self.scalar(v))?;
                for a in p.get("actions")?.as_array()? {
                    out.push(self.action(a)?);
                }
                self.opt(&mut out, "WHERE", p.get("where_clauses"), |v| self.where_block(v))?;
                self.opt(&mut out, "LIMIT", p.get("limit"), |v| self.scalar(v))?;
            }
            "RetractAssertion" | "Archive" | "Tombstone" => {
                let verb = match tag {
                    "RetractAssertion" => "RETRACT ASSERTION",
                    "Archive" => "ARCHIVE",
                    _ => "TOMBSTONE",
                };
                out.push(format!("{} {}", self.kw(verb), self.eref(p.get("target")?)?));
                self.opt(&mut out, "WHERE", p.get("where_clauses"), |v| self.where_block(v))?;
                self.opt(&mut out, "LIMIT", p.get("limit"), |v| self.scalar(v))?;
                self.opt(&mut out, "EXPECT STATE", p.get("expect_state"), |v| self.scalar(v))?;
            }
            "SupersedeAssertion" | "CorrectEvidence" => {
                let verb = if tag == "SupersedeAssertion" { "SUPERSEDE ASSERTION" } else { "CORRECT EVIDENCE" };
                out.push(format!("{} {} {} {}", self.kw(verb), self.eref(p.get("target")?)?, self.kw("BY"), self.eref(p.get("by")?)?));
                self.opt(&mut out, "EXPECT STATE", p.get("expect_state"), |v| self.scalar(v))?;
            }
            "TransitionActivity" => {
                out.push(format!(
                    "{} {} {} {}",
                    self.kw("TRANSITION ACTIVITY"),
                    self.eref(p.get("target")?)?,
                    self.kw("TO"),
                    self.scalar(p.get("to")?)?
                ));
                self.opt(&mut out, "SET FIELDS", p.get("set_fields"), |v| self.asg(v))?;
                self.opt(&mut out, "SET STRUCTURAL", p.get("set_structural"), |v| self.edges(v))?;
                self.opt(&mut out, "EXPECT STATE", p.get("expect_state"), |v| self.scalar(v))?;
            }
            "SetRetention" => {
                out.push(format!("{} {} {}", self.kw("SET RETENTION"), self.eref(p.get("target")?)?, self.asg(p.get("values")?)?));
                self.opt(&mut out, "WHERE", p.get("where_clauses"), |v| self.where_block(v))?;
                self.opt(&mut out, "LIMIT", p.get("limit"), |v| self.scalar(v))?;
                self.opt(&mut out, "EXPECT VERSION", p.get("expect_version"), |v| self.scalar(v))?;
            }
            "Purge" => {
                out.push(format!("{} {}", self.kw("PURGE"), self.eref(p.get("target")?)?));
                self.opt(&mut out, "WHERE", p.get("where_clauses"), |v| self.where_block(v))?;
                self.opt(&mut out, "LIMIT", p.get("limit"), |v| self.scalar(v))?;
                self.opt(&mut out, "REFERENCE POLICY", p.get("reference_policy"), |v| self.scalar(v))?;
                out.push(format!("{} {}", self.kw("CONFIRM"), q(p.get("confirm")?.as_str()?)));
            }
            "MergeConcept" => {
                out.push(format!(
                    "{} {} {} {}",
                    self.kw("MERGE CONCEPT"),
                    self.eref(p.get("source")?)?,
                    self.kw("INTO"),
                    self.eref(p.get("into")?)?
                ));
                self.opt(&mut out, "WHERE", p.get("where_clauses"), |v| self.where_block(v))?;
                self.opt(&mut out, "EXPECT VERSION", p.get("expect_version"), |v| self.scalar(v))?;
            }
            _ => return None,
        }
        Some(out.join(" "))
    }

    /// `ASSERT [?h] (s, p, o) { members } [SUPERSEDING target]` from an assert spec.
    pub fn assert_stmt(&self, spec: &Value) -> Option<String> {
        let mut out = vec![self.kw("ASSERT")];
        if let Some(h) = spec.get("handle")?.as_str() {
            out.push(format!("?{}", self.ident(h)?));
        }
        match spec.get("matcher").filter(|m| !m.is_null()) {
            Some(m) => out.push(self.prop_matcher(m)?),
            None => out.push(format!(
                "({}, {}, {})",
                self.term(spec.get("subject")?)?,
                self.patom(spec.get("predicate")?)?,
                self.term(spec.get("object")?)?
            )),
        }
        out.push(self.asg(spec.get("members")?)?);
        let sup = spec.get("superseding")?;
        if !sup.is_null() {
            out.push(format!("{} {}", self.kw("SUPERSEDING"), self.eref(sup)?));
        }
        Some(out.join(" "))
    }

    /// `ENSURE PROPOSITION [?h] <proposition expression> [EXPECT VERSION 3]` from an ensure spec.
    pub fn ensure_stmt(&self, spec: &Value) -> Option<String> {
        let mut out = vec![self.kw("ENSURE PROPOSITION")];
        if let Some(h) = spec.get("handle")?.as_str() {
            out.push(format!("?{}", self.ident(h)?));
        }
        out.push(self.prop_matcher(spec.get("matcher")?)?);
        if spec.get("expect_version")?.as_bool()? {
            out.push(format!("{} 3", self.kw("EXPECT VERSION")));
        }
        Some(out.join(" "))
    }

    pub fn command(&self, cmd: &Value) -> Option<String> {
        let (tag, p) = variant(cmd).ok()?;
        match tag {
            "Kml" => {
                let clauses = p.get("clauses")?.as_array()?.iter().map(|c| self.clause(c)).collect::<Option<Vec<_>>>()?;
                if p.get("explicit_transaction")?.as_bool()? {
                    Some(format!("{} {{ {} }}", self.kw("MUTATE"), clauses.join(" ")))
                } else if clauses.len() == 1 {
                    Some(clauses.into_iter().next().unwrap())
                } else {
                    None
                }
            }
            "Meta" => {
                let (mt, mp) = variant(p).ok()?;
                if mt != "ExportCapsule" {
                    return None;
                }
                Some(format!(
                    "{} {} {} {}",
                    self.kw("EXPORT CAPSULE"),
                    self.eref(mp.get("target")?)?,
                    self.kw("WHERE"),
                    self.where_block(mp.get("where_clauses")?)?
                ))
            }
            _ => None,
        }
    }
}
