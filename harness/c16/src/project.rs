//! Canonicaliser: the real `anda_kip::Command`, through its `serde_json` encoding, to the line
//! format of the Lean driver (`lean/AndaVerif/Drv/C16.lean`).
//!
//! Strict: every struct must carry exactly the fields this file knows and every enum variant must
//! be one it knows. Anything else is an `Err` ("projection drift") — reported as a broken
//! correspondence, never defaulted.

use serde_json::{Map, Value};

pub type R<T> = Result<T, String>;

/// String token: `=text` for plain text, `~hex` otherwise (injective; the model keeps it opaque).
pub fn enc(s: &str) -> String {
    let plain = !s.is_empty() && s.bytes().all(|b| b.is_ascii_alphanumeric() || matches!(b, b'_' | b'#' | b'.' | b'-'));
    if plain { format!("={s}") } else { format!("~{}", vh_common::hex(s.as_bytes())) }
}

pub fn variant(v: &Value) -> R<(&str, &Value)> {
    match v {
        Value::String(s) => Ok((s.as_str(), &Value::Null)),
        Value::Object(m) if m.len() == 1 => {
            let (k, v) = m.iter().next().unwrap();
            Ok((k.as_str(), v))
        }
        other => Err(format!("not an externally tagged enum: {}", short(other))),
    }
}

pub fn short(v: &Value) -> String {
    let s = v.to_string();
    if s.len() > 120 { format!("{}…", &s[..s.char_indices().take_while(|(i, _)| *i < 120).last().map(|(i, c)| i + c.len_utf8()).unwrap_or(0)]) } else { s }
}

pub fn fields<'a>(v: &'a Value, what: &str, names: &[&str]) -> R<&'a Map<String, Value>> {
    let m = v.as_object().ok_or_else(|| format!("{what}: not a struct: {}", short(v)))?;
    for k in m.keys() {
        if !names.contains(&k.as_str()) {
            return Err(format!("{what}: unknown field `{k}`"));
        }
    }
    for n in names {
        if !m.contains_key(*n) {
            return Err(format!("{what}: missing field `{n}`"));
        }
    }
    Ok(m)
}

fn string<'a>(v: &'a Value, what: &str) -> R<&'a str> {
    v.as_str().ok_or_else(|| format!("{what}: not a string: {}", short(v)))
}

fn array<'a>(v: &'a Value, what: &str) -> R<&'a Vec<Value>> {
    v.as_array().ok_or_else(|| format!("{what}: not an array: {}", short(v)))
}

fn counted(items: Vec<String>) -> String {
    let mut out = vec![items.len().to_string()];
    out.extend(items);
    out.join(" ")
}

fn opt(v: &Value, f: impl FnOnce(&Value) -> R<String>) -> R<String> {
    if v.is_null() { Ok("-".into()) } else { Ok(format!("+ {}", f(v)?)) }
}

/// `KipValue` → plain JSON.
pub fn kip_to_json(v: &Value) -> R<Value> {
    let (tag, p) = variant(v)?;
    Ok(match tag {
        "Null" => Value::Null,
        "Bool" | "Number" | "String" => p.clone(),
        "Array" => Value::Array(array(p, "KipValue::Array")?.iter().map(kip_to_json).collect::<R<Vec<_>>>()?),
        "Object" => {
            let m = p.as_object().ok_or("KipValue::Object: not a map")?;
            let mut out = Map::new();
            for (k, v) in m {
                out.insert(k.clone(), kip_to_json(v)?);
            }
            Value::Object(out)
        }
        other => return Err(format!("KipValue: unknown variant {other}")),
    })
}

fn lit_head(v: &Value) -> R<(String, String)> {
    let (tag, p) = variant(v)?;
    let kind = match tag {
        "Null" => "null",
        "Bool" => "bool",
        "Number" => "num",
        "String" => "str",
        "Array" => "arr",
        "Object" => "obj",
        other => return Err(format!("KipValue: unknown variant {other}")),
    };
    let repr = if tag == "String" { string(p, "KipValue::String")?.to_string() } else { kip_to_json(v)?.to_string() };
    Ok((kind.to_string(), repr))
}

pub struct Ctx {
    /// print the element list of array literals (the driver's input wants it; its output omits it)
    pub items: bool,
}

impl Ctx {
    pub fn lit(&self, v: &Value) -> R<String> {
        let (kind, repr) = lit_head(v)?;
        let mut items = Vec::new();
        if self.items && kind == "arr" {
            for it in array(variant(v)?.1, "KipValue::Array")? {
                let (k, r) = lit_head(it)?;
                items.push(format!("{k} {}", enc(&r)));
            }
        }
        Ok(format!("{kind} {} {}", enc(&repr), counted(items)))
    }

    fn dot_path(&self, v: &Value) -> R<String> {
        let m = fields(v, "DotPathVar", &["var", "path"])?;
        let mut steps = Vec::new();
        for s in array(&m["path"], "DotPathVar.path")? {
            let (tag, p) = variant(s)?;
            let p = string(p, "PathStep")?;
            steps.push(match tag {
                "Field" => enc(&format!("f:{p}")),
                "Key" => enc(&format!("k:{p}")),
                other => return Err(format!("PathStep: unknown variant {other}")),
            });
        }
        Ok(format!("{} {}", enc(string(&m["var"], "DotPathVar.var")?), counted(steps)))
    }

    fn bound_entries(&self, v: &Value, what: &str) -> R<String> {
        // Vec<(String, BoundValue)> or BTreeMap<String, BoundValue>
        let mut items = Vec::new();
        match v {
            Value::Array(xs) => {
                for kv in xs {
                    let kv = array(kv, what)?;
                    if kv.len() != 2 {
                        return Err(format!("{what}: entry is not a pair"));
                    }
                    items.push(format!("{} {}", enc(string(&kv[0], what)?), self.bound(&kv[1])?));
                }
            }
            Value::Object(m) => {
                let mut keys: Vec<&String> = m.keys().collect();
                keys.sort();
                for k in keys {
                    items.push(format!("{} {}", enc(k), self.bound(&m[k])?));
                }
            }
            other => return Err(format!("{what}: {}", short(other))),
        }
        Ok(counted(items))
    }

    pub fn bound(&self, v: &Value) -> R<String> {
        let (tag, p) = variant(v)?;
        Ok(match tag {
            "Value" => format!("bv {}", self.lit(p)?),
            "Param" => format!("bp {}", enc(string(p, "BoundValue::Param")?)),
            "Handle" => format!("bh {}", enc(string(p, "BoundValue::Handle")?)),
            "Variable" => format!("bx {}", self.dot_path(p)?),
            "Array" => format!("ba {}", counted(array(p, "BoundValue::Array")?.iter().map(|x| self.bound(x)).collect::<R<Vec<_>>>()?)),
            "Object" => format!("bo {}", self.bound_entries(p, "BoundValue::Object")?),
            other => return Err(format!("BoundValue: unknown variant {other}")),
        })
    }

    fn expr(&self, v: &Value) -> R<String> {
        let (tag, p) = variant(v)?;
        Ok(match tag {
            "Variable" => format!("ev {}", self.dot_path(p)?),
            "Number" => format!("en {}", enc(&p.to_string())),
            "Param" => format!("ep {}", enc(string(p, "UpdateExpr::Param")?)),
            "Function" => {
                let m = fields(p, "UpdateExpr::Function", &["func", "args"])?;
                let f = match string(&m["func"], "UpdateFunction")? {
                    "Add" => "add",
                    "Mul" => "mul",
                    "Clamp" => "clamp",
                    "Coalesce" => "coalesce",
                    other => return Err(format!("UpdateFunction: unknown variant {other}")),
                };
                format!("ef {f} {}", counted(array(&m["args"], "args")?.iter().map(|x| self.expr(x)).collect::<R<Vec<_>>>()?))
            }
            other => return Err(format!("UpdateExpr: unknown variant {other}")),
        })
    }

    pub fn mv(&self, v: &Value) -> R<String> {
        let (tag, p) = variant(v)?;
        Ok(match tag {
            "Value" => format!("mv {}", self.lit(p)?),
            "Param" => format!("mp {}", enc(string(p, "MutationValue::Param")?)),
            "Handle" => format!("mh {}", enc(string(p, "MutationValue::Handle")?)),
            "Variable" => format!("mx {}", self.dot_path(p)?),
            "Array" => format!("ma {}", counted(array(p, "MutationValue::Array")?.iter().map(|x| self.bound(x)).collect::<R<Vec<_>>>()?)),
            "Object" => format!("mo {}", self.bound_entries(p, "MutationValue::Object")?),
            "Expr" => format!("me {}", self.expr(p)?),
            other => return Err(format!("MutationValue: unknown variant {other}")),
        })
    }

    pub fn asg(&self, v: &Value) -> R<String> {
        let mut items = Vec::new();
        for kv in array(v, "Assignments")? {
            let kv = array(kv, "Assignments entry")?;
            if kv.len() != 2 {
                return Err("Assignments: entry is not a pair".into());
            }
            items.push(format!("{} {}", enc(string(&kv[0], "Assignments key")?), self.mv(&kv[1])?));
        }
        Ok(counted(items))
    }

    pub fn scalar(&self, v: &Value) -> R<String> {
        let (tag, p) = variant(v)?;
        Ok(match tag {
            "Literal" => format!("sl {}", self.lit(p)?),
            "Param" => format!("sp {}", enc(string(p, "Scalar::Param")?)),
            other => return Err(format!("Scalar: unknown variant {other}")),
        })
    }

    fn sym(&self, v: &Value) -> R<String> {
        let (tag, p) = variant(v)?;
        let p = string(p, "SymbolRef")?;
        Ok(match tag {
            "Name" => format!("yn {}", enc(p)),
            "Param" => format!("yp {}", enc(p)),
            other => return Err(format!("SymbolRef: unknown variant {other}")),
        })
    }

    pub fn eref(&self, v: &Value) -> R<String> {
        let (tag, p) = variant(v)?;
        let p = string(p, "ElementRef")?;
        Ok(match tag {
            "Handle" => format!("rh {}", enc(p)),
            "Param" => format!("rp {}", enc(p)),
            "Id" => format!("ri {}", enc(p)),
            other => return Err(format!("ElementRef: unknown variant {other}")),
        })
    }

    pub fn patom(&self, v: &Value) -> R<String> {
        let (tag, p) = variant(v)?;
        let p = string(p, "PredAtom")?;
        Ok(match tag {
            "Variable" => format!("pv {}", enc(p)),
            "Literal" => format!("pl {}", enc(p)),
            "Param" => format!("pp {}", enc(p)),
            other => return Err(format!("PredAtom: unknown variant {other}")),
        })
    }

    fn pterm(&self, v: &Value) -> R<String> {
        let (tag, p) = variant(v)?;
        Ok(match tag {
            "Atom" => format!("ta {}", self.patom(p)?),
            "Path" => {
                let mut items = Vec::new();
                for a in array(p, "PredTerm::Path")? {
                    let m = fields(a, "PredPathAtom", &["predicate", "hops"])?;
                    items.push(self.patom(&m["predicate"])?);
                }
                format!("tp {}", counted(items))
            }
            other => return Err(format!("PredTerm: unknown variant {other}")),
        })
    }

    fn matcher(&self, v: &Value) -> R<String> {
        let m = v.as_object().ok_or_else(|| format!("ObjectMatcher: {}", short(v)))?;
        let mut keys: Vec<&String> = m.keys().collect();
        keys.sort();
        let mut items = Vec::new();
        for k in keys {
            items.push(format!("{} {}", enc(k), self.match_value(&m[k])?));
        }
        Ok(counted(items))
    }

    fn match_value(&self, v: &Value) -> R<String> {
        let (tag, p) = variant(v)?;
        Ok(match tag {
            "Variable" => format!("Mv {}", enc(string(p, "MatchValue::Variable")?)),
            "Param" => format!("Mp {}", enc(string(p, "MatchValue::Param")?)),
            "Literal" => format!("Ml {}", self.lit(p)?),
            "Array" => format!("Ma {}", counted(array(p, "MatchValue::Array")?.iter().map(|x| self.match_value(x)).collect::<R<Vec<_>>>()?)),
            "Match" => format!("Mm {}", self.matcher(p)?),
            "Proposition" => format!("Mq {}", self.prop_matcher(p)?),
            other => return Err(format!("MatchValue: unknown variant {other}")),
        })
    }

    fn triple(&self, v: &Value) -> R<String> {
        let m = fields(v, "PropositionTriple", &["subject", "predicate", "object"])?;
        Ok(format!("{} {} {}", self.term(&m["subject"])?, self.pterm(&m["predicate"])?, self.term(&m["object"])?))
    }

    pub fn prop_matcher(&self, v: &Value) -> R<String> {
        let (tag, p) = variant(v)?;
        Ok(match tag {
            "Id" => format!("qi {}", self.scalar(p)?),
            "Tuple" => format!("qt {}", self.triple(p)?),
            other => return Err(format!("PropositionMatcher: unknown variant {other}")),
        })
    }

    pub fn term(&self, v: &Value) -> R<String> {
        let (tag, p) = variant(v)?;
        Ok(match tag {
            "Variable" => format!("Tv {}", enc(string(p, "Term::Variable")?)),
            "Param" => format!("Tp {}", enc(string(p, "Term::Param")?)),
            "Literal" => format!("Tl {}", self.lit(p)?),
            "Match" => format!("Tm {}", self.matcher(p)?),
            "Proposition" => format!("Tq {}", self.prop_matcher(p)?),
            other => return Err(format!("Term: unknown variant {other}")),
        })
    }

    fn opt_str(&self, v: &Value) -> R<String> {
        opt(v, |v| Ok(enc(string(v, "Option<String>")?)))
    }

    fn where_clause(&self, v: &Value) -> R<String> {
        let (tag, p) = variant(v)?;
        let vm = |what: &str, code: &str| -> R<String> {
            let m = fields(p, what, &["variable", "matcher"])?;
            Ok(format!("{code} {} {}", enc(string(&m["variable"], what)?), self.matcher(&m["matcher"])?))
        };
        Ok(match tag {
            "Concept" => vm("WhereClause::Concept", "wc")?,
            "Assertion" => vm("WhereClause::Assertion", "wa")?,
            "Evidence" => vm("WhereClause::Evidence", "we")?,
            "Activity" => vm("WhereClause::Activity", "wv")?,
            "Proposition" => {
                let m = fields(p, "WhereClause::Proposition", &["variable", "matcher"])?;
                format!("wp {} {}", self.opt_str(&m["variable"])?, self.prop_matcher(&m["matcher"])?)
            }
            "Structural" => {
                let m = fields(p, "WhereClause::Structural", &["variable", "subject", "field", "object"])?;
                self.sym(&m["field"])?;
                format!("ws {} {} {}", self.opt_str(&m["variable"])?, self.term(&m["subject"])?, self.term(&m["object"])?)
            }
            "Belief" => {
                let m = fields(p, "WhereClause::Belief", &["variable", "target"])?;
                let (t, tp) = variant(&m["target"])?;
                let target = match t {
                    "Proposition" => format!("gp {}", enc(string(tp, "BeliefTarget::Proposition")?)),
                    "Id" => format!("gi {}", self.scalar(tp)?),
                    "Tuple" => format!("gt {}", self.triple(tp)?),
                    other => return Err(format!("BeliefTarget: unknown variant {other}")),
                };
                format!("wb {} {target}", enc(string(&m["variable"], "Belief.variable")?))
            }
            "BeliefSlot" => {
                let m = fields(p, "WhereClause::BeliefSlot", &["variable", "subject", "predicate"])?;
                format!("wl {} {} {}", enc(string(&m["variable"], "BeliefSlot.variable")?), self.term(&m["subject"])?, self.patom(&m["predicate"])?)
            }
            "Filter" => {
                fields(p, "WhereClause::Filter", &["expression"])?;
                "wf".to_string()
            }
            "Not" => format!("wn {}", self.where_list(p)?),
            "Optional" => format!("wo {}", self.where_list(p)?),
            "Union" => format!("wu {}", self.where_list(p)?),
            other => return Err(format!("WhereClause: unknown variant {other}")),
        })
    }

    pub fn where_list(&self, v: &Value) -> R<String> {
        Ok(counted(array(v, "Vec<WhereClause>")?.iter().map(|w| self.where_clause(w)).collect::<R<Vec<_>>>()?))
    }

    fn opt_where(&self, v: &Value) -> R<String> {
        opt(v, |v| self.where_list(v))
    }

    fn edge(&self, v: &Value) -> R<String> {
        let m = fields(v, "StructuralEdge", &["field", "value", "options"])?;
        Ok(format!(
            "{} {} {}",
            self.sym(&m["field"])?,
            self.mv(&m["value"])?,
            opt(&m["options"], |o| self.bound_entries(o, "StructuralEdge.options"))?
        ))
    }

    fn edges(&self, v: &Value) -> R<String> {
        Ok(counted(array(v, "Vec<StructuralEdge>")?.iter().map(|e| self.edge(e)).collect::<R<Vec<_>>>()?))
    }

    fn removal(&self, v: &Value) -> R<String> {
        let m = fields(v, "StructuralRemoval", &["field", "value"])?;
        Ok(format!("{} {}", self.sym(&m["field"])?, self.mv(&m["value"])?))
    }

    fn removals(&self, v: &Value) -> R<String> {
        Ok(counted(array(v, "Vec<StructuralRemoval>")?.iter().map(|e| self.removal(e)).collect::<R<Vec<_>>>()?))
    }

    fn facet(&self, v: &Value) -> R<String> {
        let m = fields(v, "FacetAssignment", &["facet", "values"])?;
        Ok(format!("{} {}", self.sym(&m["facet"])?, self.asg(&m["values"])?))
    }

    fn facets(&self, v: &Value) -> R<String> {
        Ok(counted(array(v, "Vec<FacetAssignment>")?.iter().map(|f| self.facet(f)).collect::<R<Vec<_>>>()?))
    }

    fn strings(&self, v: &Value, what: &str) -> R<String> {
        Ok(counted(array(v, what)?.iter().map(|s| string(s, what).map(enc)).collect::<R<Vec<_>>>()?))
    }

    fn facet_unset(&self, v: &Value) -> R<String> {
        let m = fields(v, "FacetUnset", &["facet", "fields"])?;
        Ok(format!("{} {}", self.sym(&m["facet"])?, self.strings(&m["fields"], "FacetUnset.fields")?))
    }

    fn action(&self, v: &Value) -> R<String> {
        let (tag, p) = variant(v)?;
        Ok(match tag {
            "SetFields" => format!("AF {}", self.asg(p)?),
            "SetAttributes" => format!("AA {}", self.asg(p)?),
            "SetFacet" => format!("AC {}", self.facet(p)?),
            "UnsetAttributes" => format!("AU {}", self.strings(p, "UnsetAttributes")?),
            "UnsetFacet" => format!("AD {}", self.facet_unset(p)?),
            "SetStructural" => format!("AS {}", self.edges(p)?),
            "UnsetStructural" => format!("AR {}", self.removals(p)?),
            other => return Err(format!("UpdateAction: unknown variant {other}")),
        })
    }

    fn record(&self, p: &Value) -> R<String> {
        let m = fields(p, "RecordCreate", &["handle", "client_key", "set_fields", "set_facets", "set_structural"])?;
        Ok(format!(
            "{} {} {} {} {}",
            enc(string(&m["handle"], "handle")?),
            opt(&m["client_key"], |v| self.scalar(v))?,
            opt(&m["set_fields"], |v| self.asg(v))?,
            self.facets(&m["set_facets"])?,
            opt(&m["set_structural"], |v| self.edges(v))?
        ))
    }

    fn flag(v: &Value) -> &'static str {
        if v.is_null() { "0" } else { "1" }
    }

    pub fn clause(&self, v: &Value) -> R<String> {
        let (tag, p) = variant(v)?;
        Ok(match tag {
            "CreateConcept" => {
                let m = fields(p, "ConceptCreate", &["handle", "type", "client_key", "name", "set_fields", "set_attributes", "set_facets", "set_structural"])?;
                format!(
                    "CC {} {} {} {} {} {}",
                    enc(string(&m["handle"], "handle")?),
                    opt(&m["client_key"], |v| self.scalar(v))?,
                    opt(&m["set_fields"], |v| self.asg(v))?,
                    opt(&m["set_attributes"], |v| self.asg(v))?,
                    self.facets(&m["set_facets"])?,
                    opt(&m["set_structural"], |v| self.edges(v))?
                )
            }
            "UpsertConcept" => {
                let m = fields(
                    p,
                    "ConceptUpsert",
                    &["handle", "match", "expect_version", "set_fields", "set_attributes", "set_facets", "unset_attributes", "unset_facets", "set_structural", "unset_structural"],
                )?;
                format!(
                    "UC {} {} {} {} {} {} {} {} {}",
                    enc(string(&m["handle"], "handle")?),
                    opt(&m["match"], |v| self.matcher(v))?,
                    opt(&m["set_fields"], |v| self.asg(v))?,
                    opt(&m["set_attributes"], |v| self.asg(v))?,
                    self.facets(&m["set_facets"])?,
                    opt(&m["unset_attributes"], |v| self.strings(v, "unset_attributes"))?,
                    counted(array(&m["unset_facets"], "unset_facets")?.iter().map(|f| self.facet_unset(f)).collect::<R<Vec<_>>>()?),
                    opt(&m["set_structural"], |v| self.edges(v))?,
                    opt(&m["unset_structural"], |v| self.removals(v))?
                )
            }
            "EnsureProposition" => {
                let m = fields(p, "EnsureProposition", &["handle", "subject", "predicate", "object", "expect_version"])?;
                format!(
                    "EP {} {} {} {} {}",
                    self.opt_str(&m["handle"])?,
                    self.term(&m["subject"])?,
                    self.patom(&m["predicate"])?,
                    self.term(&m["object"])?,
                    Self::flag(&m["expect_version"])
                )
            }
            "CreateEvidence" => format!("CE {}", self.record(p)?),
            "CreateAssertion" => format!("CA {}", self.record(p)?),
            "CreateActivity" => format!("CV {}", self.record(p)?),
            "Update" => {
                let m = fields(p, "UpdateStatement", &["target", "expect_version", "actions", "where_clauses", "limit"])?;
                format!(
                    "UP {} {} {}",
                    self.eref(&m["target"])?,
                    counted(array(&m["actions"], "actions")?.iter().map(|a| self.action(a)).collect::<R<Vec<_>>>()?),
                    self.opt_where(&m["where_clauses"])?
                )
            }
            "RetractAssertion" => {
                let m = fields(p, "RetractAssertion", &["target", "where_clauses", "limit", "expect_state"])?;
                format!("RA {} {}", self.eref(&m["target"])?, self.opt_where(&m["where_clauses"])?)
            }
            "Archive" | "Tombstone" => {
                let m = fields(p, "RemovalStatement", &["target", "where_clauses", "limit", "expect_state"])?;
                format!("{} {} {}", if tag == "Archive" { "AV" } else { "TS" }, self.eref(&m["target"])?, self.opt_where(&m["where_clauses"])?)
            }
            "SupersedeAssertion" | "CorrectEvidence" => {
                let m = fields(p, tag, &["target", "by", "expect_state"])?;
                format!(
                    "{} {} {} {}",
                    if tag == "SupersedeAssertion" { "SA" } else { "CR" },
                    self.eref(&m["target"])?,
                    self.eref(&m["by"])?,
                    Self::flag(&m["expect_state"])
                )
            }
            "TransitionActivity" => {
                let m = fields(p, "TransitionActivity", &["target", "to", "set_fields", "set_structural", "expect_state"])?;
                format!(
                    "TA {} {} {}",
                    self.eref(&m["target"])?,
                    opt(&m["set_fields"], |v| self.asg(v))?,
                    opt(&m["set_structural"], |v| self.edges(v))?
                )
            }
            "SetRetention" => {
                let m = fields(p, "SetRetention", &["target", "values", "where_clauses", "limit", "expect_version"])?;
                format!("SR {} {} {}", self.eref(&m["target"])?, self.asg(&m["values"])?, self.opt_where(&m["where_clauses"])?)
            }
            "Purge" => {
                let m = fields(p, "PurgeStatement", &["target", "where_clauses", "limit", "reference_policy", "confirm"])?;
                format!("PG {} {} {}", self.eref(&m["target"])?, self.opt_where(&m["where_clauses"])?, enc(string(&m["confirm"], "confirm")?))
            }
            "MergeConcept" => {
                let m = fields(p, "MergeConcept", &["source", "into", "where_clauses", "expect_version"])?;
                format!("MC {} {} {}", self.eref(&m["source"])?, self.eref(&m["into"])?, self.opt_where(&m["where_clauses"])?)
            }
            other => return Err(format!("MutationClause: unknown variant {other}")),
        })
    }
}

/// The request line for a `Command` (as JSON): `plan …`, `export …`, or `None` when the command is
/// outside the property (KQL, other META).
pub fn command_line(cmd: &Value) -> R<Option<String>> {
    let ctx = Ctx { items: true };
    let (tag, p) = variant(cmd)?;
    match tag {
        "Kml" => {
            let m = fields(p, "KmlStatement", &["explicit_transaction", "clauses"])?;
            let clauses = array(&m["clauses"], "clauses")?.iter().map(|c| ctx.clause(c)).collect::<R<Vec<_>>>()?;
            Ok(Some(format!("plan {}", counted(clauses))))
        }
        "Meta" => {
            let (mt, mp) = variant(p)?;
            if mt == "ExportCapsule" {
                let m = fields(mp, "ExportCapsuleCommand", &["target", "where_clauses", "options", "as_of"])?;
                Ok(Some(format!("export {}", ctx.where_list(&m["where_clauses"])?)))
            } else {
                Ok(None)
            }
        }
        "Kql" => Ok(None),
        other => Err(format!("Command: unknown variant {other}")),
    }
}
