//! Shared plumbing of the verification harness (`vh-*` binaries).
//!
//! * [`Rng`]       – splitmix64; every random choice of a run derives from `VERIF_SEED`.
//! * [`Args`]      – the common command line (`--tier --seed --driver --out --replay --focus`).
//! * [`ModelProc`] – the compiled Lean driver (`drv_cXX`) behind a one-line-in / one-line-out pipe.
//! * [`Report`]    – what a run covered and found; written as `report.json`, read by `bin/check`.
//! * [`shrink`]    – delta debugging on an operation list.
//!
//! Two comparisons are always reported separately:
//! `disagreements` (model vs implementation: the *correspondence*) and
//! `oracle_failures` (implementation vs an independent harness-side oracle of the property:
//! a *violation* with a concrete replay).

use serde_json::{Value, json};
use std::collections::{BTreeMap, BTreeSet};
use std::io::{BufRead, BufReader, Write};
use std::path::{Path, PathBuf};
use std::process::{Child, ChildStdin, ChildStdout, Command, Stdio};

pub use serde_json;

// ---------------------------------------------------------------------------------------------
// PRNG
// ---------------------------------------------------------------------------------------------

#[derive(Clone, Debug)]
pub struct Rng(pub u64);

impl Rng {
    pub fn new(seed: u64) -> Self {
        Rng(seed.wrapping_mul(0x9E37_79B9_7F4A_7C15) ^ 0xD1B5_4A32_D192_ED03)
    }
    /// Independent stream for case `i` of seed `seed` (so that a case replays from `(seed, i)`).
    pub fn for_case(seed: u64, i: u64) -> Self {
        let mut r = Rng::new(seed ^ i.wrapping_mul(0xA076_1D64_78BD_642F));
        r.next_u64();
        r
    }
    pub fn next_u64(&mut self) -> u64 {
        self.0 = self.0.wrapping_add(0x9E37_79B9_7F4A_7C15);
        let mut z = self.0;
        z = (z ^ (z >> 30)).wrapping_mul(0xBF58_476D_1CE4_E5B9);
        z = (z ^ (z >> 27)).wrapping_mul(0x94D0_49BB_1331_11EB);
        z ^ (z >> 31)
    }
    /// Uniform in `0..n` (`n > 0`).
    pub fn below(&mut self, n: u64) -> u64 {
        assert!(n > 0);
        self.next_u64() % n
    }
    pub fn range(&mut self, lo: i64, hi_incl: i64) -> i64 {
        lo + self.below((hi_incl - lo + 1) as u64) as i64
    }
    pub fn usize(&mut self, n: usize) -> usize {
        self.below(n as u64) as usize
    }
    pub fn chance(&mut self, num: u64, den: u64) -> bool {
        self.below(den) < num
    }
    pub fn pick<'a, T>(&mut self, xs: &'a [T]) -> &'a T {
        &xs[self.usize(xs.len())]
    }
    pub fn shuffle<T>(&mut self, xs: &mut [T]) {
        for i in (1..xs.len()).rev() {
            let j = self.usize(i + 1);
            xs.swap(i, j);
        }
    }
}

// ---------------------------------------------------------------------------------------------
// Command line
// ---------------------------------------------------------------------------------------------

#[derive(Clone, Debug)]
pub struct Args {
    pub tier: String,
    pub seed: u64,
    /// Path of the compiled Lean driver; `None` = run implementation + oracle only.
    pub driver: Option<PathBuf>,
    pub out: PathBuf,
    pub replay: Option<PathBuf>,
    /// `search` mode: a proof obligation or the correspondence broke; spend the budget on
    /// looking for a concrete failing input with the oracle. Free-form focus hint.
    pub focus: Option<String>,
    /// Directory with `*.ops` corpus files for this property (run first).
    pub corpus: Option<PathBuf>,
    pub extra: BTreeMap<String, String>,
}

impl Args {
    pub fn parse() -> Args {
        let mut a = Args {
            tier: std::env::var("VERIF_TIER").unwrap_or_else(|_| "quick".into()),
            seed: std::env::var("VERIF_SEED").ok().and_then(|s| s.parse().ok()).unwrap_or(1),
            driver: None,
            out: PathBuf::from("."),
            replay: None,
            focus: None,
            corpus: None,
            extra: BTreeMap::new(),
        };
        let mut it = std::env::args().skip(1);
        while let Some(k) = it.next() {
            let mut val = || it.next().unwrap_or_else(|| panic!("missing value for {k}"));
            match k.as_str() {
                "--tier" => a.tier = val(),
                "--seed" => a.seed = val().parse().expect("seed"),
                "--driver" => a.driver = Some(PathBuf::from(val())),
                "--out" => a.out = PathBuf::from(val()),
                "--replay" => a.replay = Some(PathBuf::from(val())),
                "--focus" => a.focus = Some(val()),
                "--corpus" => a.corpus = Some(PathBuf::from(val())),
                other if other.starts_with("--") => {
                    let v = val();
                    a.extra.insert(other[2..].to_string(), v);
                }
                other => panic!("unexpected argument {other}"),
            }
        }
        std::fs::create_dir_all(&a.out).ok();
        a
    }
    pub fn thorough(&self) -> bool {
        self.tier == "thorough"
    }
    /// `q` for the quick tier, `t` for the thorough tier (and for search mode).
    pub fn budget(&self, q: u64, t: u64) -> u64 {
        if self.thorough() || self.focus.is_some() { t } else { q }
    }
}

// ---------------------------------------------------------------------------------------------
// Lean driver
// ---------------------------------------------------------------------------------------------

pub struct ModelProc {
    child: Child,
    stdin: ChildStdin,
    stdout: BufReader<ChildStdout>,
    pub requests: u64,
}

impl ModelProc {
    pub fn spawn(path: &Path) -> std::io::Result<ModelProc> {
        let mut child = Command::new(path).stdin(Stdio::piped()).stdout(Stdio::piped()).spawn()?;
        let stdin = child.stdin.take().unwrap();
        let stdout = BufReader::new(child.stdout.take().unwrap());
        Ok(ModelProc { child, stdin, stdout, requests: 0 })
    }
    pub fn from_args(a: &Args) -> Option<ModelProc> {
        a.driver.as_ref().map(|p| ModelProc::spawn(p).unwrap_or_else(|e| panic!("cannot start model driver {p:?}: {e}")))
    }
    /// One request line → one response line (both without the trailing newline).
    pub fn ask(&mut self, line: &str) -> String {
        debug_assert!(!line.contains('\n'));
        self.requests += 1;
        self.stdin.write_all(line.as_bytes()).expect("driver stdin");
        self.stdin.write_all(b"\n").expect("driver stdin");
        self.stdin.flush().expect("driver stdin");
        let mut out = String::new();
        let n = self.stdout.read_line(&mut out).expect("driver stdout");
        if n == 0 {
            return "<driver-eof>".into();
        }
        while out.ends_with('\n') || out.ends_with('\r') {
            out.pop();
        }
        out
    }
}

impl Drop for ModelProc {
    fn drop(&mut self) {
        let _ = self.child.kill();
        let _ = self.child.wait();
    }
}

// ---------------------------------------------------------------------------------------------
// Report
// ---------------------------------------------------------------------------------------------

#[derive(Default)]
pub struct Report {
    pub property: String,
    pub tier: String,
    pub seed: u64,
    pub evaluations: u64,
    /// canonical strings of the non-trivial cases (distinctness is measured, not assumed)
    nontrivial: BTreeSet<u64>,
    pub rule: String,
    pub samples: Vec<Value>,
    pub model_compared: u64,
    pub disagreements: Vec<Value>,
    pub oracle_failures: Vec<Value>,
    pub histogram: BTreeMap<String, u64>,
    pub measured: BTreeMap<String, Value>,
    pub notes: Vec<String>,
    pub exhaustive: bool,
    pub max_samples: usize,
}

fn fnv(s: &str) -> u64 {
    let mut h: u64 = 0xcbf2_9ce4_8422_2325;
    for b in s.bytes() {
        h ^= b as u64;
        h = h.wrapping_mul(0x0000_0100_0000_01B3);
    }
    h
}

impl Report {
    pub fn new(property: &str, a: &Args, rule: &str) -> Report {
        Report {
            property: property.into(),
            tier: a.tier.clone(),
            seed: a.seed,
            rule: rule.into(),
            max_samples: 6,
            ..Default::default()
        }
    }
    /// Count one evaluated case. `canon` is its canonical text; `nontrivial` is the property's
    /// own rule (stated in `rule`).
    pub fn case(&mut self, canon: &str, nontrivial: bool) {
        self.evaluations += 1;
        if nontrivial {
            self.nontrivial.insert(fnv(canon));
        }
    }
    pub fn hit(&mut self, key: &str) {
        *self.histogram.entry(key.to_string()).or_insert(0) += 1;
    }
    pub fn hit_n(&mut self, key: &str, n: u64) {
        *self.histogram.entry(key.to_string()).or_insert(0) += n;
    }
    pub fn sample(&mut self, v: Value) {
        if self.samples.len() < self.max_samples {
            self.samples.push(v);
        }
    }
    /// model vs implementation differ on a case (the correspondence is broken there)
    pub fn disagreement(&mut self, what: &str, ops: &[String], model: &str, implementation: &str) {
        if self.disagreements.len() < 20 {
            self.disagreements.push(json!({"what": what, "ops": ops, "model": model, "impl": implementation}));
        } else {
            self.hit("disagreements_not_listed");
        }
    }
    /// implementation vs property oracle differ: a violation with a concrete replay.
    /// `key` identifies the failing call shape (used to match `known_findings.json`).
    pub fn oracle_failure(&mut self, key: &str, what: &str, ops: &[String], expected: &str, observed: &str) {
        if self.oracle_failures.len() < 20 {
            self.oracle_failures.push(json!({"key": key, "what": what, "ops": ops, "expected": expected, "observed": observed}));
        } else {
            self.hit("oracle_failures_not_listed");
        }
    }
    pub fn distinct_nontrivial(&self) -> u64 {
        self.nontrivial.len() as u64
    }
    pub fn to_json(&self) -> Value {
        json!({
            "property": self.property, "tier": self.tier, "seed": self.seed,
            "evaluations": self.evaluations,
            "distinct_nontrivial": self.distinct_nontrivial(),
            "rule": self.rule,
            "samples": self.samples,
            "traces_validated_against_impl": self.model_compared,
            "disagreements": self.disagreements,
            "oracle_failures": self.oracle_failures,
            "histogram": self.histogram,
            "measured": self.measured,
            "notes": self.notes,
            "exhaustive": self.exhaustive,
        })
    }
    pub fn write(&self, a: &Args) {
        let p = a.out.join("report.json");
        std::fs::write(&p, serde_json::to_vec_pretty(&self.to_json()).unwrap()).expect("write report");
        eprintln!(
            "[{}] evaluations={} distinct_nontrivial={} model_compared={} disagreements={} oracle_failures={} -> {}",
            self.property,
            self.evaluations,
            self.distinct_nontrivial(),
            self.model_compared,
            self.disagreements.len(),
            self.oracle_failures.len(),
            p.display()
        );
    }
}

// ---------------------------------------------------------------------------------------------
// Shrinking
// ---------------------------------------------------------------------------------------------

/// Delta debugging: returns a (locally) minimal sub-list of `ops` on which `fails` still holds.
/// `fails` must be deterministic. At most `max_runs` evaluations.
pub fn shrink<T: Clone>(ops: Vec<T>, mut fails: impl FnMut(&[T]) -> bool, max_runs: usize) -> Vec<T> {
    let mut cur = ops;
    let mut runs = 0usize;
    let mut chunk = (cur.len() / 2).max(1);
    while chunk >= 1 && !cur.is_empty() {
        let mut i = 0;
        let mut progressed = false;
        while i < cur.len() {
            if runs >= max_runs {
                return cur;
            }
            let end = (i + chunk).min(cur.len());
            let mut cand = cur.clone();
            cand.drain(i..end);
            runs += 1;
            if fails(&cand) {
                cur = cand;
                progressed = true;
            } else {
                i = end;
            }
        }
        if chunk == 1 && !progressed {
            break;
        }
        if !progressed || chunk > 1 {
            chunk = if chunk == 1 { 1 } else { chunk / 2 };
        }
    }
    cur
}

// ---------------------------------------------------------------------------------------------
// Corpus
// ---------------------------------------------------------------------------------------------

/// Reads every `*.ops` file of the corpus directory: one case per file, one op per line,
/// `#` comments and blank lines ignored. Sorted by file name for determinism.
pub fn read_corpus(dir: &Path) -> Vec<(String, Vec<String>)> {
    let mut out = Vec::new();
    let Ok(rd) = std::fs::read_dir(dir) else { return out };
    let mut files: Vec<PathBuf> = rd.filter_map(|e| e.ok().map(|e| e.path())).filter(|p| p.extension().is_some_and(|e| e == "ops")).collect();
    files.sort();
    for f in files {
        let Ok(file) = std::fs::File::open(&f) else { continue };
        let lines: Vec<String> = BufReader::new(file)
            .lines()
            .map_while(Result::ok)
            .map(|l| l.trim().to_string())
            .filter(|l| !l.is_empty() && !l.starts_with('#'))
            .collect();
        out.push((f.file_name().unwrap().to_string_lossy().to_string(), lines));
    }
    out
}

/// Reads the `ops` array of a replay file written by `bin/check` (or a plain `.ops` file).
pub fn read_replay(path: &Path) -> Vec<String> {
    let text = std::fs::read_to_string(path).expect("read replay");
    if let Ok(v) = serde_json::from_str::<Value>(&text)
        && let Some(ops) = v.get("ops").and_then(|o| o.as_array())
    {
        return ops.iter().filter_map(|x| x.as_str().map(|s| s.to_string())).collect();
    }
    text.lines().map(|l| l.trim().to_string()).filter(|l| !l.is_empty() && !l.starts_with('#')).collect()
}

pub fn hex(bytes: &[u8]) -> String {
    let mut s = String::with_capacity(bytes.len() * 2);
    for b in bytes {
        s.push_str(&format!("{b:02x}"));
    }
    s
}

pub fn join<T: std::fmt::Display>(xs: impl IntoIterator<Item = T>, sep: &str) -> String {
    let v: Vec<String> = xs.into_iter().map(|x| x.to_string()).collect();
    v.join(sep)
}
