//! C19 — unreadable elements are invisible; only the control plane changes authority.
//!
//! Four kinds of case (first op line `mode …`):
//!  * `authz`    control-plane history + `auth`/`names` questions: real `EffectiveAuthority` vs Lean model,
//!               and an oracle re-deriving must-hold facts from the op list (authz.rs);
//!  * `gate`     KIP command texts: real `gate::*_permissions` vs the model interpreting regenerated tables,
//!               and a keyword-level oracle (gate.rs);
//!  * `nonint`   relational non-interference: a restricted Principal's answers on store S against the
//!               owner's answers on a store rebuilt from only what that Principal may read (nonint.rs);
//!  * `preserve` every session command leaves gov_* rows, Space governance members and existing element
//!               governance blocks byte-identical and the audit prefix-preserved (preserve.rs).
mod authz;
mod gate;
mod nonint;
mod preserve;
mod wire;

use anda_cognitive_nexus::CognitiveNexus;
use anda_db::database::{AndaDB, DBConfig};
use object_store::memory::InMemory;
use std::sync::Arc;
use vh_common::serde_json::json;
use vh_common::*;

pub async fn fresh(stocked: bool) -> Result<CognitiveNexus, String> {
    let db = AndaDB::connect(Arc::new(InMemory::new()), DBConfig { name: "c19".into(), description: String::new(), ..Default::default() })
        .await
        .map_err(|e| format!("connect: {e}"))?;
    let nexus = CognitiveNexus::connect(Arc::new(db)).await.map_err(|e| format!("nexus: {e:?}"))?;
    if stocked {
        use anda_cognitive_nexus::schema::{PackageState, SchemaLock, SchemaPackage};
        let pkg = SchemaPackage::parse(anda_cognitive_nexus::profiles::COGNITIVE_MEMORY).map_err(|e| format!("profile: {e:?}"))?;
        nexus.install_package(&pkg, "vh").await.map_err(|e| format!("install: {e:?}"))?;
        let mut lock = SchemaLock::default();
        lock.packages.insert("kip://profiles/cognitive-memory".into(), "2.0.0".into());
        lock.states.insert("kip://profiles/cognitive-memory".into(), PackageState::Active);
        nexus.activate_schema(anda_cognitive_nexus::nexus::DEFAULT_SPACE, lock).await.map_err(|e| format!("activate: {e:?}"))?;
    }
    Ok(nexus)
}

/// What one case produced: oracle failures `(key, what, ops context, expected, observed)`, disagreements
/// `(what, ops context, model, impl)`, histogram keys, whether it was non-trivial, #model comparisons.
#[derive(Default)]
pub struct CaseOut {
    pub failures: Vec<(String, String, Vec<String>, String, String)>,
    pub disagreements: Vec<(String, Vec<String>, String, String)>,
    pub hits: Vec<String>,
    pub nontrivial: bool,
    pub compared: u64,
    pub measured: Vec<(String, f64)>,
}

async fn run_authz(ops: &[String], model: &mut Option<ModelProc>) -> Result<CaseOut, String> {
    let nexus = fresh(false).await?;
    let mut out = CaseOut::default();
    let mut rf = authz::Ref::new();
    if let Some(m) = model.as_mut() { m.ask("reset"); }
    for (i, op) in ops.iter().enumerate() {
        if op.starts_with("mode ") { continue; }
        let got = authz::apply(&nexus, op).await;
        let head = op.split(' ').next().unwrap_or("");
        out.hits.push(format!("op:{head}"));
        if got == "bad-op" { out.hits.push("bad-op".into()); continue; }
        rf.track(op);
        if head == "deleg" && rf.has_forward_parent() { out.hits.push("cover:history-with-forward-parent(cycle-capable)".into()); }
        if head == "deleg" && got.starts_with("ok ") { if let Some(n) = got[3..].parse::<usize>().ok() { out.hits.push(format!("cover:delegation-row-chain-depth-{}", rf.chain_depth(n).min(9))); } }
        if head == "auth" || head == "names" {
            let dec = got.split(' ').nth(1).unwrap_or("");
            if let Some(w) = got.split(' ').find_map(|x| x.strip_prefix("why=")) { out.hits.push(format!("stage:{}", w.split(':').next().unwrap_or(w))); }
            out.hits.push(if got.starts_with("ok ") { format!("decision:{dec}") } else if got.starts_with("held") { "names".into() } else { format!("answer:{got}") });
            if got.contains("used=kip:grant") { out.hits.push("witness:grant".into()); out.nontrivial = true; }
            if got.contains("used=kip:delegation") {
                out.hits.push("witness:delegation".into()); out.nontrivial = true;
                if let Some(n) = got.split(' ').find_map(|x| x.strip_prefix("used=kip:delegation:")).and_then(|n| n.parse::<usize>().ok()) { out.hits.push(format!("cover:cited-delegation-chain-depth-{}", rf.chain_depth(n))); }
            }
            if got.contains("used=policy:") { out.hits.push("witness:policy".into()); out.nontrivial = true; }
            if got.contains("used=owner:") { out.hits.push("witness:owner".into()); }
            if op.split(' ').nth(6).is_some_and(|c| c != "-") && head == "auth" { out.hits.push("named-chain".into()); }
            for (key, what, expected) in rf.judge(op, &got) {
                out.failures.push((key, what, ops[..=i].to_vec(), expected, got.clone()));
            }
            // delegate ⊆ delegator, on real decisions: whatever a Delegation lets its holder do, the Principal that made
            // it is not refused when it asks the very same question (same permission, resource and caller context)
            if head == "auth" && (got.starts_with("ok allow") || got.starts_with("ok require_approval")) {
                let t: Vec<&str> = op.split(' ').collect();
                if let Some(n) = got.split(' ').find_map(|x| x.strip_prefix("used=kip:delegation:")).and_then(|n| n.parse::<usize>().ok()) {
                    // monotone attenuation: every Principal up the chain (nearest first) is asked the very same question
                    for dor in rf.ancestors_to_reask(t[1], n) {
                        let mut q = t.clone();
                        q[2] = dor.as_str();
                        q[6] = "-";
                        let asked = q.join(" ");
                        let theirs = authz::apply(&nexus, &asked).await;
                        out.hits.push("oracle:delegator-reasked".into());
                        let mut ctx = ops[..=i].to_vec();
                        ctx.push(asked.clone());
                        if theirs.starts_with("ok deny") {
                            out.failures.push(("authz:delegate-allowed-where-its-delegator-is-denied".into(), format!("kip:delegation:{n} lets {} do what {} (a link above it) is itself refused", t[2], dor), ctx, "no Principal up the chain is refused the same request".into(), format!("delegate: {got} | ancestor: {theirs}")));
                            break;
                        }
                        // an ancestor whose ONLY authority is its link answers with that link's constraints: the delegate's must stay inside
                        if theirs.starts_with("ok allow") && rf.sole_authority(t[1], &dor) {
                            let cons_of = |ans: &str| ans.split(' ').find_map(|x| x.strip_prefix("cons=")).unwrap_or("").to_string();
                            let (mine, anc) = (cons_of(&got), cons_of(&theirs));
                            let field = |c: &str, k: &str| c.split(';').filter_map(|p| p.split_once('=')).find(|(kk, _)| *kk == k).map(|(_, v)| v.to_string()).unwrap_or("-".into());
                            let (fa, fm) = (wire::csv(&field(&anc, "f")), wire::csv(&field(&mine, "f")));
                            let mask_ok = fa.is_empty() || (!fm.is_empty() && fm.iter().all(|x| fa.contains(x)));
                            let rank = |l: &str| match l { "public" => 0, "internal" => 1, "private" => 2, "sensitive" => 3, "secret" => 4, _ => 255 };
                            let (ca_, cm_) = (field(&anc, "mc"), field(&mine, "mc"));
                            let ceil_ok = ca_ == "-" || (cm_ != "-" && rank(&cm_) <= rank(&ca_));
                            let (ra_, rm_) = (field(&anc, "mr"), field(&mine, "mr"));
                            let res_ok = ra_ == "-" || (rm_ != "-" && rm_.parse::<u64>().unwrap_or(u64::MAX) <= ra_.parse::<u64>().unwrap_or(0));
                            let exp_ok = field(&anc, "x") == "1" || field(&mine, "x") == "0";
                            if !(mask_ok && ceil_ok && res_ok && exp_ok) {
                                out.failures.push(("authz:delegate-less-constrained-than-its-delegator".into(), format!("kip:delegation:{n} lets {} act under wider constraints (field mask / ceiling / max_results / export) than {}, whose only authority is the link above", t[2], dor), ctx, format!("constraints inside {anc}"), format!("delegate: {got} | ancestor: {theirs}")));
                                break;
                            }
                        }
                    }
                }
            }
        }
        if let Some(m) = model.as_mut() {
            let ans = m.ask(op);
            out.compared += 1;
            if ans != got {
                out.disagreements.push((format!("answer to `{head}`"), ops[..=i].to_vec(), ans, got.clone()));
            }
        }
    }
    Ok(out)
}

fn run_gate(ops: &[String], model: &mut Option<ModelProc>) -> CaseOut {
    let mut out = CaseOut::default();
    for op in ops {
        let Some(text) = op.strip_prefix("cmd ") else { continue };
        match gate::run(text) {
            None => out.hits.push("gate:unparsed".into()),
            Some(row) => {
                out.hits.push(format!("gate:{}", row.family));
                if row.answer != "perms -" { out.nontrivial = true; }
                for (key, expected) in gate::judge(text, &row.answer) {
                    out.failures.push((key, "the command gate asks for less than the property requires".into(), vec!["mode gate".into(), op.clone()], expected, row.answer.clone()));
                }
                if let Some(m) = model.as_mut() {
                    let ans = m.ask(&row.model_req);
                    out.compared += 1;
                    if ans != row.answer {
                        out.disagreements.push(("gate permissions".into(), vec!["mode gate".into(), op.clone(), row.model_req.clone()], ans, row.answer.clone()));
                    }
                }
            }
        }
    }
    out
}

fn run_case(rt: &tokio::runtime::Runtime, ops: &[String], model: &mut Option<ModelProc>) -> Result<CaseOut, String> {
    let mode = ops.first().and_then(|l| l.strip_prefix("mode ")).unwrap_or("authz").to_string();
    let r = std::panic::catch_unwind(std::panic::AssertUnwindSafe(|| match mode.as_str() {
        "authz" => rt.block_on(run_authz(ops, model)),
        "gate" => Ok(run_gate(ops, model)),
        "nonint" => rt.block_on(nonint::run(ops, model)),
        "preserve" => rt.block_on(preserve::run(ops)),
        other => Err(format!("unknown mode {other}")),
    }));
    match r {
        Ok(x) => x,
        Err(_) => {
            let mut out = CaseOut::default();
            out.failures.push(("panic".into(), "the implementation panicked".into(), ops.to_vec(), "no panic".into(), "panic".into()));
            Ok(out)
        }
    }
}

fn main() {
    let args = Args::parse();
    let mut rep = Report::new(
        "C19",
        &args,
        "cases of four kinds: authz = control-plane history (principals, groups, grants scoped by kind/type/classification/element, delegation chains, \
         policy statements with conditions/obligations, revocations, expiries, suspensions) with auth questions, non-trivial when some answer is carried by a \
         Grant, Delegation or policy statement; gate = KIP command texts, non-trivial when a permission is demanded; nonint = governed population + restricted \
         reader + query battery, non-trivial when the reader sees a non-empty proper subset and some answer is non-empty; preserve = governed store + command \
         battery, non-trivial when some command commits. distinct = distinct op list",
    );
    let rt = tokio::runtime::Builder::new_multi_thread().worker_threads(2).enable_all().build().unwrap();
    let mut model = ModelProc::from_args(&args);
    if let Some(m) = model.as_mut() {
        let c = m.ask("consts");
        let want = format!("MAX_DELEGATION_DEPTH=8 permissions={}", anda_cognitive_nexus::governance::Permission::ALL.len());
        if c != want { rep.disagreement("constants", &["consts".into()], &c, &want); }
    }

    let mut cases: Vec<(String, Vec<String>)> = vec![];
    if let Some(p) = &args.replay {
        cases.push(("replay".into(), read_replay(p)));
    } else {
        if let Some(dir) = &args.corpus { cases.extend(read_corpus(dir)); }
        cases.push(("gate-fixed".into(), gate::all_fixed()));
        let focus = args.focus.clone().unwrap_or_default();
        let only = |k: &str| focus.is_empty() || !["authz", "gate", "nonint", "preserve"].iter().any(|m| focus.contains(m)) || focus.contains(k);
        let budgets: [(&str, u64, u64); 4] = [("authz", 480, 7000), ("gate", 60, 2000), ("nonint", 64, 1200), ("preserve", 30, 400)];
        for (kind, q, t) in budgets {
            if !only(kind) { continue; }
            for i in 0..args.budget(q, t) {
                let salt = match kind { "authz" => 0u64, "gate" => 1 << 40, "nonint" => 2 << 40, _ => 3 << 40 };
                let mut r = Rng::for_case(args.seed, salt + i);
                let ops = match kind {
                    "authz" => authz::gen_case(&mut r),
                    "gate" => gate::gen_case(&mut r),
                    "nonint" => nonint::gen_case(&mut r),
                    _ => preserve::gen_case(&mut r),
                };
                cases.push((format!("{kind}{i}"), ops));
            }
        }
    }

    if let Ok(which) = std::env::var("VH_C19_DUMP") {
        for (name, ops) in &cases { if *name == which { println!("{}", ops.join("\n")); } }
        return;
    }
    let mut samples_by_mode = std::collections::BTreeSet::new();
    // every failing call shape (key) is reported once, shrunk; repeats are counted in the histogram
    let mut reported_keys = std::collections::BTreeSet::new();
    for (name, ops) in &cases {
        let t_case = std::time::Instant::now();
        let out = match run_case(&rt, ops, &mut model) {
            Ok(o) => o,
            Err(e) => { rep.hit("case_error"); if rep.notes.len() < 20 { rep.notes.push(format!("{name}: case could not run: {e}")); } continue; }
        };
        {
            let mode = ops.first().and_then(|l| l.strip_prefix("mode ")).unwrap_or("?");
            let e = rep.measured.entry(format!("seconds_in_{mode}_cases")).or_insert(json!(0.0));
            *e = json!(((e.as_f64().unwrap_or(0.0) + t_case.elapsed().as_secs_f64()) * 1000.0).round() / 1000.0);
        }
        for h in &out.hits { rep.hit(h); }
        for (k, v) in &out.measured { let e = rep.measured.entry(k.clone()).or_insert(json!(0.0)); *e = json!(e.as_f64().unwrap_or(0.0) + v); }
        rep.model_compared += out.compared;
        rep.case(&ops.join("|"), out.nontrivial);
        let mode = ops.first().cloned().unwrap_or_default();
        if samples_by_mode.insert(mode) { rep.sample(json!({"case": name, "ops": ops.iter().take(30).collect::<Vec<_>>()})); }

        // oracle failures: one per key per case, shrunk
        let mut seen = std::collections::BTreeSet::new();
        for (key, what, ctx, expected, observed) in out.failures {
            if !seen.insert(key.clone()) { continue; }
            if args.replay.is_none() && !reported_keys.insert(key.clone()) { rep.hit(&format!("oracle-failure-repeat:{key}")); continue; }
            let small = if args.replay.is_some() || key == "panic" { ctx.clone() } else {
                let head = ctx[0].clone();
                let k2 = key.clone();
                let mut s = shrink(ctx[1..].to_vec(), |cand| {
                    let mut c = vec![head.clone()];
                    c.extend_from_slice(cand);
                    let mut none = None;
                    run_case(&rt, &c, &mut none).is_ok_and(|o| o.failures.iter().any(|f| f.0 == k2))
                }, 120);
                s.insert(0, head);
                s
            };
            // re-run the shrunk case to report its own expected/observed
            let mut none = None;
            let fresh_out = run_case(&rt, &small, &mut none).ok().and_then(|o| o.failures.into_iter().find(|f| f.0 == key));
            match fresh_out {
                Some((k, w, c, e, o)) => rep.oracle_failure(&k, &format!("{w} [{name}]"), &c, &e, &o),
                None => rep.oracle_failure(&key, &format!("{what} [{name}]"), &ctx, &expected, &observed),
            }
        }
        if let Some((what, ctx, m, i)) = out.disagreements.into_iter().next() {
            let small = if args.replay.is_some() || model.is_none() || !ctx[0].starts_with("mode authz") { ctx.clone() } else {
                let head = ctx[0].clone();
                let last = ctx.last().cloned().unwrap();
                let mut s = shrink(ctx[1..ctx.len() - 1].to_vec(), |cand| {
                    let mut c = vec![head.clone()];
                    c.extend_from_slice(cand);
                    c.push(last.clone());
                    run_case(&rt, &c, &mut model).is_ok_and(|o| o.disagreements.iter().any(|d| d.1.last() == Some(&last)))
                }, 150);
                s.insert(0, head);
                s.push(last);
                s
            };
            let again = run_case(&rt, &small, &mut model).ok().and_then(|o| o.disagreements.into_iter().next());
            match again {
                Some((w, c, mm, ii)) => rep.disagreement(&format!("{w} [{name}]"), &c, &mm, &ii),
                None => rep.disagreement(&format!("{what} [{name}]"), &ctx, &m, &i),
            }
        }
    }
    rep.write(&args);
}
