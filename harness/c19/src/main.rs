//! Harness for property C19 (stub: not built yet).
fn main() {
    let a = vh_common::Args::parse();
    let r = vh_common::Report::new("C19", &a, "stub");
    r.write(&a);
}
