//! Part D — the command gate: the real `gate::{kql,meta,kml}_permissions` on parsed commands against
//! the model interpreting the regenerated tables, plus a text-level oracle (keywords → permissions).
use anda_cognitive_nexus::governance::gate;
use anda_kip::{Command, DescribeTarget, MetaCommand, MutationClause, WhereClause};
use vh_common::Rng;

fn clause_shape(c: &WhereClause) -> String {
    let kids = |v: &Vec<WhereClause>| v.iter().map(clause_shape).collect::<Vec<_>>().join(",");
    match c {
        WhereClause::Concept { .. } => "Concept".into(),
        WhereClause::Proposition { .. } => "Proposition".into(),
        WhereClause::Assertion { .. } => "Assertion".into(),
        WhereClause::Evidence { .. } => "Evidence".into(),
        WhereClause::Activity { .. } => "Activity".into(),
        WhereClause::Structural { .. } => "Structural".into(),
        WhereClause::Belief { .. } => "Belief".into(),
        WhereClause::BeliefSlot { .. } => "BeliefSlot".into(),
        WhereClause::Filter { .. } => "Filter".into(),
        WhereClause::Not(v) => format!("Not({})", kids(v)),
        WhereClause::Optional(v) => format!("Optional({})", kids(v)),
        WhereClause::Union(v) => format!("Union({})", kids(v)),
    }
}

fn meta_variant(m: &MetaCommand) -> (String, Option<(String, bool)>) {
    let d = |t: &DescribeTarget| -> (String, bool) {
        match t {
            DescribeTarget::Primer { .. } => ("Primer".into(), false),
            DescribeTarget::Protocol => ("Protocol".into(), false),
            DescribeTarget::ExecutionContext => ("ExecutionContext".into(), false),
            DescribeTarget::Capabilities => ("Capabilities".into(), false),
            DescribeTarget::Space { .. } => ("Space".into(), false),
            DescribeTarget::SchemaEnvironment { as_of } => ("SchemaEnvironment".into(), as_of.is_some()),
            DescribeTarget::Package(_) => ("Package".into(), false),
            DescribeTarget::Type(_) => ("Type".into(), false),
            DescribeTarget::Predicate(_) => ("Predicate".into(), false),
            DescribeTarget::Facet(_) => ("Facet".into(), false),
            DescribeTarget::StructuralField(_) => ("StructuralField".into(), false),
            DescribeTarget::Compatibility { .. } => ("Compatibility".into(), false),
            DescribeTarget::Error(_) => ("Error".into(), false),
            DescribeTarget::Transaction(_) => ("Transaction".into(), false),
            DescribeTarget::TransactionByIdempotencyKey(_) => ("TransactionByIdempotencyKey".into(), false),
            DescribeTarget::Snapshot { as_of } => ("Snapshot".into(), as_of.is_some()),
            DescribeTarget::Capsule(_) => ("Capsule".into(), false),
            DescribeTarget::EpistemicPolicy { .. } => ("EpistemicPolicy".into(), false),
            DescribeTarget::ProjectionCapability => ("ProjectionCapability".into(), false),
            DescribeTarget::Trust { .. } => ("Trust".into(), false),
            DescribeTarget::Access { .. } => ("Access".into(), false),
        }
    };
    match m {
        MetaCommand::Describe(t) => ("Describe".into(), Some(d(t))),
        MetaCommand::List(_) => ("List".into(), None),
        MetaCommand::Search(_) => ("Search".into(), None),
        MetaCommand::Verify { .. } => ("Verify".into(), None),
        MetaCommand::Validate(_) => ("Validate".into(), None),
        MetaCommand::Preview(_) => ("Preview".into(), None),
        MetaCommand::History(_) => ("History".into(), None),
        MetaCommand::Changes(_) => ("Changes".into(), None),
        MetaCommand::Snapshot { .. } => ("Snapshot".into(), None),
        MetaCommand::ExportCapsule(_) => ("ExportCapsule".into(), None),
    }
}

fn clause_variant(c: &MutationClause) -> &'static str {
    match c {
        MutationClause::CreateConcept(_) => "CreateConcept",
        MutationClause::UpsertConcept(_) => "UpsertConcept",
        MutationClause::EnsureProposition(_) => "EnsureProposition",
        MutationClause::CreateEvidence(_) => "CreateEvidence",
        MutationClause::CreateAssertion(_) => "CreateAssertion",
        MutationClause::CreateActivity(_) => "CreateActivity",
        MutationClause::Update(_) => "Update",
        MutationClause::RetractAssertion(_) => "RetractAssertion",
        MutationClause::SupersedeAssertion(_) => "SupersedeAssertion",
        MutationClause::CorrectEvidence(_) => "CorrectEvidence",
        MutationClause::TransitionActivity(_) => "TransitionActivity",
        MutationClause::SetRetention(_) => "SetRetention",
        MutationClause::Archive(_) => "Archive",
        MutationClause::Tombstone(_) => "Tombstone",
        MutationClause::Purge(_) => "Purge",
        MutationClause::MergeConcept(_) => "MergeConcept",
    }
}

pub struct GateRow {
    /// the line for the model (`gate …`), the implementation's answer, the family
    pub model_req: String,
    pub answer: String,
    pub family: &'static str,
}

/// `None` when the text does not parse (counted, not compared).
pub fn run(text: &str) -> Option<GateRow> {
    let cmd = anda_kip::parse_kip(text).ok()?;
    let show = |ps: Vec<anda_cognitive_nexus::governance::Permission>| {
        let v: Vec<&str> = ps.iter().map(|p| p.as_str()).collect();
        format!("perms {}", if v.is_empty() { "-".to_string() } else { v.join(",") })
    };
    Some(match &cmd {
        Command::Kql(q) => GateRow {
            model_req: format!("gate kql {} {}", q.as_of.is_some() as u8, q.where_clauses.iter().map(clause_shape).collect::<Vec<_>>().join(",")),
            answer: show(gate::kql_permissions(q)),
            family: "kql",
        },
        Command::Meta(m) => {
            let (v, d) = meta_variant(m);
            GateRow {
                model_req: match d { Some((t, ao)) => format!("gate meta {v} {t} {}", ao as u8), None => format!("gate meta {v}") },
                answer: show(gate::meta_permissions(m)),
                family: "meta",
            }
        }
        Command::Kml(s) => GateRow {
            model_req: format!("gate kml {}", s.clauses.iter().map(clause_variant).collect::<Vec<_>>().join(",")),
            answer: show(gate::kml_permissions(s)),
            family: "kml",
        },
    })
}

/// Text-level oracle: what the property says a command of this spelling must ask for.
pub fn judge(text: &str, answer: &str) -> Vec<(String, String)> {
    let perms: Vec<&str> = answer.strip_prefix("perms ").map(|s| if s == "-" { vec![] } else { s.split(',').collect() }).unwrap_or_default();
    let has = |p: &str| perms.contains(&p);
    let up = text.trim_start();
    let mut out = vec![];
    let is_kql = up.starts_with("FIND");
    if is_kql && !has("read") { out.push(("gate:kql-without-read".to_string(), "read".to_string())); }
    if is_kql && text.contains(" AS OF ") && !has("read_history") { out.push(("gate:as-of-without-read-history".into(), "read_history".into())); }
    if is_kql && text.contains(" BELIEF ") && !has("project") { out.push(("gate:belief-without-project".into(), "project".into())); }
    if up.starts_with("EXPORT") && !has("export") { out.push(("gate:export-without-export".into(), "export".into())); }
    if up.starts_with("SEARCH") && !has("search") { out.push(("gate:search-without-search".into(), "search".into())); }
    if (up.starts_with("HISTORY") || up.starts_with("CHANGES") || up.starts_with("SNAPSHOT")) && !has("read_history") { out.push(("gate:history-without-read-history".into(), "read_history".into())); }
    const WRITE: [&str; 16] = ["create", "update", "assert", "retract_own", "supersede_own", "maintain", "manage_retention", "archive", "tombstone", "purge", "merge_identity",
        "derive", "record_attributed_assertion", "assert_as_actor", "moderate_assertion", "quarantine"];
    let kml_kw = ["CREATE ", "UPSERT ", "ENSURE ", "UPDATE ", "RETRACT ", "SUPERSEDE ", "CORRECT ", "TRANSITION ", "SET RETENTION", "ARCHIVE ", "TOMBSTONE ", "PURGE ", "MERGE ", "MUTATE "];
    if kml_kw.iter().any(|k| up.starts_with(k)) && !perms.iter().any(|p| WRITE.contains(p)) { out.push(("gate:kml-without-write-permission".into(), "at least one write permission".into())); }
    if up.starts_with("PURGE") && !has("purge") { out.push(("gate:purge-without-purge".into(), "purge".into())); }
    if up.starts_with("TOMBSTONE") && !has("tombstone") { out.push(("gate:tombstone-without-tombstone".into(), "tombstone".into())); }
    out
}

fn gen_where(r: &mut Rng, depth: u32, n: &mut u32) -> String {
    let mut parts = vec![];
    let k = 1 + r.usize(3);
    for _ in 0..k {
        *n += 1;
        let i = *n;
        let leaf = depth == 0 || r.chance(3, 5);
        parts.push(if leaf {
            match r.below(9) {
                0 | 1 => format!("?c{i} CONCEPT {{type: \"Person\"}}"),
                2 => format!("?p{i} PROPOSITION (?s{i}, \"prefers\", ?o{i})"),
                3 => format!("?a{i} ASSERTION {{stance: \"support\"}}"),
                4 => format!("?e{i} EVIDENCE {{}}"),
                5 => format!("?b{i} BELIEF (?s{i}, \"prefers\", ?o{i})"),
                6 => format!("?sl{i} BELIEF SLOT (?x{i}, \"prefers\")"),
                7 => format!("?act{i} ACTIVITY {{}}"),
                _ => format!("?c{i} CONCEPT {{name: \"n{i}\"}} FILTER(?c{i}.name == \"n{i}\")"),
            }
        } else {
            let inner = gen_where(r, depth - 1, n);
            match r.below(3) { 0 => format!("NOT {{ {inner} }}"), 1 => format!("OPTIONAL {{ {inner} }}"), _ => format!("UNION {{ {inner} }}") }
        });
    }
    parts.join(" ")
}

const META: [&str; 40] = [
    "DESCRIBE PRIMER", "DESCRIBE PRIMER MODE \"full\"", "DESCRIBE PROTOCOL", "DESCRIBE CAPABILITIES", "DESCRIBE EXECUTION CONTEXT", "DESCRIBE ACCESS",
    "DESCRIBE ACCESS WITH {operation: \"read\", kind: \"concept\"}", "DESCRIBE TRUST", "DESCRIBE PROJECTION CAPABILITY", "DESCRIBE EPISTEMIC POLICY \"baseline\"",
    "DESCRIBE ERROR \"VersionConflict\"", "DESCRIBE TYPE \"Person\"", "DESCRIBE PREDICATE \"prefers\"", "DESCRIBE FACET \"MnemonicState\"", "DESCRIBE SCHEMA ENVIRONMENT",
    "DESCRIBE SCHEMA ENVIRONMENT AS OF SEQ 1", "DESCRIBE TRANSACTION \"tx-1\"", "DESCRIBE TRANSACTION BY IDEMPOTENCY KEY \"k\"", "DESCRIBE SNAPSHOT", "DESCRIBE SNAPSHOT AS OF SEQ 1",
    "DESCRIBE SPACE", "DESCRIBE CAPSULE \"x\"", "DESCRIBE PACKAGE \"kip://profiles/cognitive-memory\"", "DESCRIBE STRUCTURAL FIELD \"generated_by\"", "DESCRIBE COMPATIBILITY FROM \"1.0\" TO \"2.0\"",
    "LIST TYPES", "LIST SPACES", "LIST SCHEMA PACKAGES", "LIST EPISTEMIC POLICIES", "LIST PREDICATES", "SEARCH CONCEPT \"Alice\"", "SEARCH COGNITION \"x\" LIMIT 2",
    "VERIFY BLOB \"x\"", "VALIDATE KQL \"FIND(?c) WHERE { ?c CONCEPT {} }\"", "PREVIEW KML \"CREATE CONCEPT ?x { TYPE \\\"Person\\\" NAME \\\"G\\\" }\"", "HISTORY SPACE",
    "CHANGES AFTER SEQ 0", "SNAPSHOT", "SNAPSHOT AS OF SEQ 1", "EXPORT CAPSULE ?c WHERE { ?c CONCEPT {} }",
];
const KML: [&str; 22] = [
    "CREATE CONCEPT ?c { TYPE \"Person\" NAME \"A\" }", "UPSERT CONCEPT ?p { MATCH {key: \"k\"} SET FIELDS {name: \"One\"} }", "ENSURE PROPOSITION ?p (\"C-1\", \"prefers\", \"C-2\")",
    "CREATE EVIDENCE ?e { SET FIELDS {evidence_class: \"Document\", payload: \"x\"} }",
    "CREATE ASSERTION ?a { SET FIELDS {proposition: \"P-1\", asserted_by: \"C-1\", stance: \"support\", mode: \"stated\", confidence: 0.9} }",
    "CREATE ACTIVITY ?act { SET FIELDS {activity_class: \"Summarization\"} }", "UPDATE \"C-1\" SET FIELDS {name: \"B\"}", "UPDATE ?c SET FIELDS {name: \"B\"} WHERE { ?c CONCEPT {name: \"A\"} }",
    "RETRACT ASSERTION \"A-1\"", "SUPERSEDE ASSERTION \"A-1\" BY \"A-2\"", "CORRECT EVIDENCE \"E-1\" BY \"E-2\"", "TRANSITION ACTIVITY \"V-1\" TO \"completed\"",
    "SET RETENTION \"C-1\" { legal_hold: true }", "ARCHIVE \"C-1\"", "ARCHIVE ?c WHERE { ?c CONCEPT {type: \"Person\"} }", "TOMBSTONE \"C-1\"", "PURGE \"C-1\" CONFIRM \"PURGE\"",
    "MERGE CONCEPT \"C-2\" INTO \"C-1\"",
    "MUTATE { CREATE CONCEPT ?a { TYPE \"Person\" NAME \"A\" } ARCHIVE \"C-1\" }", "MUTATE { CREATE CONCEPT ?a { TYPE \"Person\" NAME \"A\" } CREATE CONCEPT ?b { TYPE \"Person\" NAME \"B\" } ENSURE PROPOSITION ?p (?a, \"prefers\", ?b) }",
    "MUTATE { TOMBSTONE \"C-1\" PURGE \"C-2\" CONFIRM \"PURGE\" UPDATE \"C-3\" SET FIELDS {name: \"Z\"} }", "MUTATE { UPSERT CONCEPT ?p { MATCH {key: \"k\"} SET FIELDS {name: \"One\"} } SET RETENTION \"C-1\" { legal_hold: true } }",
];

pub fn gen_case(r: &mut Rng) -> Vec<String> {
    let mut ops = vec!["mode gate".to_string()];
    for _ in 0..12 {
        let mut n = 0;
        let w = gen_where(r, 3, &mut n);
        let asof = match r.below(5) { 0 => " AS OF SEQ 1", 1 => " AS OF TIME \"2020-01-01T00:00:00Z\"", _ => "" };
        ops.push(format!("cmd FIND(COUNT(?c1)) WHERE {{ {w} }}{asof}"));
    }
    for _ in 0..8 { ops.push(format!("cmd {}", r.pick(&META))); }
    for _ in 0..8 { ops.push(format!("cmd {}", r.pick(&KML))); }
    ops
}

pub fn all_fixed() -> Vec<String> {
    let mut ops = vec!["mode gate".to_string()];
    ops.extend(META.iter().map(|c| format!("cmd {c}")));
    ops.extend(KML.iter().map(|c| format!("cmd {c}")));
    ops
}
