//! Part B — relational non-interference (the oracle of the first sentence of C19).
//!
//! A case builds a governed population S (Concepts with numeric / text attributes and mixed
//! classifications, Propositions between them), one restricted reader (one or two read Grants scoped by
//! kind / type / classification / element, a classification ceiling, optionally a field mask) and a battery
//! of KQL / META commands. The reader's answers on S must equal the **owner's** answers on S', a second
//! Nexus built by replaying only the creations of the elements the reader may read (with masked members
//! left out). `readable` is computed here, from the generated Grants alone (`reads`), and — as an extra
//! tie, not as the oracle — compared with the real `may_read` and with the Lean model's decision.
//!
//! ops:  elem <name> <Type> <rank|-> <tag|-> <class|->
//!       prop <subject name> <object name> <class|->
//!       rgrant <scope> <cons>                      (actions are fixed: every read-side permission)
//!       dgrant <actions csv> <scope> <cons>        (a delegable Grant of the delegator `lead`)
//!       rdeleg <actions csv> <scope> <cons>        (a Delegation lead → reader; the reader may hold nothing else)
//!       mdeleg <actions csv> <scope> <cons>        (a re-delegable Delegation lead → mid; every `rdeleg` then is mid → reader with it as parent;
//!                                                   `f=@mask` = the case's field mask, `f=@only` = the masked member alone)
//!       pallow <scope> <cons>                      (an allow statement for the reader on the Space's bound policy, every read-side
//!                                                   permission; `e=` names elements — authority that comes ONLY from the policy)
//!       mask <none|attributes|name>                (which member the Grants' field mask hides)
//!       q <command text; <<id:NAME>> = that element's id in the store at hand, <<seq:K>> / <<seqmid:K>> = the Space
//!          sequence after step K / between creating and classifying the element of step K>
//!       page <limit> <command text>                (run, then follow the cursor once)
use crate::wire::*;
use crate::{fresh, CaseOut};
use anda_cognitive_nexus::governance::rows::PolicyStatement;
use anda_cognitive_nexus::governance::store::{DelegationDraft, GrantDraft, PolicyDraft, PrincipalDraft};
use anda_cognitive_nexus::governance::{AuthContext, SYSTEM_PRINCIPAL};
use anda_cognitive_nexus::nexus::{Session, DEFAULT_SPACE};
use anda_cognitive_nexus::ElementId;
use anda_kip::{Executor, Request, Response, TopLevelStatus};
use std::collections::BTreeMap;
use vh_common::serde_json::{self, json, Value};
use vh_common::{ModelProc, Rng};

pub const READER: &str = "kip:principal:reader";
pub const LEAD: &str = "kip:principal:lead";
pub const MID: &str = "kip:principal:mid";
const READ_ACTIONS: [&str; 6] = ["read", "search", "discover", "read_history", "project", "export"];

pub async fn exec(session: &Session, text: &str, params: Option<Value>) -> Response {
    let request: Request = match params {
        None => Request::single(text),
        Some(p) => match serde_json::from_value(json!({"kip": "2.0", "operations": [{"command": text, "parameters": p}]})) {
            Ok(r) => r,
            Err(e) => return Response::from(anda_kip::KipError::invalid_request_envelope(format!("{e}"))),
        },
    };
    let parsed = match request.operations[0].parse() {
        Ok(c) => c,
        Err(e) => return Response::from(e),
    };
    session.execute(parsed, &request, &request.operations[0]).await
}

pub fn error_code(r: &Response) -> String {
    r.error.as_ref().or_else(|| r.results.first().and_then(|x| x.error.as_ref())).map(|e| e.code.as_str().to_string()).unwrap_or_default()
}

fn class_rank(l: &str) -> u32 {
    match l { "public" => 0, "internal" | "" => 1, "private" => 2, "sensitive" => 3, "secret" => 4, _ => 255 }
}

#[derive(Clone, Debug)]
struct ElemSpec { name: String, ty: String, rank: Option<i64>, tag: Option<String>, class: String }
#[derive(Clone, Debug)]
struct PropSpec { s: String, o: String, class: String }
#[derive(Clone, Debug)]
struct RGrant { kinds: Vec<String>, types: Vec<String>, classes: Vec<String>, elements: Vec<String>, ceiling: String, actions: Vec<String>, fields: Vec<String>, export: bool }

fn narrows(parent: &[String], child: &[String]) -> bool { parent.is_empty() || (!child.is_empty() && child.iter().all(|c| parent.contains(c))) }

/// the harness's own reading of "this one authority of the delegator contains that Delegation's bounds"
fn contains(p: &RGrant, c: &RGrant) -> bool {
    narrows(&p.kinds, &c.kinds) && narrows(&p.types, &c.types) && narrows(&p.classes, &c.classes) && narrows(&p.elements, &c.elements) && narrows(&p.fields, &c.fields)
        && (p.ceiling.is_empty() || (!c.ceiling.is_empty() && class_rank(&c.ceiling) <= class_rank(&p.ceiling))) && (p.export || !c.export)
}

#[derive(Clone, Debug, PartialEq)]
enum Item { Elem(usize), Prop(usize) }

/// what one built store knows about the names of the case
#[derive(Default)]
struct Built { ids: BTreeMap<String, String>, schema_refs: BTreeMap<String, String>, prop_ids: Vec<Option<String>>, seq_mid: Vec<u64>, seq_end: Vec<u64>, replayed: Vec<bool> }

async fn seq_now(owner: &Session) -> Result<u64, String> {
    let r = exec(owner, "SNAPSHOT", None).await;
    r.first_result().and_then(|v| v["snapshot_seq"].as_u64()).ok_or_else(|| "no snapshot_seq".to_string())
}

fn covers(bound: &[String], v: &str) -> bool { bound.is_empty() || (!v.is_empty() && bound.iter().any(|b| b == v)) }

/// the harness's own reading of "this Grant lets its holder read that element"
fn reads(g: &RGrant, kind: &str, schema_ref: &str, class: &str, id: &str) -> bool {
    let eff = if class.is_empty() { "internal" } else { class };
    covers(&g.kinds, kind) && covers(&g.types, schema_ref) && covers(&g.classes, eff) && covers(&g.elements, id) && (g.ceiling.is_empty() || class_rank(eff) <= class_rank(&g.ceiling))
}

async fn create_elem(owner: &Session, e: &ElemSpec, with_name: bool, with_attrs: bool) -> Result<String, String> {
    let mut body = format!("TYPE \"{}\"", e.ty);
    if with_name { body.push_str(&format!(" NAME \"{}\"", e.name)); }
    let mut attrs = vec![];
    if let Some(r) = e.rank { attrs.push(format!("rank: {r}")); }
    if let Some(t) = &e.tag { attrs.push(format!("tag: \"{t}\"")); }
    if with_attrs && !attrs.is_empty() { body.push_str(&format!(" SET ATTRIBUTES {{{}}}", attrs.join(", "))); }
    let resp = exec(owner, &format!("CREATE CONCEPT ?c {{ {body} }}"), None).await;
    if resp.status != TopLevelStatus::Succeeded { return Err(format!("create {}: {}", e.name, error_code(&resp))); }
    resp.first_result().and_then(|r| r["handles"]["c"].as_str()).map(|s| s.to_string()).ok_or_else(|| "no handle".to_string())
}

async fn create_prop(owner: &Session, s: &str, o: &str) -> Result<String, String> {
    let resp = exec(owner, "ENSURE PROPOSITION ?p (:s, \"prefers\", :o)", Some(json!({"s": s, "o": o}))).await;
    if resp.status != TopLevelStatus::Succeeded { return Err(format!("ensure proposition: {}", error_code(&resp))); }
    resp.first_result().and_then(|r| r["handles"]["p"].as_str()).map(|s| s.to_string()).ok_or_else(|| "no handle".to_string())
}

async fn classify(owner: &Session, id: &str, class: &str) -> Result<(), String> {
    if class.is_empty() { return Ok(()); }
    let eid: ElementId = id.parse().map_err(|_| format!("bad id {id}"))?;
    owner.classify(DEFAULT_SPACE, eid, class).await.map(|_| ()).map_err(|e| format!("classify {id}: {}", e.name()))
}

/// canonical text of a response: rows / hit names in order, error code, whether a cursor follows
fn canon_history(v: &Value, ids: &BTreeMap<String, String>) -> Option<String> {
    let single;
    let arr = match v { Value::Object(o) if o.contains_key("changes") && o.contains_key("tx_id") => { single = vec![v.clone()]; &single } _ => v.as_array()? };
    if arr.is_empty() || !arr.iter().all(|e| e.get("changes").is_some() && e.get("tx_id").is_some()) { return None; }
    let name_of = |id: &str| ids.iter().find(|(_, v)| v.as_str() == id).map(|(k, _)| k.clone()).unwrap_or_else(|| format!("<{id}>"));
    let entries: Vec<String> = arr.iter().map(|e| {
        let mut ch: Vec<String> = e["changes"].as_array().map(|a| a.iter().map(|c| format!("{}:{}:v{}", name_of(c["id"].as_str().unwrap_or("?")), c["op"].as_str().unwrap_or("?"), c["version"])).collect()).unwrap_or_default();
        ch.sort();
        format!("{}[{}]", e["transaction_class"].as_str().unwrap_or("?"), ch.join(","))
    }).collect();
    Some(format!("history{{{}}}", entries.join(";")))
}

fn canon(r: &Response, ids: &BTreeMap<String, String>) -> String {
    if r.status != TopLevelStatus::Succeeded { return format!("err:{}", error_code(r)); }
    if let Some(h) = r.first_result().and_then(|v| canon_history(v, ids)) { return format!("ok {h}"); }
    let next = r.results.first().and_then(|x| x.next_cursor.clone()).or(r.next_cursor.clone());
    let body = match r.first_result() {
        Some(Value::Object(o)) if o.contains_key("hits") => {
            let names: Vec<String> = o["hits"].as_array().map(|a| a.iter().map(|h| h["element"]["name"].as_str().unwrap_or("?").to_string()).collect()).unwrap_or_default();
            format!("hits[{}]", names.join(","))
        }
        Some(Value::Object(o)) if o.contains_key("payload") => {
            let mut names: Vec<String> = o["payload"]["records"]["concepts"].as_array().map(|a| a.iter().map(|h| h["name"].as_str().unwrap_or("?").to_string()).collect()).unwrap_or_default();
            names.sort();
            format!("capsule[{}]", names.join(","))
        }
        Some(v) => v.to_string(),
        None => "null".into(),
    };
    format!("ok {body} next={}", next.is_some() as u8)
}

fn subst_seqs(text: &str, b: &Built) -> String {
    let mut t = text.to_string();
    // <<tx:K>>: the transaction that created the element of step K in this store (an id nobody issued when it was not replayed)
    while let Some(i) = t.find("<<tx:") {
        let j = t[i..].find(">>").map(|j| i + j).unwrap_or(t.len() - 2);
        let k: usize = t[i + 5..j].parse().unwrap_or(0);
        let v = match (b.replayed.get(k), b.seq_mid.get(k)) { (Some(true), Some(s)) => format!("kip:space:default#{s}"), _ => "kip:space:default#987654".to_string() };
        t.replace_range(i..j + 2, &v);
    }
    for (tag, table) in [("<<seqmid:", &b.seq_mid), ("<<seq:", &b.seq_end)] {
        while let Some(i) = t.find(tag) {
            let j = t[i..].find(">>").map(|j| i + j).unwrap_or(t.len() - 2);
            let k: usize = t[i + tag.len()..j].parse().unwrap_or(0);
            let v = table.get(k.min(table.len().saturating_sub(1))).copied().unwrap_or(0);
            t.replace_range(i..j + 2, &v.to_string());
        }
    }
    t
}

fn subst_ids(text: &str, ids: &BTreeMap<String, String>) -> String {
    let mut out = String::new();
    let mut rest = text;
    while let Some(i) = rest.find("<<id:") {
        out.push_str(&rest[..i]);
        let tail = &rest[i + 5..];
        let j = tail.find(">>").unwrap_or(tail.len());
        let name = &tail[..j];
        out.push_str(ids.get(name).map(|s| s.as_str()).unwrap_or("C-9999"));
        rest = &tail[(j + 2).min(tail.len())..];
    }
    out.push_str(rest);
    out
}

pub async fn run(ops: &[String], model: &mut Option<ModelProc>) -> Result<CaseOut, String> {
    let mut out = CaseOut::default();
    let mut elems: Vec<ElemSpec> = vec![];
    let mut props: Vec<PropSpec> = vec![];
    let mut order: Vec<Item> = vec![];
    let mut grants: Vec<(String, String)> = vec![]; // raw (scope, cons) tokens
    let mut dgrants: Vec<(String, String, String)> = vec![]; // (actions, scope, cons) of the delegator
    let mut rdelegs: Vec<(String, String, String)> = vec![]; // (actions, scope, cons) of Delegations lead → reader
    let mut mdeleg: Option<(String, String, String)> = None; // the middle link lead → mid of a chain
    let mut pallows: Vec<(String, String)> = vec![]; // allow statements of the bound policy naming the reader
    let mut mask = "none".to_string();
    let mut queries: Vec<(Option<usize>, String)> = vec![];
    for op in ops {
        let t: Vec<&str> = op.split(' ').filter(|s| !s.is_empty()).collect();
        match t.as_slice() {
            ["mode", _] => {}
            ["elem", name, ty, rank, tag, class] => { order.push(Item::Elem(elems.len())); elems.push(ElemSpec { name: name.to_string(), ty: ty.to_string(), rank: rank.parse().ok(), tag: (*tag != "-").then(|| tag.to_string()), class: str_of(class) }); }
            ["prop", s, o, class] => { order.push(Item::Prop(props.len())); props.push(PropSpec { s: s.to_string(), o: o.to_string(), class: str_of(class) }); }
            ["rgrant", sc, cs] => grants.push((sc.to_string(), cs.to_string())),
            ["dgrant", acts, sc, cs] => dgrants.push((acts.to_string(), sc.to_string(), cs.to_string())),
            ["rdeleg", acts, sc, cs] => rdelegs.push((acts.to_string(), sc.to_string(), cs.to_string())),
            ["mdeleg", acts, sc, cs] => mdeleg = Some((acts.to_string(), sc.to_string(), cs.to_string())),
            ["pallow", sc, cs] => pallows.push((sc.to_string(), cs.to_string())),
            ["mask", m] => mask = m.to_string(),
            ["q", ..] => queries.push((None, op[2..].to_string())),
            ["page", lim, ..] => { let l: usize = lim.parse().map_err(|_| "bad page")?; queries.push((Some(l), op[5 + lim.len() + 1..].to_string())); }
            _ => return Err(format!("bad op: {op}")),
        }
    }
    if grants.is_empty() && rdelegs.is_empty() && pallows.is_empty() { return Err("no rgrant / rdeleg / pallow".into()); }

    // ---- S: the full store ---------------------------------------------------------------------
    let s_nexus = fresh(true).await?;
    let s_owner = s_nexus.system_session();
    let mut s = Built::default();
    for it in &order {
        match it {
            Item::Elem(i) => {
                let e = &elems[*i];
                let id = create_elem(&s_owner, e, true, true).await?;
                s.seq_mid.push(seq_now(&s_owner).await?);
                classify(&s_owner, &id, &e.class).await?;
                s.seq_end.push(seq_now(&s_owner).await?);
                s.replayed.push(true);
                let el = s_nexus.store.get_element(id.parse().map_err(|_| "id")?).await.map_err(|e| format!("{e:?}"))?;
                s.schema_refs.insert(e.name.clone(), el.schema_ref().to_string());
                s.ids.insert(e.name.clone(), id);
            }
            Item::Prop(i) => {
                let p = &props[*i];
                let (Some(a), Some(b)) = (s.ids.get(&p.s), s.ids.get(&p.o)) else { return Err("prop endpoint unknown".into()) };
                let id = create_prop(&s_owner, a, b).await?;
                if s.prop_ids.iter().any(|x| x.as_deref() == Some(id.as_str())) { return Err("the same tuple is ensured twice (one Proposition, two specs)".into()); }
                s.seq_mid.push(seq_now(&s_owner).await?);
                classify(&s_owner, &id, &p.class).await?;
                s.seq_end.push(seq_now(&s_owner).await?);
                s.replayed.push(true);
                s.prop_ids.push(Some(id));
            }
        }
    }
    // the field mask: every top-level member of a rendered Concept except the hidden one
    let sample_view = exec(&s_owner, "FIND(?c) WHERE { ?c CONCEPT {} }", None).await;
    let mut keys: Vec<String> = vec!["attributes".into(), "name".into()];
    for v in sample_view.first_result().and_then(|r| r.as_array()).cloned().unwrap_or_default() {
        for k in v.as_object().map(|o| o.keys().cloned().collect::<Vec<_>>()).unwrap_or_default() { if !keys.contains(&k) { keys.push(k); } }
    }
    keys.sort();
    let fields: Vec<String> = if mask == "none" { vec![] } else { keys.iter().filter(|k| **k != mask).cloned().collect() };

    // resolve the Grants (type placeholders `@Name` → the exact schema symbol of that Type; element names → ids)
    let person_ref = |ty: &str| -> String { elems.iter().find(|e| e.ty == ty).and_then(|e| s.schema_refs.get(&e.name)).cloned().unwrap_or_else(|| ty.to_string()) };
    let mut rgrants: Vec<RGrant> = vec![];
    let gov = s_nexus.governance();
    gov.ensure_principal(PrincipalDraft { principal_id: READER.into(), principal_class: "agent".into(), display_name: "r".into(), auth_provider: "vh".into(), auth_subject: "r".into() }).await.map_err(|e| format!("{e:?}"))?;
    let mut model_lines = vec!["reset".to_string(), format!("principal {READER}")];
    let resolve = |sc: &str, cs: &str, masked: bool| -> Result<(anda_cognitive_nexus::governance::rows::AuthorityScope, anda_cognitive_nexus::governance::rows::AuthorityConstraints), String> {
        let mut scope = parse_scope(sc).ok_or("bad scope")?;
        scope.schema_refs = scope.schema_refs.iter().map(|t| person_ref(t.trim_start_matches('@'))).collect();
        scope.elements = scope.elements.iter().map(|n| s.ids.get(n).cloned().or_else(|| n.strip_prefix("prop").and_then(|k| k.parse::<usize>().ok()).and_then(|k| s.prop_ids.get(k).cloned().flatten())).unwrap_or_else(|| n.clone())).collect();
        let mut cons = parse_cons(cs).ok_or("bad cons")?;
        if cons.fields == ["@mask"] { cons.fields = fields.clone(); }
        else if cons.fields == ["@only"] { cons.fields = if mask == "none" { vec![] } else { vec![mask.clone()] }; }
        else if masked { cons.fields = fields.clone(); }
        Ok((scope, cons))
    };
    let rg = |scope: &anda_cognitive_nexus::governance::rows::AuthorityScope, cons: &anda_cognitive_nexus::governance::rows::AuthorityConstraints, actions: Vec<String>| RGrant {
        kinds: scope.kinds.clone(), types: scope.schema_refs.clone(), classes: scope.classifications.clone(), elements: scope.elements.clone(),
        ceiling: cons.max_classification.clone(), actions, fields: cons.fields.clone(), export: cons.export };
    let scope_tok = |scope: &anda_cognitive_nexus::governance::rows::AuthorityScope| format!("k={};t={};c={};e={}", show_csv(&scope.kinds), show_csv(&scope.schema_refs), show_csv(&scope.classifications), show_csv(&scope.elements));
    for (sc, cs) in &grants {
        let (scope, cons) = resolve(sc, cs, true)?;
        rgrants.push(rg(&scope, &cons, READ_ACTIONS.iter().map(|a| a.to_string()).collect()));
        model_lines.push(format!("grant {DEFAULT_SPACE} {READER} - {} {} p=-;pa=-;as=-;from=0;until=0 {} 0", READ_ACTIONS.join(","), scope_tok(&scope), show_cons(&cons)));
        gov.create_grant(GrantDraft { space_id: DEFAULT_SPACE.into(), grantee_principal: READER.into(), actions: READ_ACTIONS.iter().map(|a| a.to_string()).collect(), scope, constraints: cons, ..Default::default() }, SYSTEM_PRINCIPAL)
            .await.map_err(|e| format!("{e:?}"))?;
    }
    // the delegator's own authorities and what it passes on: a Delegation confers `read` only if ONE delegable Grant of the
    // delegator lists `read` and contains the Delegation's bounds — never a mix of two
    let mut held: Vec<RGrant> = vec![];
    if !dgrants.is_empty() || !rdelegs.is_empty() {
        gov.ensure_principal(PrincipalDraft { principal_id: LEAD.into(), principal_class: "agent".into(), display_name: "l".into(), auth_provider: "vh".into(), auth_subject: "l".into() }).await.map_err(|e| format!("{e:?}"))?;
        model_lines.push(format!("principal {LEAD}"));
    }
    for (acts, sc, cs) in &dgrants {
        let (scope, cons) = resolve(sc, cs, false)?;
        held.push(rg(&scope, &cons, csv(acts)));
        model_lines.push(format!("grant {DEFAULT_SPACE} {LEAD} - {acts} {} p=-;pa=-;as=-;from=0;until=0 {} 1", scope_tok(&scope), show_cons(&cons)));
        gov.create_grant(GrantDraft { space_id: DEFAULT_SPACE.into(), grantee_principal: LEAD.into(), actions: csv(acts), scope, constraints: cons, delegation_allowed: true, ..Default::default() }, SYSTEM_PRINCIPAL)
            .await.map_err(|e| format!("{e:?}"))?;
    }
    // the middle link of a chain: lead → mid, re-delegable; it holds `read` only if ONE Grant of lead lists it and contains its bounds
    let mut mid_link: Option<(RGrant, u64)> = None;
    if let Some((acts, sc, cs)) = &mdeleg {
        gov.ensure_principal(PrincipalDraft { principal_id: MID.into(), principal_class: "agent".into(), display_name: "m".into(), auth_provider: "vh".into(), auth_subject: "m".into() }).await.map_err(|e| format!("{e:?}"))?;
        model_lines.push(format!("principal {MID}"));
        let (scope, cons) = resolve(sc, cs, false)?;
        let md = rg(&scope, &cons, csv(acts));
        model_lines.push(format!("deleg {DEFAULT_SPACE} {LEAD} {MID} {acts} {} p=-;pa=-;as=-;from=0;until=0 {} - 1", scope_tok(&scope), show_cons(&cons)));
        let row = gov.create_delegation(DelegationDraft { space_id: DEFAULT_SPACE.into(), delegator_principal: LEAD.into(), delegate_principal: MID.into(), actions: csv(acts), scope, constraints: cons, may_redelegate: true, ..Default::default() }, LEAD)
            .await.map_err(|e| format!("{e:?}"))?;
        mid_link = Some((md, row._id));
    }
    for (acts, sc, cs) in &rdelegs {
        let (scope, cons) = resolve(sc, cs, mid_link.is_none())?;
        let d = rg(&scope, &cons, csv(acts));
        let has_read = |g: &RGrant| g.actions.iter().any(|a| a == "read");
        let confers_read = match &mid_link {
            None => has_read(&d) && held.iter().any(|g| has_read(g) && contains(g, &d)),
            // a chain: the middle link must itself be conferred, and must contain the child's bounds on every dimension
            Some((md, _)) => has_read(&d) && has_read(md) && held.iter().any(|g| has_read(g) && contains(g, md)) && contains(md, &d),
        };
        out.hits.push(format!("nonint:{}-{}", if mid_link.is_some() { "chain" } else { "delegation" }, if confers_read { "confers-read" } else { "confers-no-read" }));
        if confers_read { rgrants.push(d); }
        let (dor, parent) = match &mid_link { None => (LEAD, String::new()), Some((_, id)) => (MID, format!("kip:delegation:{id}")) };
        model_lines.push(format!("deleg {DEFAULT_SPACE} {dor} {READER} {acts} {} p=-;pa=-;as=-;from=0;until=0 {} {} 0", scope_tok(&scope), show_cons(&cons), show_str(&parent)));
        gov.create_delegation(DelegationDraft { space_id: DEFAULT_SPACE.into(), delegator_principal: dor.into(), delegate_principal: READER.into(), actions: csv(acts), scope, constraints: cons, parent_delegation: parent, ..Default::default() }, dor)
            .await.map_err(|e| format!("{e:?}"))?;
    }
    // authority from the Space's policy alone: allow statements naming the reader (a statement's own classification ceiling
    // does not enter matching — only its scope and conditions do)
    if !pallows.is_empty() {
        let mut statements = vec![];
        let mut line = format!("policy kip:policy:nonint {}", pallows.len());
        for (sc, cs) in &pallows {
            let (scope, mut cons) = resolve(sc, cs, true)?;
            cons.max_classification = String::new();
            let mut g = rg(&scope, &cons, READ_ACTIONS.iter().map(|a| a.to_string()).collect());
            g.ceiling = String::new();
            rgrants.push(g);
            line.push_str(&format!(" allow {READER} - {} {} p=-;pa=-;as=-;from=0;until=0 {} a=0;n=0;r=-", READ_ACTIONS.join(","), scope_tok(&scope), show_cons(&cons)));
            statements.push(PolicyStatement { effect: "allow".into(), principals: vec![READER.into()], actions: READ_ACTIONS.iter().map(|a| a.to_string()).collect(), resource: scope, constraints: cons, ..Default::default() });
        }
        gov.publish_policy(PolicyDraft { policy_id: "kip:policy:nonint".into(), space_id: DEFAULT_SPACE.into(), description: String::new(), statements }, SYSTEM_PRINCIPAL).await.map_err(|e| format!("{e:?}"))?;
        let mut space = s_nexus.store.get_space(DEFAULT_SPACE).await.map_err(|e| format!("{e:?}"))?;
        space.default_policy_id = "kip:policy:nonint".into();
        s_nexus.store.put_space(&space).await.map_err(|e| format!("{e:?}"))?;
        model_lines.push(line);
        model_lines.push(format!("space {DEFAULT_SPACE} {} {} {} kip:policy:nonint {} {}", show_str(&space.owner_principal), show_csv(&space.owners), space.status, show_str(&space.default_classification), space.audit_mode));
        out.hits.push("nonint:authority-from-policy-statements".into());
    }
    let reader_auth = AuthContext::principal(READER);
    let reader = s_nexus.session(reader_auth.clone());

    // ---- readable(p): harness reading, real may_read, model decision -----------------------------
    let _ea = reader.effective_authority(DEFAULT_SPACE).await.map_err(|e| format!("{e:?}"))?;
    if let Some(m) = model.as_mut() { for l in &model_lines { m.ask(l); } }
    let mut elem_readable = vec![false; elems.len()];
    let mut prop_readable = vec![false; props.len()];
    let mut pi = 0usize;
    for it in &order {
        let (kind, name, class, id) = match it {
            Item::Elem(i) => ("concept", elems[*i].name.clone(), elems[*i].class.clone(), s.ids[&elems[*i].name].clone()),
            Item::Prop(i) => { let id = s.prop_ids[pi].clone().unwrap(); pi += 1; ("proposition", format!("prop{i}"), props[*i].class.clone(), id) }
        };
        let el = s_nexus.store.get_element(id.parse().map_err(|_| "id")?).await.map_err(|e| format!("{e:?}"))?;
        let mine = rgrants.iter().any(|g| reads(g, kind, el.schema_ref(), &class, &id));
        // a fresh resolution per element: nothing a request-level cache could have remembered enters the oracle's readable set
        let real = reader.effective_authority(DEFAULT_SPACE).await.map_err(|e| format!("{e:?}"))?.may_read(&el, &reader_auth).is_some();
        match it { Item::Elem(i) => elem_readable[*i] = mine, Item::Prop(i) => prop_readable[*i] = mine }
        if mine != real {
            out.failures.push(("nonint:readable-set".into(), format!("the real may_read({name}) differs from the Grants' plain reading"), ops.to_vec(), format!("readable={mine}"), format!("readable={real}")));
        }
        if let Some(m) = model.as_mut() {
            let line = format!("auth {DEFAULT_SPACE} {READER} standard - declared - read {kind} {} {} {id}", show_str(el.schema_ref()), show_str(&class));
            let ans = m.ask(&line);
            out.compared += 1;
            let model_reads = ans.starts_with("ok allow");
            if model_reads != real {
                let mut ctx = model_lines.clone(); ctx.push(line);
                out.disagreements.push(("may_read of an element".into(), ctx, ans, format!("may_read={real}")));
            }
        }
    }
    // delegate ⊆ delegator on the population: whatever the reader may read through Delegations alone, the delegator may read
    if grants.is_empty() && !rdelegs.is_empty() {
        // monotone attenuation on real decisions: readable(reader) ⊆ readable(mid) ⊆ readable(lead), and the members a link's
        // holder sees are among those the Principal above it sees
        let mut line: Vec<(&str, AuthContext)> = vec![(READER, reader_auth.clone())];
        if mid_link.is_some() { line.push((MID, AuthContext::principal(MID))); }
        line.push((LEAD, AuthContext::principal(LEAD)));
        let mut eas = vec![];
        for (p, a) in &line { eas.push(s_nexus.session(a.clone()).effective_authority(DEFAULT_SPACE).await.map_err(|e| format!("{p}: {e:?}"))?); }
        let mut pi = 0usize;
        'pop: for it in &order {
            let id = match it { Item::Elem(i) => s.ids[&elems[*i].name].clone(), Item::Prop(_) => { let id = s.prop_ids[pi].clone().unwrap(); pi += 1; id } };
            let el = s_nexus.store.get_element(id.parse().map_err(|_| "id")?).await.map_err(|e| format!("{e:?}"))?;
            for w in 0..line.len() - 1 {
                let (below, above) = (eas[w].may_read(&el, &line[w].1), eas[w + 1].may_read(&el, &line[w + 1].1));
                match (below, above) {
                    (Some(_), None) => {
                        out.failures.push(("nonint:delegate-reads-what-its-delegator-cannot".into(), format!("{} — whose only authority comes down the chain — may read {id}; {} above it may not", line[w].0, line[w + 1].0), ops.to_vec(), "readable(delegate) ⊆ readable(every Principal up the chain)".into(), format!("{id} readable by {} but not by {}", line[w].0, line[w + 1].0)));
                        break 'pop;
                    }
                    (Some(b), Some(a)) if line[w + 1].0 != LEAD || dgrants.len() == 1 => {
                        let mask_ok = a.fields.is_empty() || (!b.fields.is_empty() && b.fields.iter().all(|x| a.fields.contains(x)));
                        let ceil_ok = a.max_classification.is_empty() || (!b.max_classification.is_empty() && class_rank(&b.max_classification) <= class_rank(&a.max_classification));
                        if !(mask_ok && ceil_ok) {
                            out.failures.push(("nonint:delegate-sees-members-its-delegator-cannot".into(), format!("{} reads {id} under a wider field mask / ceiling than {} above it, whose only authority is its own link", line[w].0, line[w + 1].0), ops.to_vec(), format!("inside fields={:?} mc={:?}", a.fields, a.max_classification), format!("fields={:?} mc={:?}", b.fields, b.max_classification)));
                            break 'pop;
                        }
                    }
                    _ => {}
                }
            }
        }
    }
    if rgrants.is_empty() {
        // the reader holds no `read` at all: every query is refused at the gate, there is nothing relational to compare
        out.hits.push("nonint:abstain-reader-without-read".into());
        return Ok(out);
    }
    let n_read = elem_readable.iter().filter(|x| **x).count();
    out.hits.push(format!("nonint:readable-{}", if n_read == 0 { "none" } else if n_read == elems.len() { "all" } else { "proper-subset" }));
    out.hits.push(format!("nonint:mask-{mask}"));
    // reference closure: a readable Proposition whose endpoint is hidden has no counterpart in S'
    let closed = props.iter().enumerate().all(|(i, p)| !prop_readable[i] || (elems.iter().position(|e| e.name == p.s).is_some_and(|k| elem_readable[k]) && elems.iter().position(|e| e.name == p.o).is_some_and(|k| elem_readable[k])));
    if !closed { out.hits.push("nonint:abstain-dangling-reference".into()); }

    // ---- S': only what the reader may read -----------------------------------------------------
    let r_nexus = fresh(true).await?;
    let r_owner = r_nexus.system_session();
    let mut rs = Built::default();
    for it in &order {
        let before = rs.seq_end.last().copied().unwrap_or(seq_now(&r_owner).await?);
        match it {
            Item::Elem(i) if elem_readable[*i] => {
                let e = &elems[*i];
                let id = create_elem(&r_owner, e, mask != "name", mask != "attributes").await?;
                rs.seq_mid.push(seq_now(&r_owner).await?);
                classify(&r_owner, &id, &e.class).await?;
                rs.seq_end.push(seq_now(&r_owner).await?);
                rs.replayed.push(true);
                rs.ids.insert(e.name.clone(), id);
            }
            Item::Prop(i) if prop_readable[*i] && closed => {
                let p = &props[*i];
                if let (Some(a), Some(b)) = (rs.ids.get(&p.s), rs.ids.get(&p.o)) {
                    let id = create_prop(&r_owner, a, b).await?;
                    rs.seq_mid.push(seq_now(&r_owner).await?);
                    classify(&r_owner, &id, &p.class).await?;
                    rs.seq_end.push(seq_now(&r_owner).await?);
                    rs.replayed.push(true);
                    rs.ids.insert(format!("prop{i}"), id);
                } else { rs.seq_mid.push(before); rs.seq_end.push(before); rs.replayed.push(false); }
            }
            _ => { rs.seq_mid.push(before); rs.seq_end.push(before); rs.replayed.push(false); }
        }
    }
    // names of Propositions in S, for the history canonicaliser
    { let mut k = 0; for it in &order { if let Item::Prop(i) = it { if let Some(Some(id)) = s.prop_ids.get(k) { s.ids.insert(format!("prop{i}"), id.clone()); } k += 1; } } }

    // ---- the battery ------------------------------------------------------------------------------
    let mut any_nonempty = false;
    for (page, text) in &queries {
        let touches_props = text.contains("PROPOSITION") || text.contains("COGNITION") || text.starts_with("HISTORY") || text.starts_with("CHANGES") || text.starts_with("EXPORT") || text.starts_with("DESCRIBE TRANSACTION");
        if touches_props && !closed { continue; }
        // with `name` masked the rows of this query carry no names, so a difference could not be attributed: abstain
        if text.contains("<<seqmid:") && mask == "name" { out.hits.push("nonint:abstain-as-of-mid-with-masked-name".into()); continue; }
        let shape = text.split(" WHERE").next().unwrap_or(text).split('(').next().unwrap_or("").trim().to_string();
        out.hits.push(format!("nonint:q:{}", if text.starts_with("FIND") { "find" } else { shape.split(' ').next().unwrap_or("?") }));
        let lim = page.map(|l| format!(" LIMIT {l}")).unwrap_or_default();
        let qa = format!("{}{lim}", subst_ids(&subst_seqs(text, &s), &s.ids));
        let qb = format!("{}{lim}", subst_ids(&subst_seqs(text, &rs), &rs.ids));
        let ra = exec(&reader, &qa, None).await;
        let rb = exec(&r_owner, &qb, None).await;
        if std::env::var("VH_C19_DEBUG").is_ok() { eprintln!("Q {qa}\n A {}\n B {}", serde_json::to_string(&ra).unwrap_or_default(), serde_json::to_string(&rb).unwrap_or_default()); }
        let (mut ca, mut cb) = (canon(&ra, &s.ids), canon(&rb, &rs.ids));
        if page.is_some() {
            let na = ra.results.first().and_then(|x| x.next_cursor.clone());
            let nb = rb.results.first().and_then(|x| x.next_cursor.clone());
            if let (Some(na), Some(nb)) = (na, nb) {
                ca.push_str(&format!(" | {}", canon(&exec(&reader, &format!("{qa} CURSOR \"{na}\""), None).await, &s.ids)));
                cb.push_str(&format!(" | {}", canon(&exec(&r_owner, &format!("{qb} CURSOR \"{nb}\""), None).await, &rs.ids)));
            }
        }
        if ca.starts_with("err:NotAuthorized") && !rdelegs.is_empty() { out.hits.push("nonint:abstain-delegate-lacks-gate-permission".into()); continue; }
        if ca.starts_with("err:") { out.hits.push(format!("nonint:answer-{}", ca.split(' ').next().unwrap_or(""))); if std::env::var("VH_C19_DEBUG").is_ok() { eprintln!("ERR {ca} <- {qa}"); } }
        if ca.starts_with("ok ") && !ca.starts_with("ok [] ") && !ca.starts_with("ok hits[] ") { any_nonempty = true; }
        if ca != cb {
            let hits = |c: &str| -> Vec<String> { c.split("hits[").nth(1).and_then(|t| t.split(']').next()).map(|t| t.split(',').filter(|x| !x.is_empty()).map(|x| x.to_string()).collect()).unwrap_or_default() };
            // Keys name one exact mechanism each (known findings are matched on them); anything that is not explained
            // by that mechanism gets a generic key and stays a plain violation.
            let generic = |kind: &str| format!("nonint:{kind}:{}", if mask != "none" { format!("masked-{mask}") } else { "hidden-element".to_string() });
            let term = text.split('"').nth(1).unwrap_or("").to_string();
            let limit: usize = text.split(" LIMIT ").nth(1).and_then(|t| t.split(' ').next()).and_then(|t| t.parse().ok()).unwrap_or(10);
            let elem_matches = |e: &ElemSpec, hide_mask: bool| -> bool {
                let name_visible = !(hide_mask && mask == "name");
                let attrs_visible = !(hide_mask && mask == "attributes");
                (name_visible && e.name == term) || (attrs_visible && e.tag.as_deref() == Some(term.as_str()))
            };
            let key = if text.starts_with("SEARCH") {
                let (ha, hb) = (hits(&ca), hits(&cb));
                let hidden_matching = elems.iter().enumerate().filter(|(i, e)| !elem_readable[*i] && elem_matches(e, false)).count();
                // every extra hit is a readable element that matches the term only through the masked member
                let extra_explained = mask != "none" && ha.len() > hb.len() && hb.iter().all(|h| ha.contains(h))
                    && elems.iter().enumerate().filter(|(i, e)| elem_readable[*i] && elem_matches(e, false) && !elem_matches(e, true)).count() >= ha.len() - hb.len();
                if extra_explained { format!("nonint:search:matches-on-masked-{mask}") }
                // hits (or the cursor that announces more) are missing, hidden elements match the term, and together with the
                // readable matches they overflow the over-fetch window of (limit + offset) * 4 index hits
                else if ha.len() <= hb.len() && ha.iter().all(|h| hb.contains(h)) && hidden_matching >= 1
                    && hidden_matching + elems.iter().enumerate().filter(|(i, e)| elem_readable[*i] && elem_matches(e, false)).count() > 4 * limit
                    && (ha.len() < hb.len() || (ca.ends_with("next=0") && cb.ends_with("next=1"))) { "nonint:search:hidden-elements-crowd-the-window".to_string() }
                else { generic("search") }
            } else if text.contains("<<seqmid:") {
                // explained only if every name the two answers disagree on is an element that was (re)labelled after it was created
                let names = |c: &str| -> Vec<String> { c.strip_prefix("ok ").and_then(|t| t.split(" next=").next()).and_then(|t| serde_json::from_str::<Vec<Value>>(t).ok()).map(|v| v.iter().filter_map(|x| x.as_str().map(|s| s.to_string())).collect()).unwrap_or_default() };
                let (na, nb) = (names(&ca), names(&cb));
                let relabelled = |n: &String| elems.iter().any(|e| e.name == *n && !e.class.is_empty());
                let extra: Vec<&String> = na.iter().filter(|n| !nb.contains(n)).collect();
                let missing: Vec<&String> = nb.iter().filter(|n| !na.contains(n)).collect();
                if !extra.is_empty() && missing.is_empty() && extra.iter().all(|n| relabelled(n)) { "nonint:as-of:later-reclassified-element-readable-in-the-past".to_string() }
                else if extra.is_empty() && !missing.is_empty() && missing.iter().all(|n| relabelled(n)) { "nonint:as-of:past-version-hidden-by-its-old-label".to_string() }
                else if !extra.is_empty() && !missing.is_empty() && extra.iter().chain(missing.iter()).all(|n| relabelled(n)) { "nonint:as-of:later-reclassified-element-readable-in-the-past".to_string() }
                else { generic("as-of") }
            } else if text.starts_with("DESCRIBE TRANSACTION") && cb == "err:TransactionUnknown" && ca.starts_with("ok history{") {
                "nonint:describe-transaction:names-changes-of-hidden-elements".to_string()
            } else if mask == "name" && text.contains("CONCEPT {name: \"") && cb.starts_with("ok [] ") { "nonint:find:index-matcher-on-masked-name".to_string() }
            else {
                let kind = if text.starts_with("EXPORT") { "export" } else if text.contains(" AS OF ") { "as-of" } else if text.starts_with("DESCRIBE TRANSACTION") { "describe-transaction" } else if text.starts_with("PREVIEW") { "preview" } else if text.starts_with("HISTORY") || text.starts_with("CHANGES") { "history" } else if text.contains("SUM(") || text.contains("AVG(") || text.contains("MAX(") || text.contains("MIN(") { "aggregate" } else if text.contains("COUNT(") { "count" } else if text.contains("ORDER BY") { "order" } else { "find" };
                generic(kind)
            };
            let mut ctx: Vec<String> = ops.iter().filter(|o| !o.starts_with("q ") && !o.starts_with("page ")).cloned().collect();
            ctx.push(match page { Some(l) => format!("page {l} {text}"), None => format!("q {text}") });
            out.failures.push((key, "the restricted reader's answer on S differs from the owner's answer on S restricted to what the reader may read".into(), ctx, cb, ca));
        }
    }
    out.nontrivial = n_read > 0 && n_read < elems.len() && any_nonempty;
    Ok(out)
}

// ----------------------------------------------------------------------------------------------
// generation
// ----------------------------------------------------------------------------------------------

const TAGS: [&str; 5] = ["apple", "birch", "cedar", "delta", "ember"];
const CLASSES: [&str; 5] = ["-", "public", "internal", "private", "secret"];

pub fn gen_case(r: &mut Rng) -> Vec<String> {
    let mut ops = vec!["mode nonint".to_string()];
    // one case in five: authority comes ONLY from allow statements of the bound policy that name elements, and the population
    // has several siblings of one kind / type / classification around the named ones
    let policy_mode = r.chance(1, 5);
    let sibling_class = *r.pick(&CLASSES);
    let n = 5 + r.usize(8);
    let mut classes = vec![];
    let mut types = vec![];
    for i in 0..n {
        let class = if policy_mode && !r.chance(1, 6) { sibling_class } else { *r.pick(&CLASSES) };
        classes.push(class);
        let rank = if r.chance(1, 6) { "-".to_string() } else { r.range(0, 9).to_string() };
        let tag = if r.chance(1, 5) { "-" } else { *r.pick(&TAGS) };
        let ty = if !policy_mode && r.chance(1, 5) { "Preference" } else { "Person" };
        types.push(ty);
        ops.push(format!("elem n{i:02} {ty} {rank} {tag} {class}"));
    }
    let np = r.usize(6);
    let mut pairs: Vec<(usize, usize)> = vec![];
    for _ in 0..np {
        let (a, b) = (r.usize(n), r.usize(n));
        if a == b || types[a] != "Person" || pairs.contains(&(a, b)) { continue; } // `prefers` takes a Person subject; one Proposition per tuple
        pairs.push((a, b));
        // at least as restricted as both endpoints, so that readable sets are closed under references
        let rk = |c: &str| class_rank(if c == "-" { "" } else { c });
        let own = *r.pick(&CLASSES);
        let top = [own, classes[a], classes[b]].into_iter().max_by_key(|c| rk(c)).unwrap();
        ops.push(format!("prop n{a:02} n{b:02} {top}"));
    }
    // the reader's Grants
    let mask = match r.below(6) { 0 | 1 => "attributes", 2 => "name", _ => "none" };
    let delegate_mode = !policy_mode && r.chance(1, 3);
    if policy_mode {
        // named first (lowest id), last (highest id) or in the middle: both load orders relative to the unnamed siblings
        let k = 1 + r.usize(2);
        let mut named: Vec<String> = vec![];
        for _ in 0..k {
            let i = match r.below(4) { 0 => 0, 1 => n - 1, _ => r.usize(n) };
            let nm = format!("n{i:02}");
            if !named.contains(&nm) { named.push(nm); }
        }
        ops.push(format!("pallow k=-;t=-;c=-;e={} f=-;mr=-;mi=-;mc=-;x=1", named.join(",")));
        if r.chance(1, 3) { ops.push(format!("pallow k=-;t=-;c={};e=- f=-;mr=-;mi=-;mc=-;x=1", r.pick(&["secret", "private"]))); }
    }
    if delegate_mode {
        // the reader holds nothing but Delegations of `lead`, who holds `read` narrowed one way and the other read-side
        // permissions narrowed another way (or not at all): covered, mixed and wider Delegations
        let bound = |r: &mut Rng| -> (String, String) {
            match r.below(7) {
                0 => ("k=concept;t=-;c=-;e=-".to_string(), "-".to_string()),
                1 => ("k=-;t=@Person;c=-;e=-".to_string(), "-".to_string()),
                2 => (format!("k=-;t=-;c={};e=-", r.pick(&["public", "public,internal"])), "-".to_string()),
                3 | 4 => ("k=-;t=-;c=-;e=-".to_string(), r.pick(&["public", "internal", "private"]).to_string()),
                _ => ("k=-;t=-;c=-;e=-".to_string(), "-".to_string()),
            }
        };
        let b_read = bound(r);
        let b_rest = bound(r);
        ops.push(format!("dgrant read {} f=-;mr=-;mi=-;mc={};x=1", b_read.0, b_read.1));
        ops.push(format!("dgrant search,discover,read_history,project,export {} f=-;mr=-;mi=-;mc={};x=1", b_rest.0, b_rest.1));
        if r.chance(1, 4) { let b = bound(r); ops.push(format!("dgrant read {} f=-;mr=-;mi=-;mc={};x=1", b.0, b.1)); }
        for _ in 0..(1 + r.usize(2)) {
            let b = match r.below(5) { 0 | 1 => b_read.clone(), 2 | 3 => b_rest.clone(), _ => ("k=-;t=-;c=-;e=-".to_string(), "-".to_string()) };
            ops.push(format!("rdeleg {} {} f=-;mr=-;mi=-;mc={};x=1", READ_ACTIONS.join(","), b.0, b.1));
        }
    }
    let chain_mode = !delegate_mode && !policy_mode && r.chance(1, 3);
    let mut mask_override: Option<&str> = None;
    if chain_mode {
        // a chain lead → mid → reader bounded on ONE dimension; the child's list is, relative to the middle link's, equal / a
        // subset / a superset / overlapping / DISJOINT / empty, or bounded under an unbounded parent. Data lies on both sides.
        ops.push(format!("dgrant {} k=-;t=-;c=-;e=- f=-;mr=-;mi=-;mc=-;x=1", READ_ACTIONS.join(",")));
        let names: Vec<String> = (0..3).map(|_| format!("n{:02}", r.usize(n))).collect();
        let (dim, uni): (&str, [String; 3]) = match r.below(6) {
            0 | 1 => ("c", ["public".into(), "internal".into(), "secret".into()]),
            2 => ("c", ["public".into(), "secret".into(), "private".into()]),
            3 => ("e", [names[0].clone(), names[1].clone(), names[2].clone()]),
            4 => ("t", ["@Person".into(), "@Preference".into(), "@Insight".into()]),
            _ if mask != "none" => ("f", ["@mask".into(), "@only".into(), "@only".into()]),
            _ => ("c", ["internal".into(), "public".into(), "secret".into()]),
        };
        if dim != "f" { mask_override = Some("none"); }
        let (a, b, c) = (uni[0].clone(), uni[1].clone(), uni[2].clone());
        let (pv, cv) = if dim == "f" {
            match r.below(4) { 0 => (a.clone(), a.clone()), 1 | 2 => (a.clone(), b.clone()), _ => (a.clone(), "-".to_string()) }
        } else {
            match r.below(9) {
                0 => (format!("{a},{b}"), format!("{a},{b}")), 1 => (format!("{a},{b}"), a.clone()), 2 => (a.clone(), format!("{a},{b}")), 3 => (format!("{a},{b}"), format!("{b},{c}")),
                4 | 5 => (a.clone(), b.clone()), 6 => (format!("{a},{b}"), c.clone()), 7 => (a.clone(), "-".to_string()), _ => ("-".to_string(), a.clone()),
            }
        };
        let tok = |v: &str| -> String {
            if dim == "f" { format!("k=-;t=-;c=-;e=- f={v};mr=-;mi=-;mc=-;x=1") }
            else { format!("k=-;t={};c={};e={} f=-;mr=-;mi=-;mc=-;x=1", if dim == "t" { v } else { "-" }, if dim == "c" { v } else { "-" }, if dim == "e" { v } else { "-" }) }
        };
        ops.push(format!("mdeleg {} {}", READ_ACTIONS.join(","), tok(&pv)));
        ops.push(format!("rdeleg {} {}", READ_ACTIONS.join(","), tok(&cv)));
    }
    let ng = if delegate_mode || chain_mode || policy_mode { 0 } else { 1 + r.usize(2) };
    for _ in 0..ng {
        let ceiling = *r.pick(&["-", "public", "internal", "internal", "private"]);
        let scope = match r.below(8) {
            0 => "k=concept;t=-;c=-;e=-".to_string(),
            1 => "k=-;t=@Person;c=-;e=-".to_string(),
            2 => format!("k=-;t=-;c={};e=-", r.pick(&["public", "public,internal", "internal,secret"])),
            3 => { let k = 1 + r.usize(3); let v: Vec<String> = (0..k).map(|_| format!("n{:02}", r.usize(n))).collect(); format!("k=-;t=-;c=-;e={}", v.join(",")) }
            _ => "k=-;t=-;c=-;e=-".to_string(),
        };
        ops.push(format!("rgrant {scope} f=-;mr=-;mi=-;mc={ceiling};x=1"));
    }
    let mask = mask_override.unwrap_or(mask);
    ops.push(format!("mask {mask}"));
    // the battery
    let k = r.range(0, 9);
    let probe = r.usize(n);
    let tag = *r.pick(&TAGS);
    for q in [
        "q FIND(?c.name) WHERE { ?c CONCEPT {type: \"Person\"} } ORDER BY ?c.name".to_string(),
        "q FIND(COUNT(?c)) WHERE { ?c CONCEPT {} }".to_string(),
        "q FIND(COUNT(?c)) WHERE { ?c CONCEPT {type: \"Person\"} }".to_string(),
        format!("q FIND(?c.name, ?c.attributes.rank) WHERE {{ ?c CONCEPT {{type: \"Person\"}} }} ORDER BY ?c.attributes.rank {}", r.pick(&["ASC", "DESC"])),
        format!("q FIND(?c.name) WHERE {{ ?c CONCEPT {{}} FILTER(?c.attributes.rank > {k}) }} ORDER BY ?c.name"),
        format!("q FIND(COUNT(?c)) WHERE {{ ?c CONCEPT {{}} FILTER(?c.attributes.tag == \"{tag}\") }}"),
        format!("q FIND(?c.attributes.tag) WHERE {{ ?c CONCEPT {{name: \"n{probe:02}\"}} }}"),
        format!("q FIND(COUNT(?c)) WHERE {{ ?c CONCEPT {{id: \"<<id:n{probe:02}>>\"}} }}"),
        "page 2 FIND(?c.name) WHERE { ?c CONCEPT {} } ORDER BY ?c.attributes.rank ASC".to_string(),
        "page 3 FIND(?c.name) WHERE { ?c CONCEPT {type: \"Person\"} } ORDER BY ?c.name DESC".to_string(),
        "q FIND(?s.name, ?o.name) WHERE { ?p PROPOSITION (?s, \"prefers\", ?o) } ORDER BY ?s.name".to_string(),
        "q FIND(COUNT(?p)) WHERE { ?p PROPOSITION (?s, \"prefers\", ?o) }".to_string(),
        "q FIND(?c.name) WHERE { ?c CONCEPT {} NOT { ?p PROPOSITION (?c, \"prefers\", ?o) } } ORDER BY ?c.name".to_string(),
        "q FIND(?c.name, ?o.name) WHERE { ?c CONCEPT {} OPTIONAL { ?p PROPOSITION (?c, \"prefers\", ?o) } } ORDER BY ?c.name".to_string(),
        format!("q SEARCH CONCEPT \"{tag}\""),
        format!("q SEARCH CONCEPT \"{tag}\" LIMIT 1"),
        format!("q SEARCH CONCEPT \"n{probe:02}\""),
        "q EXPORT CAPSULE ?c WHERE { ?c CONCEPT {} }".to_string(),
        "q HISTORY SPACE".to_string(),
        "page 2 HISTORY SPACE".to_string(),
        "page 3 CHANGES AFTER SEQ 0".to_string(),
        format!("q HISTORY ELEMENT \"<<id:n{:02}>>\"", r.usize(n)),
        format!("q DESCRIBE TRANSACTION \"<<tx:{}>>\"", r.usize(n)),
        format!("q DESCRIBE TRANSACTION \"<<tx:{}>>\"", r.usize(n)),
        "q FIND(COUNT(?c), SUM(?c.attributes.rank), MIN(?c.attributes.rank), MAX(?c.attributes.rank)) WHERE { ?c CONCEPT {} }".to_string(),
        "q FIND(AVG(?c.attributes.rank)) WHERE { ?c CONCEPT {type: \"Person\"} }".to_string(),
        "q FIND(COUNT(DISTINCT ?c.attributes.tag)) WHERE { ?c CONCEPT {} }".to_string(),
        format!("page 2 FIND(?c.name, ?c.attributes.tag) WHERE {{ ?c CONCEPT {{}} FILTER(?c.attributes.rank >= {}) }} ORDER BY ?c.attributes.tag DESC", r.range(0, 5)),
        "q SEARCH COGNITION \"prefers\"".to_string(),
        "q CHANGES AFTER SEQ 0".to_string(),
        format!("q FIND(?c.name) WHERE {{ ?c CONCEPT {{}} }} AS OF SEQ <<seq:{}>> ORDER BY ?c.name", r.usize(n)),
        format!("q FIND(COUNT(?c)) WHERE {{ ?c CONCEPT {{type: \"Person\"}} }} AS OF SEQ <<seq:{}>>", r.usize(n)),
        format!("q FIND(?c.name) WHERE {{ ?c CONCEPT {{}} }} AS OF SEQ <<seqmid:{}>> ORDER BY ?c.name", r.usize(n)),
    ] {
        ops.push(q);
    }
    ops
}
