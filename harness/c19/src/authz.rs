//! Part A — the decision itself: generated control-plane histories × callers × resources × permissions.
//! The real `EffectiveAuthority::resolve` + `authorize` (through `Session::effective_authority`, the
//! public route a host uses) against the Lean model, line by line; plus an oracle that re-derives
//! from the op list alone a set of facts every answer must respect (never the model's answer).
use crate::wire::*;
use anda_cognitive_nexus::governance::store::{DelegationDraft, GrantDraft, GroupDraft, PolicyDraft, PrincipalDraft};
use anda_cognitive_nexus::governance::{Permission, ResourceContext, SYSTEM_PRINCIPAL};
use anda_cognitive_nexus::store::space::SpaceDraft;
use anda_cognitive_nexus::CognitiveNexus;
use std::collections::BTreeMap;
use vh_common::Rng;

pub const SPACE: &str = "kip:space:default";
pub const SPACE2: &str = "kip:space:s2";

/// Applies one op line to the real control plane (host API) or asks the real decision.
pub async fn apply(nexus: &CognitiveNexus, op: &str) -> String {
    let t: Vec<&str> = op.split(' ').filter(|s| !s.is_empty()).collect();
    let gov = nexus.governance();
    macro_rules! bad { () => { return "bad-op".to_string() }; }
    macro_rules! some { ($e:expr) => { match $e { Some(x) => x, None => bad!() } }; }
    match t.as_slice() {
        ["now", _] => "ok".into(),
        ["principal", id] => match gov.ensure_principal(PrincipalDraft { principal_id: id.to_string(), principal_class: "agent".into(), display_name: id.to_string(), auth_provider: "vh".into(), auth_subject: id.to_string() }).await {
            Ok(_) => "ok".into(),
            Err(e) => err_name(&e),
        },
        ["pstatus", id, st] => match gov.set_principal_status(id, st, SYSTEM_PRINCIPAL).await { Ok(_) => "ok".into(), Err(e) => err_name(&e) },
        ["group", gid, ms] => match gov.put_group(GroupDraft { group_id: gid.to_string(), name: gid.to_string(), description: String::new(), members: csv(ms) }, SYSTEM_PRINCIPAL).await {
            Ok(_) => "ok".into(),
            Err(e) => err_name(&e),
        },
        ["grant", sp, gp, gg, acts, sc, co, cs, da] => {
            let d = GrantDraft { space_id: sp.to_string(), grantee_principal: str_of(gp), grantee_group: str_of(gg), actions: csv(acts),
                scope: some!(parse_scope(sc)), conditions: some!(parse_cond(co)), constraints: some!(parse_cons(cs)), delegation_allowed: *da == "1" };
            match gov.create_grant(d, SYSTEM_PRINCIPAL).await { Ok(r) => format!("ok {}", r._id), Err(e) => err_name(&e) }
        }
        ["revoke_grant", row] => match gov.revoke_grant(some!(row.parse().ok()), SYSTEM_PRINCIPAL).await { Ok(_) => "ok".into(), Err(e) => err_name(&e) },
        ["deleg", sp, dor, dee, acts, sc, co, cs, par, mr] => {
            let d = DelegationDraft { space_id: sp.to_string(), delegator_principal: dor.to_string(), delegate_principal: dee.to_string(), actions: csv(acts),
                scope: some!(parse_scope(sc)), conditions: some!(parse_cond(co)), constraints: some!(parse_cons(cs)), parent_delegation: str_of(par), may_redelegate: *mr == "1" };
            match gov.create_delegation(d, SYSTEM_PRINCIPAL).await { Ok(r) => format!("ok {}", r._id), Err(e) => err_name(&e) }
        }
        ["revoke_deleg", row] => match gov.revoke_delegation(some!(row.parse().ok()), SYSTEM_PRINCIPAL).await { Ok(_) => "ok".into(), Err(e) => err_name(&e) },
        ["policy", pid, n, rest @ ..] => {
            let sts = some!(parse_statements(some!(n.parse().ok()), rest));
            match gov.publish_policy(PolicyDraft { policy_id: pid.to_string(), space_id: SPACE.into(), description: String::new(), statements: sts }, SYSTEM_PRINCIPAL).await {
                Ok(r) => format!("ok {}", r.version),
                Err(e) => err_name(&e),
            }
        }
        ["space", id, owner, owners, status, pol, cls, audit] => {
            let existing = match nexus.store.find_space(id).await { Ok(x) => x, Err(e) => return err_name(&e) };
            let mut row = match existing {
                Some(r) => r,
                None => match nexus.store.open_or_create_space(SpaceDraft { space_id: id.to_string(), name: id.to_string(), owner_principal: str_of(owner), ..Default::default() }).await {
                    Ok(r) => r,
                    Err(e) => return err_name(&e),
                },
            };
            row.owner_principal = str_of(owner);
            row.owners = csv(owners);
            row.status = status.to_string();
            row.default_policy_id = str_of(pol);
            row.default_classification = str_of(cls);
            row.audit_mode = audit.to_string();
            match nexus.store.put_space(&row).await { Ok(_) => "ok".into(), Err(e) => err_name(&e) }
        }
        ["auth", sp, p, st, pu, pa, ch, perm, k, ty, c, e] => {
            let auth = auth_of(p, st, pu, pa, ch);
            let permission = match Permission::parse(perm) { Ok(p) => p, Err(_) => bad!() };
            let ea = match nexus.session(auth.clone()).effective_authority(sp).await { Ok(ea) => ea, Err(e) => return err_name(&e) };
            let res = ResourceContext { kind: str_of(k), schema_ref: str_of(ty), classification: str_of(c), element_id: str_of(e) };
            show_authorization(&ea.authorize(permission, &res, &auth))
        }
        ["names", sp, p, st, pu, pa, ch] => {
            let auth = auth_of(p, st, pu, pa, ch);
            let ea = match nexus.session(auth.clone()).effective_authority(sp).await { Ok(ea) => ea, Err(e) => return err_name(&e) };
            format!("held {} whole={} owner={} groups={}", show_csv(&ea.permission_names(&auth)), ea.reads_whole_space(&auth) as u8, ea.is_owner as u8, show_csv(&ea.groups))
        }
        _ => "bad-op".into(),
    }
}

// ----------------------------------------------------------------------------------------------
// oracle: facts re-derived from the op list
// ----------------------------------------------------------------------------------------------

#[derive(Default, Clone)]
struct RGrant { space: String, gp: String, gg: String, actions: Vec<String>, from: u64, until: u64, revoked: bool, scope: String, cons: String, may_delegate: bool }
#[derive(Default, Clone)]
struct RDeleg { space: String, delegator: String, delegate: String, actions: Vec<String>, from: u64, until: u64, revoked: bool, scope: String, cons: String, parent: String }
#[derive(Default, Clone)]
struct RSpace { owner: String, owners: Vec<String>, status: String, policy: String }
#[derive(Default, Clone)]
struct RStmt { effect: String, blanket: bool, actions: Vec<String> }

#[derive(Default)]
pub struct Ref {
    principals: BTreeMap<String, String>,
    groups: BTreeMap<String, Vec<String>>,
    grants: Vec<RGrant>,
    delegs: Vec<RDeleg>,
    spaces: BTreeMap<String, RSpace>,
    policies: BTreeMap<String, (u64, Vec<RStmt>)>,
}

fn class_rank(l: &str) -> u32 {
    match l { "public" => 0, "internal" | "" | "-" => 1, "private" => 2, "sensitive" => 3, "secret" => 4, _ => 255 }
}

fn kv<'a>(tok: &'a str, key: &str) -> &'a str {
    tok.split(';').filter_map(|p| p.split_once('=')).find(|(k, _)| *k == key).map(|(_, v)| v).unwrap_or("")
}

impl Ref {
    pub fn new() -> Ref {
        let mut r = Ref::default();
        r.principals.insert(SYSTEM_PRINCIPAL.into(), "active".into());
        r.principals.insert("kip:principal:anonymous".into(), "active".into());
        r.spaces.insert(SPACE.into(), RSpace { owner: SYSTEM_PRINCIPAL.into(), owners: vec![SYSTEM_PRINCIPAL.into()], status: "active".into(), policy: String::new() });
        r
    }
    pub fn track(&mut self, op: &str) {
        let t: Vec<&str> = op.split(' ').filter(|s| !s.is_empty()).collect();
        match t.as_slice() {
            ["principal", id] => { self.principals.entry(id.to_string()).or_insert("active".into()); }
            ["pstatus", id, st] => { if let Some(s) = self.principals.get_mut(*id) { *s = st.to_string(); } }
            ["group", gid, ms] => { self.groups.insert(gid.to_string(), csv(ms)); }
            ["grant", sp, gp, gg, acts, sc, co, cs, da] => self.grants.push(RGrant { space: sp.to_string(), gp: str_of(gp), gg: str_of(gg), actions: csv(acts),
                from: kv(co, "from").parse().unwrap_or(0), until: kv(co, "until").parse().unwrap_or(0), revoked: false, scope: sc.to_string(), cons: cs.to_string(), may_delegate: *da == "1" }),
            ["revoke_grant", row] => { if let Some(g) = row.parse::<usize>().ok().and_then(|n| self.grants.get_mut(n.wrapping_sub(1))) { g.revoked = true; } }
            ["deleg", sp, dor, dee, acts, sc, co, cs, par, _mr] => self.delegs.push(RDeleg { space: sp.to_string(), delegator: dor.to_string(), delegate: dee.to_string(), actions: csv(acts),
                from: kv(co, "from").parse().unwrap_or(0), until: kv(co, "until").parse().unwrap_or(0), revoked: false, scope: sc.to_string(), cons: cs.to_string(), parent: str_of(par) }),
            ["revoke_deleg", row] => { if let Some(d) = row.parse::<usize>().ok().and_then(|n| self.delegs.get_mut(n.wrapping_sub(1))) { d.revoked = true; } }
            ["policy", pid, _n, rest @ ..] => {
                let sts = rest.chunks(8).filter(|c| c.len() == 8).map(|c| RStmt {
                    effect: str_of(c[0]),
                    blanket: c[1] == "-" && c[2] == "-" && c[4] == "k=-;t=-;c=-;e=-" && c[5] == "p=-;pa=-;as=-;from=0;until=0",
                    actions: csv(c[3]),
                }).collect();
                let e = self.policies.entry(pid.to_string()).or_insert((0, vec![]));
                *e = (e.0 + 1, sts);
            }
            ["space", id, owner, owners, status, pol, _cls, _audit] => { self.spaces.insert(id.to_string(), RSpace { owner: str_of(owner), owners: csv(owners), status: status.to_string(), policy: str_of(pol) }); }
            _ => {}
        }
    }
    /// The Principals that made Delegation `n` and every link above it (nearest first), following `parent_delegation`.
    pub fn ancestors_to_reask(&self, space: &str, n: usize) -> Vec<String> {
        let Some(sp) = self.spaces.get(space) else { return vec![] };
        if !sp.policy.is_empty() && self.policies.get(&sp.policy).is_some_and(|(_, sts)| sts.iter().any(|s| s.effect == "deny")) { return vec![]; }
        let (mut cur, mut out) = (n, vec![]);
        for _ in 0..10 {
            let Some(d) = self.delegs.get(cur.wrapping_sub(1)) else { break };
            if !out.contains(&d.delegator) { out.push(d.delegator.clone()); }
            match d.parent.rsplit_once(':').and_then(|x| x.1.parse::<usize>().ok()) { Some(p) if !d.parent.is_empty() => cur = p, _ => break }
        }
        out
    }
    /// Whether the Principal holds exactly one live authority in the Space and owns nothing (then its own answer's
    /// constraints are that authority's, and whatever hangs below it must stay inside them).
    pub fn sole_authority(&self, space: &str, p: &str) -> bool {
        let Some(sp) = self.spaces.get(space) else { return false };
        if sp.owner == p || sp.owners.iter().any(|o| o == p) { return false; }
        let g = self.grants.iter().filter(|g| !g.revoked && g.space == space && (g.gp == p || (!g.gg.is_empty() && self.groups.get(&g.gg).is_some_and(|ms| ms.iter().any(|m| m == p))))).count();
        let d = self.delegs.iter().filter(|d| !d.revoked && d.space == space && d.delegate == p).count();
        let pol = !sp.policy.is_empty() && self.policies.get(&sp.policy).is_some_and(|(_, sts)| sts.iter().any(|s| s.effect == "allow"));
        g + d == 1 && !pol
    }
    /// length of the chain of parents below Delegation `n` (1 = direct), capped; 0 when the chain is broken or cyclic
    pub fn chain_depth(&self, n: usize) -> usize {
        let (mut cur, mut depth) = (n, 0usize);
        loop {
            let Some(d) = self.delegs.get(cur.wrapping_sub(1)) else { return 0 };
            depth += 1;
            if d.parent.is_empty() { return depth; }
            if depth > 12 { return 0; }
            match d.parent.rsplit_once(':').and_then(|x| x.1.parse::<usize>().ok()) { Some(p) => cur = p, None => return 0 }
        }
    }
    pub fn has_forward_parent(&self) -> bool {
        self.delegs.iter().enumerate().any(|(i, d)| d.parent.rsplit_once(':').and_then(|x| x.1.parse::<usize>().ok()).is_some_and(|p| p > i))
    }
    fn in_window(from: u64, until: u64) -> bool {
        (from == 0 || from <= MODEL_NOW) && (until == 0 || until > MODEL_NOW)
    }
    /// Returns `(key, what, expected)` for every fact the answer contradicts.
    pub fn judge(&self, op: &str, answer: &str) -> Vec<(String, String, String)> {
        let t: Vec<&str> = op.split(' ').filter(|s| !s.is_empty()).collect();
        let ["auth", sp, p, _st, _pu, _pa, _ch, perm, ..] = t.as_slice() else { return vec![] };
        let mut out = vec![];
        let Some(space) = self.spaces.get(*sp) else {
            if answer != "err:notfound" { out.push(("authz:unknown-space".into(), "a request against a Space that does not exist was answered".into(), "err:notfound".into())); }
            return out;
        };
        let Some(status) = self.principals.get(*p) else {
            if answer != "err:unauthenticated" { out.push(("authz:unregistered-principal".into(), "an unregistered Principal was resolved".into(), "err:unauthenticated".into())); }
            return out;
        };
        if !answer.starts_with("ok ") { return out; } // resolution errors caused by chains / unregistered delegators: correspondence only
        let decision = answer.split(' ').nth(1).unwrap_or("");
        let used = answer.split(' ').find_map(|x| x.strip_prefix("used=")).map(csv).unwrap_or_default();
        let permitted = decision == "allow" || decision == "allow_with_constraints";
        let proceeds = permitted || decision == "require_approval";
        if status != "active" && decision != "deny" { out.push(("authz:inactive-principal-not-denied".into(), format!("Principal status {status}"), "deny".into())); }
        if space.status == "suspended" && decision != "deny" { out.push(("authz:suspended-space-not-denied".into(), "the MemorySpace is suspended".into(), "deny".into())); }
        let active_policy = if space.policy.is_empty() { None } else { self.policies.get(&space.policy) };
        if proceeds && let Some((_, sts)) = active_policy
            && sts.iter().any(|s| s.effect == "deny" && s.blanket && (s.actions.is_empty() || s.actions.iter().any(|a| a == perm))) {
            out.push(("authz:deny-does-not-override".into(), "a deny statement without principal/group/resource/condition narrowing names this permission".into(), "deny".into()));
        }
        let is_owner = status == "active" && (space.owner == *p || space.owners.iter().any(|o| o == p));
        for u in &used {
            if let Some(n) = u.strip_prefix("kip:grant:").and_then(|n| n.parse::<usize>().ok()) {
                match self.grants.get(n.wrapping_sub(1)) {
                    None => out.push(("authz:unknown-grant-used".into(), u.clone(), "an existing Grant".into())),
                    Some(g) => {
                        if g.revoked { out.push(("authz:revoked-grant-used".into(), u.clone(), "a revoked Grant authorizes nothing".into())); }
                        if !Self::in_window(g.from, g.until) { out.push(("authz:expired-grant-used".into(), u.clone(), "a Grant outside its validity window authorizes nothing".into())); }
                        if g.space != *sp { out.push(("authz:grant-of-other-space-used".into(), u.clone(), "a Grant confers authority over its own Space only".into())); }
                        if !g.actions.iter().any(|a| a == perm) { out.push(("authz:grant-without-action-used".into(), u.clone(), format!("the Grant does not list {perm}"))); }
                        let member = !g.gg.is_empty() && self.groups.get(&g.gg).is_some_and(|ms| ms.iter().any(|m| m == p));
                        if g.gp != *p && !member { out.push(("authz:foreign-grant-used".into(), u.clone(), "the Grant names another grantee".into())); }
                    }
                }
            } else if let Some(n) = u.strip_prefix("kip:delegation:").and_then(|n| n.parse::<usize>().ok()) {
                match self.delegs.get(n.wrapping_sub(1)) {
                    None => out.push(("authz:unknown-delegation-used".into(), u.clone(), "an existing Delegation".into())),
                    Some(d) => {
                        if d.revoked { out.push(("authz:revoked-delegation-used".into(), u.clone(), "a revoked Delegation authorizes nothing".into())); }
                        if !Self::in_window(d.from, d.until) { out.push(("authz:expired-delegation-used".into(), u.clone(), "outside its validity window".into())); }
                        if d.delegate != *p || d.space != *sp { out.push(("authz:foreign-delegation-used".into(), u.clone(), "the Delegation names another delegate or Space".into())); }
                        if !d.actions.iter().any(|a| a == perm) { out.push(("authz:delegation-without-action-used".into(), u.clone(), format!("the Delegation does not list {perm}"))); }
                        if self.principals.get(&d.delegator).map(|s| s.as_str()) != Some("active") {
                            let key = if d.parent.is_empty() { "authz:delegation-of-inactive-delegator-used" } else { "authz:redelegation-by-inactive-intermediate-used" };
                            out.push((key.into(), u.clone(), "the Principal that made this Delegation is not active (or not registered): it holds nothing to pass on".into()));
                        }
                        // attenuation (direct Delegations): only ownership or a live, delegable Grant of the delegator that lists the
                        // permission and whose scope lists contain the Delegation's can be what is conferred
                        if d.parent.is_empty() {
                            let dor_owner = space.owner == d.delegator || space.owners.iter().any(|o| *o == d.delegator);
                            let narrows = |parent: &str, child: &str| -> bool { let (p, c) = (csv(parent), csv(child)); p.is_empty() || (!c.is_empty() && c.iter().all(|x| p.contains(x))) };
                            let holds = self.grants.iter().any(|g| !g.revoked && g.space == *sp && g.may_delegate && g.actions.iter().any(|a| a == perm)
                                && (g.gp == d.delegator || (!g.gg.is_empty() && self.groups.get(&g.gg).is_some_and(|ms| ms.iter().any(|m| *m == d.delegator))))
                                && ["k", "t", "c", "e"].iter().all(|k| narrows(kv(&g.scope, k), kv(&d.scope, k)))
                                && narrows(kv(&g.cons, "f"), kv(&d.cons, "f"))
                                && { let (p, c) = (kv(&g.cons, "mc"), kv(&d.cons, "mc")); p == "-" || (c != "-" && class_rank(c) <= class_rank(p)) }
                                && { let (p, c) = (kv(&g.cons, "mr"), kv(&d.cons, "mr")); p == "-" || (c != "-" && c.parse::<u64>().unwrap_or(u64::MAX) <= p.parse::<u64>().unwrap_or(0)) }
                                && (kv(&g.cons, "x") == "1" || kv(&d.cons, "x") == "0"));
                            if !dor_owner && !holds { out.push(("authz:delegation-wider-than-its-delegator".into(), u.clone(), "the delegator neither owns the Space nor holds ONE delegable Grant that lists the permission and contains the Delegation's scope lists and constraints".into())); }
                        }
                    }
                }
            } else if let Some(o) = u.strip_prefix("owner:") {
                if o != *p || !is_owner { out.push(("authz:owner-authority-for-non-owner".into(), u.clone(), "only an active owner holds owner authority".into())); }
            } else if let Some(pv) = u.strip_prefix("policy:") {
                let want = active_policy.map(|(v, _)| format!("{}@{}", space.policy, v));
                if want.as_deref() != Some(pv) { out.push(("authz:stale-policy-used".into(), u.clone(), format!("the version in force is {want:?}"))); }
            } else {
                out.push(("authz:unknown-authority-kind".into(), u.clone(), "owner / grant / delegation / policy".into()));
            }
        }
        if proceeds && used.is_empty() { out.push(("authz:allow-without-witness".into(), "no authority named".into(), "a permitted decision names what permitted it".into())); }
        // default deny: nothing at all could apply
        let any_grant = self.grants.iter().any(|g| !g.revoked && g.space == *sp && (g.gp == *p || (!g.gg.is_empty() && self.groups.get(&g.gg).is_some_and(|ms| ms.iter().any(|m| m == p)))));
        let any_deleg = self.delegs.iter().any(|d| !d.revoked && d.space == *sp && d.delegate == *p);
        let any_allow = active_policy.is_some_and(|(_, sts)| sts.iter().any(|s| s.effect == "allow"));
        if !is_owner && !any_grant && !any_deleg && !any_allow && decision != "deny" {
            out.push(("authz:default-deny".into(), "not an owner, no live Grant, no live Delegation, no allow statement".into(), "deny".into()));
        }
        out
    }
}

// ----------------------------------------------------------------------------------------------
// generation
// ----------------------------------------------------------------------------------------------

const PRINCIPALS: [&str; 5] = ["kip:principal:p1", "kip:principal:p2", "kip:principal:p3", "kip:principal:p4", "kip:principal:ghost"];
const GROUPS: [&str; 2] = ["kip:group:g1", "kip:group:g2"];
const PERMS: [&str; 9] = ["read", "search", "discover", "create", "update", "export", "read_history", "project", "purge"];
const POLICY: &str = "kip:policy:main";

fn subset(r: &mut Rng, pool: &[&str], max: usize) -> Vec<String> {
    let n = r.usize(max + 1);
    let mut v: Vec<String> = vec![];
    for _ in 0..n {
        let x = r.pick(pool).to_string();
        if !v.contains(&x) { v.push(x); }
    }
    v
}
fn gen_list(r: &mut Rng, pool: &[&str], p_nonempty: u64, max: usize) -> String {
    if r.chance(p_nonempty, 10) { let v = subset(r, pool, max); show_csv(&v) } else { "-".into() }
}
pub fn gen_scope(r: &mut Rng) -> String {
    if r.chance(1, 2) { return "k=-;t=-;c=-;e=-".into(); }
    format!("k={};t={};c={};e={}", gen_list(r, &["concept", "proposition", "evidence"], 5, 2), gen_list(r, &["T1", "T2"], 2, 2),
        gen_list(r, &["public", "internal", "secret", "weird"], 3, 2), gen_list(r, &["C-1", "C-2", "P-1"], 2, 2))
}
pub fn gen_cond(r: &mut Rng) -> String {
    if r.chance(1, 2) { return "p=-;pa=-;as=-;from=0;until=0".into(); }
    format!("p={};pa={};as={};from={};until={}", gen_list(r, &["research", "ops"], 3, 2),
        r.pick(&["-", "-", "session_bound", "approved", "bogus"]), r.pick(&["-", "-", "standard", "strong", "bogus"]),
        r.pick(&[0u64, 0, 0, 2005, 2105]), r.pick(&[0u64, 0, 0, 2010, 2110, 2120]))
}
pub fn gen_cons(r: &mut Rng) -> String {
    if r.chance(1, 2) { return format!("f=-;mr=-;mi=-;mc=-;x={}", r.below(2)); }
    format!("f={};mr={};mi={};mc={};x={}", gen_list(r, &["name", "attributes"], 3, 2), r.pick(&["-", "-", "0", "1", "5"]),
        r.pick(&["-", "-", "advisory", "executable", "odd"]), r.pick(&["-", "-", "public", "internal", "secret", "weird"]), r.below(2))
}
fn gen_actions(r: &mut Rng) -> String {
    let mut v = subset(r, &PERMS, 4);
    if r.chance(1, 12) { v.push("fly".into()); }
    show_csv(&v)
}
fn gen_obl(r: &mut Rng) -> String {
    format!("a={};n={};r={}", r.below(2), r.pick(&[0u64, 0, 0, 0, 1, 2]), r.pick(&["-", "-", "-", "safe-summary"]))
}
fn gen_statement(r: &mut Rng) -> String {
    let eff = *r.pick(&["allow", "allow", "deny", "deny", "audit"]);
    format!("{eff} {} {} {} {} {} {} {}", gen_list(r, &PRINCIPALS[..4], 4, 2), gen_list(r, &GROUPS, 2, 1), gen_list(r, &PERMS, 7, 3),
        gen_scope(r), gen_cond(r), gen_cons(r), gen_obl(r))
}
fn gen_query(r: &mut Rng, ndeleg: usize, nreg: usize) -> String {
    let p = if r.chance(1, 10) { SYSTEM_PRINCIPAL } else if r.chance(1, 14) { *r.pick(&PRINCIPALS) } else { *r.pick(&PRINCIPALS[..nreg]) };
    let sp = if r.chance(1, 12) { SPACE2 } else if r.chance(1, 40) { "kip:space:nowhere" } else { SPACE };
    let chain = if ndeleg == 0 || r.chance(5, 6) { "-".to_string() } else {
        match r.below(5) {
            0 => "x".into(),
            1 => "kip:delegation:99".into(),
            2 => { let a = 1 + r.usize(ndeleg); let b = 1 + r.usize(ndeleg); format!("kip:delegation:{a},kip:delegation:{b}") }
            _ => format!("kip:delegation:{}", 1 + r.usize(ndeleg)),
        }
    };
    let (k, t, c, e) = if r.chance(3, 10) { ("-", "-", "-", "-") } else {
        (*r.pick(&["concept", "proposition", "evidence", "-"]), *r.pick(&["T1", "T2", "-", "-"]),
         *r.pick(&["-", "-", "public", "internal", "private", "secret", "weird"]), *r.pick(&["-", "-", "C-1", "C-2", "P-1"]))
    };
    format!("auth {sp} {p} {} {} {} {chain} {} {k} {t} {c} {e}", r.pick(&["standard", "standard", "strong", "none", "-"]), r.pick(&["-", "-", "research", "ops"]),
        r.pick(&["declared", "declared", "session_bound", "approved", "-"]), r.pick(&PERMS))
}

const DEFAULT_SCOPE: &str = "k=-;t=-;c=-;e=-";
const DEFAULT_COND: &str = "p=-;pa=-;as=-;from=0;until=0";

/// One authority narrowed along exactly one dimension (or not at all): (scope, conditions, constraints).
fn gen_bounds(r: &mut Rng) -> (String, String, String) {
    let mut sc = DEFAULT_SCOPE.to_string();
    let mut co = DEFAULT_COND.to_string();
    let mut cs = format!("f=-;mr=-;mi=-;mc=-;x={}", r.below(2));
    match r.below(12) {
        0 => sc = format!("k={};t=-;c=-;e=-", r.pick(&["evidence", "concept", "concept,proposition"])),
        1 => sc = format!("k=-;t={};c=-;e=-", r.pick(&["T1", "T2"])),
        2 => sc = format!("k=-;t=-;c={};e=-", r.pick(&["public", "public,internal", "internal"])),
        3 => sc = format!("k=-;t=-;c=-;e={}", r.pick(&["C-1", "C-1,C-2", "P-1"])),
        4 | 5 => cs = format!("f=-;mr=-;mi=-;mc={};x={}", r.pick(&["public", "internal", "private"]), r.below(2)),
        6 => cs = format!("f={};mr=-;mi=-;mc=-;x={}", r.pick(&["name", "name,attributes"]), r.below(2)),
        7 => cs = format!("f=-;mr={};mi=-;mc=-;x=0", r.pick(&["1", "5"])),
        8 => co = format!("p=-;pa=-;as=strong;from=0;until=0"),
        9 => co = format!("p={};pa={};as=-;from=0;until=0", r.pick(&["research", "ops"]), r.pick(&["-", "session_bound"])),
        10 => co = format!("p=-;pa=-;as=-;from=0;until={}", r.pick(&[2010u64, 2110])),
        _ => {}
    }
    (sc, co, cs)
}

/// A history built around attenuation. The delegator holds two or three authorities of DIFFERENT actions and DIFFERENT
/// bounds (direct Grants, a group Grant, a Delegation made to it); the Delegations it makes pair an action with the bounds
/// of the authority that holds that action (covered), of another one (covered only by mixing two authorities — must confer
/// nothing), with no bounds at all (wider) or with unrelated ones; re-delegations hang below them. Delegates and delegator
/// are asked the same questions over every resource class; then something is revoked / suspended and they are asked again.
fn gen_delegation_case(r: &mut Rng) -> Vec<String> {
    let mut ops = vec!["mode authz".to_string()];
    for p in &PRINCIPALS[..4] { ops.push(format!("principal {p}")); }
    let (d, e, f, x) = (PRINCIPALS[0], PRINCIPALS[1], PRINCIPALS[2], PRINCIPALS[3]);
    let grouped = r.chance(1, 3);
    if grouped { ops.push(format!("group {} {d}", GROUPS[0])); }
    let mut pool = vec!["read", "search", "export", "discover"];
    r.shuffle(&mut pool);
    let nauth = 2 + r.usize(2);
    let mut held: Vec<(String, (String, String, String))> = vec![]; // (action, bounds) of the delegator's delegable authorities
    let mut ngrant = 0;
    for i in 0..nauth {
        let action = pool[i % pool.len()];
        let actions = if r.chance(1, 5) { format!("{action},{}", pool[(i + 1) % pool.len()]) } else { action.to_string() };
        let bounds = gen_bounds(r);
        let (gp, gg) = if grouped && r.chance(1, 2) { ("-".to_string(), GROUPS[0].to_string()) } else { (d.to_string(), "-".to_string()) };
        ops.push(format!("grant {SPACE} {gp} {gg} {actions} {} {} {} {}", bounds.0, bounds.1, bounds.2, r.chance(7, 8) as u8));
        ngrant += 1;
        held.push((action.to_string(), bounds));
    }
    let mut ndeleg = 0;
    if r.chance(1, 3) {
        // a Delegation made TO the delegator: a candidate it holds but may not pass on
        let b = gen_bounds(r);
        ops.push(format!("grant {SPACE} {x} - purge,read {} {} {} 1", b.0, b.1, b.2));
        ngrant += 1;
        ops.push(format!("deleg {SPACE} {x} {d} purge,read {} {} {} - 1", b.0, b.1, b.2));
        ndeleg += 1;
    }
    let mut made: Vec<(usize, &str, String, String, String, String)> = vec![];
    for _ in 0..(2 + r.usize(5)) {
        let i = r.usize(held.len());
        let (action, own) = held[i].clone();
        let other = held[(i + 1 + r.usize(held.len() - 1)) % held.len()].1.clone();
        let (sc, co, cs) = match r.below(8) {
            0 | 1 => own.clone(),                                                          // covered by the authority holding the action
            2 | 3 | 4 => other.clone(),                                                    // bounds of ANOTHER authority: only a mix covers it
            5 => (DEFAULT_SCOPE.to_string(), DEFAULT_COND.to_string(), "f=-;mr=-;mi=-;mc=-;x=0".to_string()), // wider than anything narrowed
            6 => (own.0.clone(), other.1.clone(), other.2.clone()),                        // scope from one, the rest from the other
            _ => gen_bounds(r),
        };
        // re-delegations of any depth hang below ANY earlier row (its delegate passes it on); now and then the parent names a
        // row that does not exist yet, so that later rows can close a cycle
        let mut inherit: Option<(String, String, String, String)> = None;
        let (dor, dee, parent) = if !made.is_empty() && r.chance(2, 5) {
            let (pid, pdee, pa, psc, pco, pcs) = made[r.usize(made.len())].clone();
            let parent = if r.chance(1, 8) { format!("kip:delegation:{}", ndeleg + 2) } else { format!("kip:delegation:{pid}") };
            // mostly inside the parent's own bounds (so that the chain really carries authority), sometimes not
            if r.chance(2, 3) { inherit = Some((pa, psc, pco, pcs)); }
            (pdee, *r.pick(&[e, f, x]), parent)
        } else { (d, if r.chance(3, 4) { e } else { f }, "-".to_string()) };
        let acts = if r.chance(1, 4) { format!("{action},{}", held[(i + 1) % held.len()].0) } else { action };
        let (acts, sc, co, cs) = inherit.unwrap_or((acts, sc, co, cs));
        let redeleg = r.chance(3, 4);
        ops.push(format!("deleg {SPACE} {dor} {dee} {acts} {sc} {co} {cs} {parent} {}", redeleg as u8));
        made.push((ndeleg + 1, dee, acts, sc, co, cs));
        ndeleg += 1;
    }
    let actions: Vec<String> = held.iter().map(|h| h.0.clone()).collect();
    let ask = |r: &mut Rng, ops: &mut Vec<String>| {
        for _ in 0..12 {
            let who = *r.pick(&[e, e, e, f, f, x, d]);
            let (k, t, c, el) = if r.chance(1, 8) { ("-", "-", "-", "-") } else {
                (*r.pick(&["concept", "proposition", "evidence"]), *r.pick(&["T1", "T2", "-"]), *r.pick(&["-", "public", "internal", "private", "secret"]), *r.pick(&["-", "C-1", "C-2", "P-1"])) };
            let chain = if r.chance(1, 8) { format!("kip:delegation:{}", 1 + r.usize(ndeleg)) } else { "-".to_string() };
            ops.push(format!("auth {SPACE} {who} {} {} {} {chain} {} {k} {t} {c} {el}", r.pick(&["standard", "strong", "strong"]), r.pick(&["-", "research", "ops"]),
                r.pick(&["declared", "session_bound", "approved"]), r.pick(&actions)));
        }
    };
    ask(r, &mut ops);
    match r.below(5) { 0 => ops.push(format!("revoke_grant {}", 1 + r.usize(ngrant))), 1 => ops.push(format!("pstatus {d} suspended")), 2 | 3 => ops.push(format!("revoke_deleg {}", 1 + r.usize(ndeleg))), _ => ops.push(format!("pstatus {} suspended", r.pick(&[e, f]))) }
    ask(r, &mut ops);
    ops
}

/// Attenuation along a re-delegation chain, one dimension at a time: Grant (delegable, unbounded) to L; L→M bounded on one
/// dimension; M→F (and sometimes F→G) bounded on the SAME dimension by a list that is, relative to its parent's, equal /
/// a subset / a superset / partially overlapping / DISJOINT / empty (child) / bounded under an empty parent. Everybody on
/// the chain is then asked about resources on both sides of every bound. Only contained links may confer anything.
fn gen_chain_case(r: &mut Rng) -> Vec<String> {
    let mut ops = vec!["mode authz".to_string()];
    for p in &PRINCIPALS[..4] { ops.push(format!("principal {p}")); }
    let (l, m, f, g) = (PRINCIPALS[0], PRINCIPALS[1], PRINCIPALS[2], PRINCIPALS[3]);
    ops.push(format!("grant {SPACE} {l} - read,search {DEFAULT_SCOPE} {DEFAULT_COND} f=-;mr=-;mi=-;mc=-;x=1 1"));
    // the dimension and its three-value universe
    let (dim, uni): (&str, [&str; 3]) = *r.pick(&[("k", ["concept", "evidence", "proposition"]), ("t", ["T1", "T2", "T3"]), ("c", ["public", "internal", "secret"]),
        ("e", ["C-1", "C-2", "P-1"]), ("f", ["name", "attributes", "schema_ref"]), ("c", ["public", "secret", "private"]), ("f", ["name", "attributes", "id"])]);
    let (a, b, c) = (uni[0], uni[1], uni[2]);
    let rel = |r: &mut Rng| -> (String, String, &'static str) {
        match r.below(9) {
            0 => (format!("{a},{b}"), format!("{a},{b}"), "equal"),
            1 => (format!("{a},{b}"), a.to_string(), "subset"),
            2 => (a.to_string(), format!("{a},{b}"), "superset"),
            3 => (format!("{a},{b}"), format!("{b},{c}"), "overlap"),
            4 | 5 => (a.to_string(), b.to_string(), "disjoint"),
            6 => (format!("{a},{b}"), c.to_string(), "disjoint"),
            7 => (a.to_string(), "-".to_string(), "empty-child"),
            _ => ("-".to_string(), a.to_string(), "empty-parent"),
        }
    };
    let bound = |dim: &str, v: &str| -> (String, String) {
        if dim == "f" { (DEFAULT_SCOPE.to_string(), format!("f={v};mr=-;mi=-;mc=-;x=0")) }
        else { (format!("k={};t={};c={};e={}", if dim == "k" { v } else { "-" }, if dim == "t" { v } else { "-" }, if dim == "c" { v } else { "-" }, if dim == "e" { v } else { "-" }), "f=-;mr=-;mi=-;mc=-;x=0".to_string()) }
    };
    let (pv, cv, tag) = rel(r);
    let (sc1, cs1) = bound(dim, &pv);
    let (sc2, cs2) = bound(dim, &cv);
    ops.push(format!("deleg {SPACE} {l} {m} read,search {sc1} {DEFAULT_COND} {cs1} - 1"));
    ops.push(format!("deleg {SPACE} {m} {f} read,search {sc2} {DEFAULT_COND} {cs2} kip:delegation:1 1"));
    let mut ndeleg = 2;
    if r.chance(1, 2) {
        // depth 3: relative to the second link
        let third = match r.below(4) { 0 => cv.clone(), 1 => if tag == "disjoint" { pv.clone() } else { c.to_string() }, 2 => "-".to_string(), _ => a.to_string() };
        let (sc3, cs3) = bound(dim, &third);
        ops.push(format!("deleg {SPACE} {f} {g} read {sc3} {DEFAULT_COND} {cs3} kip:delegation:2 0"));
        ndeleg = 3;
    }
    let _ = tag;
    let ask = |r: &mut Rng, ops: &mut Vec<String>| {
        for who in [f, f, f, g, g, m, f, g] {
            let pickv = |r: &mut Rng, d: &str, neutral: &'static str| -> String { if dim == d { r.pick(&uni).to_string() } else { neutral.to_string() } };
            let k = if dim == "k" { pickv(r, "k", "") } else { r.pick(&["concept", "evidence"]).to_string() };
            let t = pickv(r, "t", "-");
            let c_ = if dim == "c" { pickv(r, "c", "") } else { r.pick(&["-", "public", "secret"]).to_string() };
            let e = pickv(r, "e", "-");
            let chain = if r.chance(1, 6) { format!("kip:delegation:{}", 1 + r.usize(ndeleg)) } else { "-".to_string() };
            ops.push(format!("auth {SPACE} {who} standard - declared {chain} {} {k} {t} {c_} {e}", r.pick(&["read", "read", "search"])));
        }
    };
    ask(r, &mut ops);
    if r.chance(1, 3) { ops.push(format!("revoke_deleg {}", 1 + r.usize(ndeleg))); ask(r, &mut ops); }
    ops
}

pub fn gen_case(r: &mut Rng) -> Vec<String> {
    if r.chance(1, 6) { return gen_chain_case(r); }
    if r.chance(1, 3) { return gen_delegation_case(r); }
    let mut ops = vec!["mode authz".to_string()];
    let nreg = 3 + r.usize(2);
    for p in &PRINCIPALS[..nreg] { ops.push(format!("principal {p}")); }
    if r.chance(1, 3) { ops.push(format!("space {SPACE2} {} - active - - standard", r.pick(&PRINCIPALS[..4]))); }
    let mut ngrant = 0usize;
    let mut ndeleg = 0usize;
    let mut recent: Vec<(String, String, String)> = vec![];
    let steps = 14 + r.usize(22);
    for _ in 0..steps {
        match r.below(100) {
            0..=21 => {
                let (gp, gg) = if r.chance(3, 4) { (r.pick(&PRINCIPALS).to_string(), if r.chance(1, 12) { r.pick(&GROUPS).to_string() } else { "-".into() }) } else { ("-".to_string(), r.pick(&GROUPS).to_string()) };
                let (sc, co, cs) = (gen_scope(r), gen_cond(r), gen_cons(r));
                recent.push((sc.clone(), co.clone(), cs.clone()));
                let sp = if r.chance(1, 10) { SPACE2 } else { SPACE };
                ops.push(format!("grant {sp} {gp} {gg} {} {sc} {co} {cs} {}", gen_actions(r), r.chance(2, 3) as u8));
                ngrant += 1;
            }
            22..=36 => {
                let dor = if r.chance(1, 8) { SYSTEM_PRINCIPAL } else if r.chance(1, 14) { *r.pick(&PRINCIPALS) } else { *r.pick(&PRINCIPALS[..nreg]) };
                let dee = *r.pick(&PRINCIPALS[..4]);
                let (sc, co, cs) = if !recent.is_empty() && r.chance(1, 2) { recent[r.usize(recent.len())].clone() } else if r.chance(1, 2) {
                    ("k=-;t=-;c=-;e=-".to_string(), "p=-;pa=-;as=-;from=0;until=0".to_string(), "f=-;mr=-;mi=-;mc=-;x=0".to_string())
                } else { (gen_scope(r), gen_cond(r), gen_cons(r)) };
                let parent = if ndeleg > 0 && r.chance(1, 3) { match r.below(8) { 0 => "junk".to_string(), 1 => "kip:delegation:77".into(), _ => format!("kip:delegation:{}", 1 + r.usize(ndeleg)) } } else { "-".into() };
                let sp = if r.chance(1, 12) { SPACE2 } else { SPACE };
                ops.push(format!("deleg {sp} {dor} {dee} {} {sc} {co} {cs} {parent} {}", gen_actions(r), r.chance(1, 2) as u8));
                ndeleg += 1;
            }
            37..=42 => ops.push(format!("group {} {}", r.pick(&GROUPS), { let v = subset(r, &PRINCIPALS[..4], 3); show_csv(&v) })),
            43..=49 => {
                let n = r.usize(4);
                let sts: Vec<String> = (0..n).map(|_| gen_statement(r)).collect();
                ops.push(format!("policy {POLICY} {n}{}", sts.iter().map(|s| format!(" {s}")).collect::<String>()));
                if r.chance(3, 4) {
                    ops.push(format!("space {SPACE} {SYSTEM_PRINCIPAL} {} active {POLICY} {} {}", SYSTEM_PRINCIPAL, r.pick(&["internal", "internal", "-", "public", "secret"]), r.pick(&["standard", "standard", "verbose"])));
                }
            }
            50..=52 => {
                let owners = { let mut v = vec![SYSTEM_PRINCIPAL.to_string()]; v.extend(subset(r, &PRINCIPALS[..4], 2)); v };
                ops.push(format!("space {SPACE} {SYSTEM_PRINCIPAL} {} {} {} {} standard", show_csv(&owners), r.pick(&["active", "active", "active", "suspended"]),
                    r.pick(&["-", POLICY]), r.pick(&["internal", "-", "public"])));
            }
            53..=57 if ngrant > 0 => ops.push(format!("revoke_grant {}", 1 + r.usize(ngrant))),
            58..=60 if ndeleg > 0 => ops.push(format!("revoke_deleg {}", 1 + r.usize(ndeleg))),
            61..=64 => ops.push(format!("pstatus {} {}", r.pick(&PRINCIPALS), r.pick(&["suspended", "revoked", "active"]))),
            65 => ops.push(format!("names {SPACE} {} standard - declared -", r.pick(&PRINCIPALS))),
            _ => ops.push(gen_query(r, ndeleg, nreg)),
        }
    }
    for _ in 0..6 { ops.push(gen_query(r, ndeleg, nreg)); }
    ops
}
