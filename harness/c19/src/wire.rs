//! Line-protocol tokens <-> the real Governance types (same grammar as `Drv/C19.lean`).
use anda_cognitive_nexus::governance::rows::{AuthorityConditions, AuthorityConstraints, AuthorityScope, PolicyObligations, PolicyStatement};
use anda_cognitive_nexus::governance::{AuthContext, Authorization};

pub fn csv(s: &str) -> Vec<String> {
    if s == "-" || s.is_empty() { vec![] } else { s.split(',').map(|x| x.to_string()).collect() }
}
pub fn show_csv<S: AsRef<str>>(xs: &[S]) -> String {
    if xs.is_empty() { "-".into() } else { xs.iter().map(|x| x.as_ref()).collect::<Vec<_>>().join(",") }
}
pub fn str_of(s: &str) -> String {
    if s == "-" { String::new() } else { s.to_string() }
}
pub fn show_str(s: &str) -> String {
    if s.is_empty() { "-".into() } else { s.to_string() }
}
/// instants are year ordinals on the wire (`0` = unset); the model's `now` is 2050
pub const MODEL_NOW: u64 = 2050;
pub fn instant(y: u64) -> String {
    if y == 0 { String::new() } else { format!("{y:04}-01-01T00:00:00.000Z") }
}
fn fields(s: &str) -> std::collections::BTreeMap<&str, &str> {
    s.split(';').filter_map(|kv| kv.split_once('=')).collect()
}
pub fn parse_scope(s: &str) -> Option<AuthorityScope> {
    let f = fields(s);
    Some(AuthorityScope { kinds: csv(f.get("k")?), schema_refs: csv(f.get("t")?), classifications: csv(f.get("c")?), elements: csv(f.get("e")?) })
}
pub fn parse_cond(s: &str) -> Option<AuthorityConditions> {
    let f = fields(s);
    Some(AuthorityConditions {
        purpose: csv(f.get("p")?),
        min_purpose_assurance: str_of(f.get("pa")?),
        min_auth_strength: str_of(f.get("as")?),
        valid_from: instant(f.get("from")?.parse().ok()?),
        valid_until: instant(f.get("until")?.parse().ok()?),
    })
}
pub fn parse_cons(s: &str) -> Option<AuthorityConstraints> {
    let f = fields(s);
    let mr = *f.get("mr")?;
    Some(AuthorityConstraints {
        fields: csv(f.get("f")?),
        max_results: if mr == "-" { None } else { Some(mr.parse().ok()?) },
        max_influence_authority: str_of(f.get("mi")?),
        max_classification: str_of(f.get("mc")?),
        export: match *f.get("x")? { "1" => true, "0" => false, _ => return None },
    })
}
pub fn parse_obl(s: &str) -> Option<PolicyObligations> {
    let f = fields(s);
    Some(PolicyObligations {
        audit: match *f.get("a")? { "1" => true, "0" => false, _ => return None },
        approvals_required: f.get("n")?.parse().ok()?,
        redaction_profile: str_of(f.get("r")?),
    })
}
pub fn parse_statements(n: usize, toks: &[&str]) -> Option<Vec<PolicyStatement>> {
    if toks.len() != n * 8 { return None; }
    let mut out = vec![];
    for c in toks.chunks(8) {
        out.push(PolicyStatement {
            effect: str_of(c[0]), principals: csv(c[1]), groups: csv(c[2]), actions: csv(c[3]),
            resource: parse_scope(c[4])?, conditions: parse_cond(c[5])?, constraints: parse_cons(c[6])?, obligations: parse_obl(c[7])?,
        });
    }
    Some(out)
}
pub fn show_cons(c: &AuthorityConstraints) -> String {
    format!("f={};mr={};mi={};mc={};x={}", show_csv(&c.fields), c.max_results.map(|n| n.to_string()).unwrap_or("-".into()),
        show_str(&c.max_influence_authority), show_str(&c.max_classification), c.export as u8)
}
pub fn show_obl(o: &PolicyObligations) -> String {
    format!("a={};n={};r={}", o.audit as u8, o.approvals_required, show_str(&o.redaction_profile))
}
/// the code's one-line `reason`, as the tag the model computes (`Authorization.stage`)
pub fn stage_of(reason: &str) -> String {
    let label = |l: &str| if l == "the Space" { "the_Space".to_string() } else { l.to_string() };
    if reason == "the acting Principal is not active" { "inactive".into() }
    else if reason == "the MemorySpace is suspended" { "suspended".into() }
    else if reason == "an explicit policy statement denies this operation" { "explicit_deny".into() }
    else if let Some(rest) = reason.strip_prefix("nothing grants ") { format!("nothing_grants:{}", label(rest.split_once(" over ").map(|x| x.1).unwrap_or("?"))) }
    else if let Some((_, rest)) = reason.split_once(" needs ") { format!("needs_approvals:{}", rest.split(' ').next().unwrap_or("?")) }
    else if let Some((_, rest)) = reason.split_once(" is granted over ") { format!("granted:{}", label(rest)) }
    else { format!("unknown({})", reason.replace(' ', "_")) }
}
pub fn show_authorization(d: &Authorization) -> String {
    format!("ok {} used={} unr={} cons={} obl={} pol={}@{} why={}", d.decision.as_str(), show_csv(&d.authorities_used), d.unrestricted as u8,
        show_cons(&d.constraints), show_obl(&d.obligations), show_str(&d.policy_id), d.policy_version, stage_of(&d.reason))
}
pub fn auth_of(p: &str, strength: &str, purpose: &str, assurance: &str, chain: &str) -> AuthContext {
    let mut a = AuthContext::principal(p);
    a.auth_strength = str_of(strength);
    a.purpose = str_of(purpose);
    a.purpose_assurance = str_of(assurance);
    a.delegation_chain = csv(chain);
    a
}
pub fn err_name(e: &anda_kip::KipError) -> String {
    match e.name() {
        "Unauthenticated" => "err:unauthenticated".into(),
        "NotAuthorized" => "err:notauthorized".into(),
        "NotFoundOrNotVisible" => "err:notfound".into(),
        other => format!("err:other({other})"),
    }
}
