//! Part C — no command a session can send changes authority (the oracle of the last sentence of C19).
//!
//! A case builds a governed Nexus (principals, a group, Grants, a Delegation, a bound Policy, classified
//! elements) and then sends a battery of KML / KQL / META commands through sessions of the owner, of a
//! writer with broad cognitive permissions, of a narrow reader and of a stranger — including commands
//! that try to reach governance state by name. Around **every** command the protected state is dumped:
//!   * every row of gov_principals, gov_principal_groups, gov_actor_bindings, gov_grants, gov_delegations,
//!     gov_policies, gov_approvals (serialised documents, compared byte for byte),
//!   * the governance members of every Space row (owners, status, policy, default classification, audit mode),
//!   * the `governance` block of every element that existed before the command,
//!   * gov_audit: every row that existed before must still be there, unchanged (append-only).
//!
//! ops:  setup <variant>            (which governed configuration to build)
//!       as <owner|writer|reader|stranger|ghost> <command text>
use crate::nonint::{error_code, exec};
use crate::{fresh, CaseOut};
use anda_cognitive_nexus::governance::rows::{AuthorityConstraints, AuthorityScope, PolicyObligations, PolicyStatement};
use anda_cognitive_nexus::governance::store::{self as gstore, ActorBindingDraft, DelegationDraft, GrantDraft, GroupDraft, PolicyDraft, PrincipalDraft};
use anda_cognitive_nexus::governance::{AuthContext, SYSTEM_PRINCIPAL};
use anda_cognitive_nexus::nexus::DEFAULT_SPACE;
use anda_cognitive_nexus::{CognitiveNexus, ElementId};
use anda_kip::{ElementKind, TopLevelStatus};
use std::collections::BTreeMap;
use vh_common::serde_json;
use vh_common::Rng;

const GOV_STATIC: [&str; 7] = [gstore::PRINCIPALS, gstore::PRINCIPAL_GROUPS, gstore::ACTOR_BINDINGS, gstore::GRANTS, gstore::DELEGATIONS, gstore::POLICIES, gstore::APPROVALS];
const KINDS: [ElementKind; 5] = [ElementKind::Concept, ElementKind::Proposition, ElementKind::Assertion, ElementKind::Evidence, ElementKind::Activity];

#[derive(PartialEq, Clone, Default)]
struct Dump {
    gov: BTreeMap<String, Vec<(u64, String)>>,
    audit: Vec<(u64, String)>,
    spaces: Vec<String>,
    blocks: BTreeMap<String, String>,
}

async fn rows_of(nexus: &CognitiveNexus, name: &str) -> Result<Vec<(u64, String)>, String> {
    let c = nexus.store.db.open_collection(name.to_string(), async |_| Ok(())).await.map_err(|e| format!("open {name}: {e}"))?;
    let mut out = vec![];
    for id in c.ids() {
        let doc = c.get(id).await.map_err(|e| format!("get {name}/{id}: {e}"))?;
        out.push((id, serde_json::to_string(&doc).map_err(|e| format!("{e}"))?));
    }
    Ok(out)
}

async fn dump(nexus: &CognitiveNexus) -> Result<Dump, String> {
    let mut d = Dump::default();
    for name in GOV_STATIC { d.gov.insert(name.to_string(), rows_of(nexus, name).await?); }
    d.audit = rows_of(nexus, gstore::AUDIT).await?;
    let spaces = nexus.store.spaces();
    for id in spaces.ids() {
        let row: anda_cognitive_nexus::store::rows::SpaceRow = spaces.get_as(id).await.map_err(|e| format!("space {id}: {e}"))?;
        d.spaces.push(format!("{}|{}|{:?}|{}|{}|{}|{}|{}", row.space_id, row.owner_principal, row.owners, row.status, row.default_policy_id, row.trust_policy_id, row.default_classification, row.audit_mode));
    }
    for kind in KINDS {
        for seq in nexus.store.elements(kind).ids() {
            let id = ElementId::new(kind, seq);
            if let Ok(el) = nexus.store.get_element(id).await {
                d.blocks.insert(id.to_string(), el.governance().to_string());
            }
        }
    }
    Ok(d)
}

/// `None` when `after` preserves `before`; else (key, expected, observed)
fn compare(before: &Dump, after: &Dump) -> Option<(String, String, String)> {
    for (name, rows) in &before.gov {
        if after.gov.get(name) != Some(rows) {
            let a = after.gov.get(name).cloned().unwrap_or_default();
            let diff = rows.iter().zip(a.iter()).find(|(x, y)| x != y).map(|(x, y)| (x.1.clone(), y.1.clone())).unwrap_or((format!("{} rows", rows.len()), format!("{} rows", a.len())));
            return Some((format!("preserve:{name}"), diff.0, diff.1));
        }
    }
    if before.spaces != after.spaces { return Some(("preserve:space-governance-members".into(), format!("{:?}", before.spaces), format!("{:?}", after.spaces))); }
    for (i, row) in before.audit.iter().enumerate() {
        if after.audit.get(i) != Some(row) { return Some(("preserve:audit-not-append-only".into(), row.1.clone(), after.audit.get(i).map(|r| r.1.clone()).unwrap_or("<missing>".into()))); }
    }
    for (id, block) in &before.blocks {
        match after.blocks.get(id) {
            Some(b) if b == block => {}
            // an erased element (PURGE) has no block left to protect; anything else must be identical
            None => {}
            // PURGE replaces the whole row, block included, by an erasure stub `{content_digest, purged: true}`
            Some(b) if b.contains("\"purged\":true") => {}
            Some(b) => return Some(("preserve:element-governance-block".into(), format!("{id}: {block}"), format!("{id}: {b}"))),
        }
    }
    None
}

async fn principal(nexus: &CognitiveNexus, id: &str) -> Result<(), String> {
    nexus.governance().ensure_principal(PrincipalDraft { principal_id: id.into(), principal_class: "agent".into(), display_name: id.into(), auth_provider: "vh".into(), auth_subject: id.into() }).await.map(|_| ()).map_err(|e| format!("{e:?}"))
}

const WRITER: &str = "kip:principal:writer";
const READER: &str = "kip:principal:reader";
const STRANGER: &str = "kip:principal:stranger";

async fn setup(nexus: &CognitiveNexus, variant: u64) -> Result<(), String> {
    let gov = nexus.governance();
    for p in [WRITER, READER, STRANGER] { principal(nexus, p).await?; }
    gov.put_group(GroupDraft { group_id: "kip:group:writers".into(), name: "w".into(), description: String::new(), members: vec![WRITER.into()] }, SYSTEM_PRINCIPAL).await.map_err(|e| format!("{e:?}"))?;
    let all_cognitive: Vec<String> = ["discover", "read", "search", "project", "read_history", "read_raw_origin", "create", "update", "derive", "assert", "record_attributed_assertion", "assert_as_actor",
        "retract_own", "supersede_own", "moderate_assertion", "merge_identity", "maintain", "archive", "tombstone", "manage_retention", "purge", "export", "quarantine", "legal_hold"].iter().map(|s| s.to_string()).collect();
    gov.create_grant(GrantDraft { space_id: DEFAULT_SPACE.into(), grantee_group: "kip:group:writers".into(), actions: all_cognitive, delegation_allowed: true,
        constraints: AuthorityConstraints { export: true, ..Default::default() }, ..Default::default() }, SYSTEM_PRINCIPAL).await.map_err(|e| format!("{e:?}"))?;
    gov.create_grant(GrantDraft { space_id: DEFAULT_SPACE.into(), grantee_principal: READER.into(), actions: vec!["read".into(), "search".into(), "discover".into()],
        scope: AuthorityScope { kinds: vec!["concept".into()], ..Default::default() }, constraints: AuthorityConstraints { max_classification: "internal".into(), ..Default::default() }, ..Default::default() }, SYSTEM_PRINCIPAL)
        .await.map_err(|e| format!("{e:?}"))?;
    gov.create_delegation(DelegationDraft { space_id: DEFAULT_SPACE.into(), delegator_principal: WRITER.into(), delegate_principal: STRANGER.into(), actions: vec!["read_history".into()], ..Default::default() }, WRITER)
        .await.map_err(|e| format!("{e:?}"))?;
    gov.create_binding(ActorBindingDraft { principal_id: WRITER.into(), actor_key: "C-1".into(), binding_class: "self".into(), assurance: "verified".into(), scope: "*".into() }, SYSTEM_PRINCIPAL).await.map_err(|e| format!("{e:?}"))?;
    if variant % 2 == 1 {
        gov.publish_policy(PolicyDraft { policy_id: "kip:policy:p".into(), space_id: DEFAULT_SPACE.into(), description: String::new(), statements: vec![
            PolicyStatement { effect: "deny".into(), principals: vec![STRANGER.into()], actions: vec!["read".into()], ..Default::default() },
            PolicyStatement { effect: "allow".into(), actions: vec!["discover".into()], obligations: PolicyObligations { audit: true, ..Default::default() }, ..Default::default() },
        ] }, SYSTEM_PRINCIPAL).await.map_err(|e| format!("{e:?}"))?;
        let mut space = nexus.store.get_space(DEFAULT_SPACE).await.map_err(|e| format!("{e:?}"))?;
        space.default_policy_id = "kip:policy:p".into();
        if variant % 4 == 3 { space.audit_mode = "verbose".into(); }
        nexus.store.put_space(&space).await.map_err(|e| format!("{e:?}"))?;
    }
    let owner = nexus.system_session();
    let seed = exec(&owner, r#"MUTATE {
        CREATE CONCEPT ?alice { TYPE "Person" NAME "Alice" SET ATTRIBUTES {rank: 1} }
        CREATE CONCEPT ?dark { TYPE "Preference" NAME "Dark mode" }
        CREATE CONCEPT ?bob { TYPE "Person" NAME "Bob" }
        ENSURE PROPOSITION ?p (?alice, "prefers", ?dark)
        CREATE EVIDENCE ?e { SET FIELDS {evidence_class: "Document", payload: "the secret"} }
        CREATE ASSERTION ?a { SET FIELDS {proposition: ?p, asserted_by: ?alice, stance: "support", mode: "stated", confidence: 0.9} }
    }"#, None).await;
    if seed.status != TopLevelStatus::Succeeded { return Err(format!("seed: {} {:?}", error_code(&seed), seed.error.map(|e| e.message))); }
    owner.classify(DEFAULT_SPACE, ElementId::new(ElementKind::Concept, 3), "secret").await.map_err(|e| format!("{e:?}"))?;
    owner.classify(DEFAULT_SPACE, ElementId::new(ElementKind::Evidence, 1), "secret").await.map_err(|e| format!("{e:?}"))?;
    owner.classify(DEFAULT_SPACE, ElementId::new(ElementKind::Concept, 1), "public").await.map_err(|e| format!("{e:?}"))?;
    Ok(())
}

pub async fn run(ops: &[String]) -> Result<CaseOut, String> {
    let mut out = CaseOut::default();
    let nexus = fresh(true).await?;
    let mut ready = false;
    for (i, op) in ops.iter().enumerate() {
        if op.starts_with("mode ") { continue; }
        if let Some(v) = op.strip_prefix("setup ") { setup(&nexus, v.trim().parse().unwrap_or(0)).await?; ready = true; continue; }
        let Some(rest) = op.strip_prefix("as ") else { return Err(format!("bad op: {op}")) };
        if !ready { setup(&nexus, 0).await?; ready = true; }
        let (who, text) = rest.split_once(' ').ok_or("bad as")?;
        let session = match who {
            "owner" => nexus.system_session(),
            "writer" => nexus.session(AuthContext::principal(WRITER)),
            "reader" => nexus.session(AuthContext::principal(READER)),
            "stranger" => nexus.session(AuthContext::principal(STRANGER)),
            "anonymous" => nexus.session(AuthContext::anonymous()),
            _ => nexus.session(AuthContext::principal("kip:principal:ghost")),
        };
        let before = dump(&nexus).await?;
        let resp = exec(&session, text, None).await;
        let after = dump(&nexus).await?;
        let code = if resp.status == TopLevelStatus::Succeeded { "ok".to_string() } else { error_code(&resp) };
        out.hits.push(format!("preserve:{who}:{}", if code == "ok" { "ok" } else { "refused" }));
        out.hits.push(format!("preserve:outcome:{code}"));
        let kw = text.split(' ').next().unwrap_or("");
        if code == "ok" && ["CREATE", "UPSERT", "ENSURE", "UPDATE", "RETRACT", "SUPERSEDE", "CORRECT", "TRANSITION", "SET", "ARCHIVE", "TOMBSTONE", "PURGE", "MERGE", "MUTATE"].contains(&kw) { out.nontrivial = true; out.hits.push(format!("preserve:committed:{kw}")); }
        if after.audit.len() > before.audit.len() { out.hits.push("preserve:audit-appended".into()); }
        if let Some((key, expected, observed)) = compare(&before, &after) {
            out.failures.push((key, format!("`{text}` sent by {who} ({code}) changed protected governance state"), ops[..=i].to_vec(), expected, observed));
        }
    }
    Ok(out)
}

const COMMANDS: [&str; 58] = [
    // ordinary cognition
    "CREATE CONCEPT ?c { TYPE \"Person\" NAME \"Carol\" SET ATTRIBUTES {rank: 3} }",
    "UPSERT CONCEPT ?p { MATCH {type: \"Person\", key: \"person:dave\"} SET FIELDS {name: \"Dave\"} }",
    "UPSERT CONCEPT ?p { MATCH {id: \"C-1\"} SET FIELDS {name: \"Alice A.\"} }",
    "ENSURE PROPOSITION ?p (\"C-3\", \"prefers\", \"C-2\")",
    "CREATE EVIDENCE ?e { SET FIELDS {evidence_class: \"Document\", payload: \"raw\"} }",
    "CREATE ASSERTION ?a { SET FIELDS {proposition: \"P-1\", asserted_by: \"C-1\", stance: \"reject\", mode: \"stated\", confidence: 0.4} }",
    "CREATE ASSERTION ?a { SET FIELDS {proposition: \"P-1\", asserted_by: \"C-3\", stance: \"support\", mode: \"stated\", confidence: 0.8, evidence: [\"E-1\"]} }",
    "CREATE ACTIVITY ?act { SET FIELDS {activity_class: \"Summarization\", inputs: [\"E-1\"]} }",
    "UPDATE \"C-1\" SET FIELDS {name: \"Alice B.\"}",
    "UPDATE \"C-3\" SET ATTRIBUTES {rank: 9}",
    "UPDATE ?c SET FIELDS {name: \"Renamed\"} WHERE { ?c CONCEPT {type: \"Person\"} }",
    "RETRACT ASSERTION \"A-1\"",
    "SUPERSEDE ASSERTION \"A-1\" BY \"A-2\"",
    "CORRECT EVIDENCE \"E-1\" BY \"E-2\"",
    "TRANSITION ACTIVITY \"V-1\" TO \"completed\"",
    "SET RETENTION \"C-2\" { legal_hold: true }",
    "SET RETENTION \"C-3\" { legal_hold: false }",
    "ARCHIVE \"C-2\"",
    "ARCHIVE ?c WHERE { ?c CONCEPT {type: \"Person\"} }",
    "TOMBSTONE \"C-2\"",
    "TOMBSTONE \"C-3\"",
    "PURGE \"C-2\" CONFIRM \"PURGE\"",
    "PURGE \"E-1\" CONFIRM \"PURGE\"",
    "PURGE \"C-1\" REFERENCE POLICY \"authorized_cascade\" CONFIRM \"PURGE\"",
    "MERGE CONCEPT \"C-3\" INTO \"C-1\"",
    "MUTATE { CREATE CONCEPT ?a { TYPE \"Person\" NAME \"Erin\" } ENSURE PROPOSITION ?p (?a, \"prefers\", \"C-2\") CREATE ASSERTION ?s { SET FIELDS {proposition: ?p, asserted_by: ?a, stance: \"support\", mode: \"stated\", confidence: 0.7, evidence: [\"E-1\"]} } }",
    "MUTATE { CREATE EVIDENCE ?e { SET FIELDS {evidence_class: \"Document\", payload: \"sum\", source_refs: [\"E-1\"]} } ARCHIVE \"C-2\" }",
    // attempts to reach governance state by name
    "CREATE CONCEPT ?c { TYPE \"Person\" NAME \"Mallory\" SET FIELDS {governance: {classification: \"public\"}} }",
    "UPDATE \"C-3\" SET FIELDS {governance: {classification: \"public\"}}",
    "UPDATE \"C-3\" SET FIELDS {classification: \"public\"}",
    "UPDATE \"C-3\" SET ATTRIBUTES {governance: {classification: \"public\"}, classification: \"public\", max_influence_authority: \"executable\"}",
    "UPDATE \"E-1\" SET FIELDS {governance: {max_influence_authority: \"executable\"}}",
    "UPDATE \"C-1\" SET FIELDS {_system: {origin: {principal_id: \"kip:principal:system\"}}}",
    "UPSERT CONCEPT ?p { MATCH {id: \"C-3\"} SET FIELDS {governance: {classification: \"public\", quarantine_reason: \"\"}} }",
    "CREATE CONCEPT ?g { TYPE \"Person\" NAME \"kip:grant:1\" SET ATTRIBUTES {grantee_principal: \"kip:principal:stranger\", actions: [\"read\", \"purge\"], status: \"active\"} }",
    "CREATE CONCEPT ?g { TYPE \"$Grant\" NAME \"g\" }",
    "CREATE CONCEPT ?g { TYPE \"Principal\" NAME \"kip:principal:stranger\" SET ATTRIBUTES {status: \"active\", owner: true} }",
    "UPDATE \"kip:grant:1\" SET FIELDS {status: \"revoked\"}",
    "UPDATE \"kip:principal:stranger\" SET FIELDS {status: \"active\"}",
    "TOMBSTONE \"kip:grant:2\"",
    "PURGE \"kip:audit:1\" CONFIRM \"PURGE\"",
    "ARCHIVE \"kip:policy:p@1\"",
    "ENSURE PROPOSITION ?p (\"kip:principal:stranger\", \"member_of\", \"kip:group:writers\")",
    "SET RETENTION \"kip:space:default\" { legal_hold: true }",
    // reads and META
    "FIND(?c) WHERE { ?c CONCEPT {} }",
    "FIND(?c.governance, ?c._system) WHERE { ?c CONCEPT {} }",
    "FIND(?b.status) WHERE { ?p PROPOSITION (?s, \"prefers\", ?o) ?b BELIEF (?p) }",
    "FIND(?c.name) WHERE { ?c CONCEPT {} } AS OF SEQ 1",
    "DESCRIBE PRIMER",
    "DESCRIBE ACCESS",
    "DESCRIBE ACCESS WITH {operation: \"purge\", kind: \"concept\"}",
    "DESCRIBE SPACE",
    "LIST TYPES",
    "SEARCH CONCEPT \"Alice\"",
    "HISTORY SPACE",
    "CHANGES AFTER SEQ 0",
    "SNAPSHOT",
    "EXPORT CAPSULE ?c WHERE { ?c CONCEPT {} }",
];

pub fn gen_case(r: &mut Rng) -> Vec<String> {
    let mut ops = vec!["mode preserve".to_string(), format!("setup {}", r.below(4))];
    let n = 26 + r.usize(10);
    for _ in 0..n {
        let who = match r.below(10) { 0..=2 => "owner", 3..=6 => "writer", 7 => "reader", 8 => "stranger", _ => *r.pick(&["ghost", "anonymous"]) };
        ops.push(format!("as {who} {}", r.pick(&COMMANDS)));
    }
    ops
}
