//! Type-directed generators: `FieldType` grammar (depth ≤ 4), valid values (declared variant or a
//! read-back shape), arbitrary values for untyped positions, single mutations, boundary numerics.

use anda_db_schema::{FieldKey, FieldType, FieldValue, Json, bf16};
use std::collections::BTreeMap;
use vh_common::Rng;

pub const F64_EDGES: &[u64] = &[
    0x0000_0000_0000_0000, // 0.0
    0x8000_0000_0000_0000, // -0.0
    0x0000_0000_0000_0001, // min subnormal
    0x000f_ffff_ffff_ffff, // max subnormal
    0x7fef_ffff_ffff_ffff, // f64::MAX
    0x7ff0_0000_0000_0000, // inf
    0xfff0_0000_0000_0000, // -inf
    0x3ff8_0000_0000_0000, // 1.5
    0x4005_ae14_7ae1_47ae, // 2.71 (JSON read-back of 2.71f32)
    0x4005_ae14_8000_0000, // 2.71f32 widened
    0x3fb9_9999_9999_999a, // 0.1
    0x3fb9_9999_a000_0000, // 0.1f32 widened
    0x47ef_ffff_e000_0000, // f32::MAX widened
    0x47ef_ffff_f000_0000, // just beyond: rounds to f32 inf
    0x47f0_0000_0000_0000, // 2^128
    0x36a0_0000_0000_0000, // f32 min subnormal widened
    0x3690_0000_0000_0000, // half of it: narrows to 0 or min subnormal
    0x3680_0000_0000_0000, // below f32 range: narrows to 0
    0x4005_ae14_7ae1_47af, // 2.71 + 1ulp: no f32 read-back
    0x3ff0_0000_0000_0001, // 1 + 1ulp
    0x4340_0000_0000_0000, // 2^53
    0xc3e0_0000_0000_0000, // -2^63
];

pub const F32_EDGES: &[u32] = &[
    0x0000_0000, 0x8000_0000, 0x0000_0001, 0x007f_ffff, 0x0080_0000, 0x7f7f_ffff, 0x7f80_0000, 0xff80_0000,
    0x3fc0_0000, 0x402d_70a4, 0x3dcc_cccd, 0x3f80_0001, 0x4b80_0000, 0xdf00_0000,
    // decimal ties: `Display` and serde_json (ryu) print different shortest decimals
    0x4817_6fc8, 0x4715_a810,
];

pub const BF16_EDGES: &[u16] = &[0x0000, 0x8000, 0x0001, 0x007f, 0x0080, 0x7f7f, 0x7f80, 0xff80, 0x7fc0, 0x7f81, 0xffff, 0x3f80];

pub const I64_EDGES: &[i64] = &[0, 1, -1, i64::MIN, i64::MAX, i64::MIN + 1, 255, 256, 65535, 65536, -256];
pub const U64_EDGES: &[u64] = &[0, 1, u64::MAX, i64::MAX as u64, i64::MAX as u64 + 1, 255, 256, 65535, 65536, 1 << 53];

const TEXTS: &[&str] = &["", "a", "b", "*", "k1", "b64:AQID", "txt:x", "i64:-7", "é✓", "name", "0", " "];
const BYTESS: &[&[u8]] = &[b"", b"*", &[0, 255], b"ab", &[1, 2, 3]];

pub fn f64_bits(r: &mut Rng) -> u64 {
    if r.chance(2, 3) {
        *r.pick(F64_EDGES)
    } else {
        loop {
            let b = r.next_u64();
            if !f64::from_bits(b).is_nan() {
                return b;
            }
        }
    }
}

pub fn f32_bits(r: &mut Rng) -> u32 {
    if r.chance(2, 3) {
        *r.pick(F32_EDGES)
    } else {
        loop {
            let b = r.next_u64() as u32;
            if !f32::from_bits(b).is_nan() {
                return b;
            }
        }
    }
}

pub fn gen_i64(r: &mut Rng) -> i64 {
    match r.below(3) {
        0 => *r.pick(I64_EDGES),
        1 => r.range(-1000, 1000),
        _ => r.next_u64() as i64,
    }
}

pub fn gen_u64(r: &mut Rng) -> u64 {
    match r.below(3) {
        0 => *r.pick(U64_EDGES),
        1 => r.below(1000),
        _ => r.next_u64(),
    }
}

pub fn gen_text(r: &mut Rng) -> String {
    if r.chance(3, 4) {
        r.pick(TEXTS).to_string()
    } else {
        (0..r.below(6)).map(|_| (b'a' + r.below(26) as u8) as char).collect()
    }
}

pub fn gen_bytes(r: &mut Rng) -> Vec<u8> {
    if r.chance(1, 2) { r.pick(BYTESS).to_vec() } else { (0..r.below(6)).map(|_| r.below(256) as u8).collect() }
}

pub fn gen_vector(r: &mut Rng) -> Vec<bf16> {
    (0..r.below(5)).map(|_| bf16::from_bits(if r.chance(2, 3) { *r.pick(BF16_EDGES) } else { r.next_u64() as u16 })).collect()
}

/// `variant`: 0 text, 1 i64, 2 bytes
pub fn gen_key(r: &mut Rng, variant: u64) -> FieldKey {
    match variant {
        0 => FieldKey::Text(gen_text(r)),
        1 => FieldKey::I64(if r.chance(1, 2) { *r.pick(I64_EDGES) } else { r.range(-5, 5) }),
        _ => FieldKey::Bytes(gen_bytes(r)),
    }
}

pub fn wildcard(variant: u64) -> FieldKey {
    match variant {
        0 => FieldKey::Text("*".into()),
        1 => FieldKey::I64(i64::MIN),
        _ => FieldKey::Bytes(b"*".to_vec()),
    }
}

pub fn gen_scalar_type(r: &mut Rng) -> FieldType {
    match r.below(9) {
        0 => FieldType::Bool,
        1 => FieldType::I64,
        2 => FieldType::U64,
        3 => FieldType::F64,
        4 => FieldType::F32,
        5 => FieldType::Bytes,
        6 => FieldType::Text,
        7 => FieldType::Json,
        _ => FieldType::Vector,
    }
}

pub fn gen_type(r: &mut Rng, depth: u32) -> FieldType {
    if depth == 0 {
        return gen_scalar_type(r);
    }
    match r.below(100) {
        0..=29 => gen_scalar_type(r),
        30..=44 => FieldType::Option(Box::new(gen_type(r, depth - 1))),
        45..=59 => FieldType::Array(vec![gen_type(r, depth - 1)]),
        60..=69 => FieldType::Array((0..2 + r.below(2)).map(|_| gen_type(r, depth - 1)).collect()),
        70..=73 => FieldType::Array(vec![]),
        74..=83 => FieldType::Map(BTreeMap::from([(wildcard(r.below(3)), gen_type(r, depth - 1))])),
        84..=96 => {
            let n = 1 + r.below(4);
            let mixed = r.chance(1, 4);
            let variant = r.below(3);
            let mut m = BTreeMap::new();
            for _ in 0..n {
                let kv = if mixed { r.below(3) } else { variant };
                let k = gen_key(r, kv);
                m.insert(k, gen_type(r, depth - 1));
            }
            FieldType::Map(m)
        }
        _ => FieldType::Map(BTreeMap::new()),
    }
}

pub fn gen_json(r: &mut Rng, depth: u32) -> Json {
    let top = if depth == 0 { 6 } else { 8 };
    match r.below(top) {
        0 => Json::Null,
        1 => Json::Bool(r.chance(1, 2)),
        2 => Json::Number(gen_u64(r).into()),
        3 => Json::Number((-(r.below(1 << 62) as i64) - 1).into()),
        4 => {
            let f = f64::from_bits(f64_bits(r));
            serde_json::Number::from_f64(f).map(Json::Number).unwrap_or(Json::Null)
        }
        5 => Json::String(gen_text(r)),
        6 => Json::Array((0..r.below(4)).map(|_| gen_json(r, depth - 1)).collect()),
        _ => Json::Object((0..r.below(4)).map(|_| (gen_text(r), gen_json(r, depth - 1))).collect()),
    }
}

/// An arbitrary value (untyped positions, wrong-variant replacements).
pub fn gen_any(r: &mut Rng, depth: u32) -> FieldValue {
    let top = if depth == 0 { 10 } else { 12 };
    match r.below(top) {
        0 => FieldValue::Bool(r.chance(1, 2)),
        1 => FieldValue::I64(gen_i64(r)),
        2 => FieldValue::U64(gen_u64(r)),
        3 => FieldValue::F64(f64::from_bits(f64_bits(r))),
        4 => FieldValue::F32(f32::from_bits(f32_bits(r))),
        5 => FieldValue::Bytes(gen_bytes(r)),
        6 => FieldValue::Text(gen_text(r)),
        7 => FieldValue::Json(gen_json(r, depth.min(2))),
        8 => FieldValue::Vector(gen_vector(r)),
        9 => FieldValue::Null,
        10 => FieldValue::Array((0..r.below(4)).map(|_| gen_any(r, depth - 1)).collect()),
        _ => {
            let variant = r.below(3);
            let mixed = r.chance(1, 4);
            FieldValue::Map(
                (0..r.below(4))
                    .map(|_| {
                        let kv = if mixed { r.below(3) } else { variant };
                        (gen_key(r, kv), gen_any(r, depth - 1))
                    })
                    .collect(),
            )
        }
    }
}

fn key_variant(k: &FieldKey) -> u64 {
    match k {
        FieldKey::Text(_) => 0,
        FieldKey::I64(_) => 1,
        FieldKey::Bytes(_) => 2,
    }
}

pub fn is_wildcard(m: &BTreeMap<FieldKey, FieldType>) -> Option<(&FieldKey, &FieldType)> {
    if m.len() != 1 {
        return None;
    }
    let (k, t) = m.iter().next().unwrap();
    (0..3).any(|v| &wildcard(v) == k).then_some((k, t))
}

/// A value the declared type is meant to hold. `shapes` = probability (in 1/8) of choosing a
/// read-back shape (non-negative I64 as U64, F32 as its widened F64, Vector as array of bit
/// patterns, Json as its plain shape) instead of the declared variant at each position.
pub fn gen_valid(r: &mut Rng, ft: &FieldType, shapes: u64) -> FieldValue {
    match ft {
        FieldType::Bool => FieldValue::Bool(r.chance(1, 2)),
        FieldType::I64 => {
            let i = gen_i64(r);
            if i >= 0 && r.chance(shapes, 8) { FieldValue::U64(i as u64) } else { FieldValue::I64(i) }
        }
        FieldType::U64 => FieldValue::U64(gen_u64(r)),
        FieldType::F64 => FieldValue::F64(f64::from_bits(f64_bits(r))),
        FieldType::F32 => {
            let f = f32::from_bits(f32_bits(r));
            if r.chance(shapes, 8) {
                if r.chance(1, 3) && f.is_finite() {
                    // the JSON read-back of the f32: parse of its shortest decimal
                    FieldValue::F64(format!("{f}").parse::<f64>().unwrap())
                } else {
                    FieldValue::F64(f as f64)
                }
            } else {
                FieldValue::F32(f)
            }
        }
        FieldType::Bytes => FieldValue::Bytes(gen_bytes(r)),
        FieldType::Text => FieldValue::Text(gen_text(r)),
        FieldType::Json => {
            let j = gen_json(r, 2);
            if r.chance(shapes, 8) { json_shape(&j) } else { FieldValue::Json(j) }
        }
        FieldType::Vector => {
            let v = gen_vector(r);
            if r.chance(shapes, 8) { FieldValue::Array(v.iter().map(|x| FieldValue::U64(x.to_bits() as u64)).collect()) } else { FieldValue::Vector(v) }
        }
        FieldType::Array(ts) => match ts.len() {
            0 => FieldValue::Array((0..r.below(4)).map(|_| gen_any(r, 1)).collect()),
            1 => FieldValue::Array((0..r.below(4)).map(|_| gen_valid(r, &ts[0], shapes)).collect()),
            _ => FieldValue::Array(ts.iter().map(|t| gen_valid(r, t, shapes)).collect()),
        },
        FieldType::Map(m) => {
            if m.is_empty() {
                let v = r.below(3);
                return FieldValue::Map((0..r.below(4)).map(|_| (gen_key(r, v), gen_any(r, 1))).collect());
            }
            if let Some((w, t)) = is_wildcard(m) {
                let v = key_variant(w);
                return FieldValue::Map((0..r.below(4)).map(|_| (gen_key(r, v), gen_valid(r, t, shapes))).collect());
            }
            let mut out = BTreeMap::new();
            for (k, t) in m {
                // optional keys may be absent
                if matches!(t, FieldType::Option(_)) && r.chance(1, 3) {
                    continue;
                }
                out.insert(k.clone(), gen_valid(r, t, shapes));
            }
            FieldValue::Map(out)
        }
        FieldType::Option(t) => {
            if r.chance(1, 4) { FieldValue::Null } else { gen_valid(r, t, shapes) }
        }
    }
}

/// The plain (schema-less) shape of a JSON payload, as generic deserialization presents it.
pub fn json_shape(j: &Json) -> FieldValue {
    match j {
        Json::Null => FieldValue::Null,
        Json::Bool(b) => FieldValue::Bool(*b),
        Json::Number(n) => {
            if let Some(u) = n.as_u64() {
                FieldValue::U64(u)
            } else if let Some(i) = n.as_i64() {
                FieldValue::I64(i)
            } else {
                FieldValue::F64(n.as_f64().unwrap())
            }
        }
        Json::String(s) => FieldValue::Text(s.clone()),
        Json::Array(xs) => FieldValue::Array(xs.iter().map(json_shape).collect()),
        Json::Object(m) => FieldValue::Map(m.iter().map(|(k, v)| (FieldKey::Text(k.clone()), json_shape(v))).collect()),
    }
}

/// A value of a *different* kind than `ft` is meant to hold (may still be acceptable at untyped
/// positions; the oracle decides, not the generator).
fn wrong_for(r: &mut Rng, ft: &FieldType) -> FieldValue {
    match ft {
        FieldType::I64 => match r.below(4) {
            0 => FieldValue::U64(i64::MAX as u64 + 1 + r.below(3)),
            1 => FieldValue::F64(1.0),
            2 => FieldValue::Text("1".into()),
            _ => FieldValue::Null,
        },
        FieldType::U64 => match r.below(4) {
            0 => FieldValue::I64(-1 - r.below(3) as i64),
            1 => FieldValue::I64(r.below(5) as i64),
            2 => FieldValue::F64(2.0),
            _ => FieldValue::Null,
        },
        FieldType::F64 => match r.below(4) {
            0 => FieldValue::F64(f64::NAN),
            1 => FieldValue::F32(1.5),
            2 => FieldValue::U64(1),
            _ => FieldValue::Null,
        },
        FieldType::F32 => match r.below(6) {
            0 => FieldValue::F32(f32::NAN),
            1 => FieldValue::F64(f64::NAN),
            2 => FieldValue::F64(f64::from_bits(0x4005_ae14_7ae1_47af)),
            3 => FieldValue::F64(f64::from_bits(0x47ef_ffff_f000_0000)),
            4 => FieldValue::F64(1e300),
            _ => FieldValue::U64(1),
        },
        FieldType::Vector => match r.below(5) {
            0 => FieldValue::Array(vec![FieldValue::U64(1), FieldValue::U64(65536)]),
            1 => FieldValue::Array(vec![FieldValue::I64(1)]),
            2 => FieldValue::Array(vec![FieldValue::F32(1.0)]),
            3 => FieldValue::Bytes(vec![1, 2]),
            _ => FieldValue::Null,
        },
        FieldType::Bytes => match r.below(3) {
            0 => FieldValue::Array(vec![FieldValue::U64(1), FieldValue::U64(2)]),
            1 => FieldValue::Text("b64:AQID".into()),
            _ => FieldValue::Null,
        },
        FieldType::Text => match r.below(3) {
            0 => FieldValue::Bytes(b"abc".to_vec()),
            1 => FieldValue::U64(7),
            _ => FieldValue::Null,
        },
        FieldType::Bool => match r.below(3) {
            0 => FieldValue::U64(1),
            1 => FieldValue::Text("true".into()),
            _ => FieldValue::Null,
        },
        FieldType::Json => match r.below(4) {
            0 => FieldValue::Bytes(vec![1, 2, 3]),
            1 => FieldValue::Map(BTreeMap::from([(FieldKey::I64(1), FieldValue::U64(1))])),
            2 => FieldValue::Array(vec![FieldValue::F64(f64::NAN), FieldValue::Bytes(vec![1])]),
            _ => FieldValue::F64(f64::INFINITY),
        },
        FieldType::Array(_) => match r.below(3) {
            0 => FieldValue::Map(BTreeMap::new()),
            1 => FieldValue::Vector(vec![bf16::from_bits(1)]),
            _ => FieldValue::Null,
        },
        FieldType::Map(_) => match r.below(3) {
            0 => FieldValue::Array(vec![]),
            1 => FieldValue::Text("{}".into()),
            _ => FieldValue::Null,
        },
        FieldType::Option(t) => {
            let mut t: &FieldType = t;
            while let FieldType::Option(inner) = t {
                t = inner;
            }
            loop {
                let v = wrong_for(r, t);
                if v != FieldValue::Null {
                    return v;
                }
            }
        }
    }
}

/// One mutation at one random position of a (mostly) valid value.
pub fn mutate(r: &mut Rng, ft: &FieldType, v: &FieldValue) -> FieldValue {
    // descend with probability 2/3 where possible
    let descend = r.chance(2, 3);
    match (ft, v) {
        (FieldType::Option(t), v) if *v != FieldValue::Null => mutate(r, t, v),
        (FieldType::Array(ts), FieldValue::Array(vs)) if !ts.is_empty() => {
            let mut vs = vs.clone();
            if descend && !vs.is_empty() {
                let i = r.usize(vs.len());
                let t = if ts.len() == 1 { &ts[0] } else { &ts[i.min(ts.len() - 1)] };
                vs[i] = mutate(r, t, &vs[i]);
                return FieldValue::Array(vs);
            }
            if ts.len() >= 2 {
                // tuple arity
                if r.chance(1, 2) && !vs.is_empty() {
                    vs.pop();
                } else {
                    let extra = gen_valid(r, &ts[ts.len() - 1], 0);
                    vs.push(extra);
                }
                return FieldValue::Array(vs);
            }
            wrong_for(r, ft)
        }
        (FieldType::Map(m), FieldValue::Map(vals)) if !m.is_empty() => {
            let mut vals = vals.clone();
            if let Some((w, t)) = is_wildcard(m) {
                if descend && !vals.is_empty() {
                    let k = vals.keys().nth(r.usize(vals.len())).unwrap().clone();
                    let nv = mutate(r, t, &vals[&k]);
                    vals.insert(k, nv);
                    return FieldValue::Map(vals);
                }
                // key of another variant
                let other = (key_variant(w) + 1 + r.below(2)) % 3;
                vals.insert(gen_key(r, other), gen_valid(r, t, 0));
                return FieldValue::Map(vals);
            }
            if descend && !vals.is_empty() {
                let k = vals.keys().nth(r.usize(vals.len())).unwrap().clone();
                if let Some(t) = m.get(&k) {
                    let nv = mutate(r, t, &vals[&k]);
                    vals.insert(k, nv);
                    return FieldValue::Map(vals);
                }
            }
            match r.below(3) {
                0 => {
                    // drop a key (required → invalid, optional → still valid)
                    if let Some(k) = vals.keys().nth(r.usize(vals.len().max(1))).cloned() {
                        vals.remove(&k);
                    }
                }
                1 => {
                    // undeclared key
                    let kv = r.below(3);
                    let k = gen_key(r, kv);
                    let t = m.values().next().unwrap();
                    vals.entry(k).or_insert_with(|| gen_valid(r, t, 0));
                }
                _ => {
                    // explicit Null under a declared key
                    if let Some(k) = m.keys().nth(r.usize(m.len())).cloned() {
                        vals.insert(k, FieldValue::Null);
                    }
                }
            }
            FieldValue::Map(vals)
        }
        _ => wrong_for(r, ft),
    }
}

/// Values that sit on the complexity budget (depth 64/65, array 4096/4097, map 4096/4097,
/// nodes 16384/16385), as (type, value, over-budget?) with a type that accepts the shape.
pub fn budget_case(r: &mut Rng) -> (FieldType, FieldValue) {
    let over = r.chance(1, 2);
    match r.below(8) {
        6 => {
            // a Vector is one node when written and an array of its elements when read back
            let n = if over { 4097 } else { 4096 };
            let v = FieldValue::Vector((0..n).map(|i| bf16::from_bits(i as u16)).collect());
            if r.chance(1, 2) {
                (FieldType::Array(vec![]), FieldValue::Array(vec![v]))
            } else {
                (FieldType::Map(BTreeMap::new()), FieldValue::Map(BTreeMap::from([(FieldKey::Text("e".into()), v)])))
            }
        }
        7 => {
            // the same under a declared Vector type: folded back before validation
            let n = if over { 4097 } else { 4096 };
            (FieldType::Option(Box::new(FieldType::Vector)), FieldValue::Vector((0..n).map(|i| bf16::from_bits(i as u16)).collect()))
        }
        0 => {
            // nesting depth through arrays: leaf at depth d
            let d = if over { 65 } else { 64 };
            let mut v = FieldValue::U64(1);
            for _ in 0..d {
                v = FieldValue::Array(vec![v]);
            }
            (FieldType::Array(vec![]), v)
        }
        1 => {
            let d = if over { 65 } else { 64 };
            let mut v = FieldValue::Null;
            for _ in 0..d {
                v = FieldValue::Map(BTreeMap::from([(FieldKey::Text("k".into()), v)]));
            }
            (FieldType::Map(BTreeMap::new()), v)
        }
        2 => {
            let n = if over { 4097 } else { 4096 };
            (FieldType::Array(vec![FieldType::U64]), FieldValue::Array((0..n).map(FieldValue::U64).collect()))
        }
        3 => {
            let n = if over { 4097 } else { 4096 };
            (
                FieldType::Map(BTreeMap::from([(wildcard(1), FieldType::Bool)])),
                FieldValue::Map((0..n).map(|i| (FieldKey::I64(i), FieldValue::Bool(true))).collect()),
            )
        }
        4 => {
            // nodes: 1 + 4 * (1 + k) ... = exactly at the limit: outer array of 4 arrays
            // 1 + 4 + 4 * 4094 + extra = 16381 + extra
            let extra = if over { 4 } else { 3 };
            let mut outer: Vec<FieldValue> = (0..4).map(|_| FieldValue::Array((0..4094).map(FieldValue::U64).collect())).collect();
            if let FieldValue::Array(a) = &mut outer[0] {
                a.truncate(4094);
            }
            outer.push(FieldValue::Array((0..extra - 1).map(FieldValue::U64).collect()));
            (FieldType::Array(vec![FieldType::Array(vec![FieldType::U64])]), FieldValue::Array(outer))
        }
        _ => {
            // JSON payload depth: Json root is one level below its FieldValue node
            let d = if over { 64 } else { 63 };
            let mut j = Json::Null;
            for _ in 0..d {
                j = Json::Array(vec![j]);
            }
            (FieldType::Json, FieldValue::Json(j))
        }
    }
}
