//! Harness for property C13: "what validation accepts, storage returns unchanged; nothing invalid
//! gets in".
//!
//! A case is a list of op lines (see `wire.rs`); every line is self-contained. For each line the
//! harness (1) runs the real `anda_db_schema` code in-process, (2) asks the Lean model driver the
//! same line and diffs the answers (correspondence), (3) evaluates the property on the
//! implementation's answer with the independent oracle of `oracle.rs`.

mod docs;
mod r#gen;
mod oracle;
mod wire;

use anda_db_schema::{Document, DocumentOwned, FieldEntry, FieldType, FieldValue, FieldValueBudget, IndexedFieldValues, Schema};
use std::panic::{AssertUnwindSafe, catch_unwind};
use std::sync::Arc;
use vh_common::{Args, ModelProc, Report, Rng, read_corpus, read_replay, serde_json::json};
use wire::{Toks, parse_type, parse_value, show_type, show_value};

// ------------------------------------------------------------------------------------ findings

#[derive(Clone, Debug)]
struct Finding {
    oracle: bool, // false = model/impl disagreement
    key: String,
    what: String,
    expected: String,
    observed: String,
}

struct Eval {
    impl_out: String,
    findings: Vec<Finding>,
    nontrivial: bool,
    hits: Vec<String>,
}

fn schema_for(ft: &FieldType) -> Arc<Schema> {
    let mut b = Schema::builder();
    b.add_field(FieldEntry::new("v".into(), ft.clone()).expect("field entry")).expect("add field");
    Arc::new(b.build().expect("schema"))
}

/// The JSON-clause hint for the model: bit patterns of every F64 in `v` for which the second
/// clause of `is_f32_read_back` holds (computed by the harness's own reimplementation).
fn hint_of(v: &FieldValue) -> String {
    fn walk(v: &FieldValue, out: &mut Vec<u64>) {
        match v {
            FieldValue::F64(f) => {
                if oracle::json_clause(*f) && !out.contains(&f.to_bits()) {
                    out.push(f.to_bits());
                }
            }
            FieldValue::Array(xs) => xs.iter().for_each(|x| walk(x, out)),
            FieldValue::Map(m) => m.values().for_each(|x| walk(x, out)),
            _ => {}
        }
    }
    let mut out = Vec::new();
    walk(v, &mut out);
    if out.is_empty() { "-".into() } else { out.iter().map(|b| format!("{b:016x}")).collect::<Vec<_>>().join(",") }
}

pub fn line(op: &str, ft: &FieldType, v: &FieldValue) -> String {
    format!("{op} {} {} {}", hint_of(v), show_type(ft), show_value(v))
}

/// encode → decode → `try_from_doc`, the storage read path of one field.
fn load(ft: &FieldType, v: &FieldValue) -> Result<FieldValue, &'static str> {
    let schema = schema_for(ft);
    let mut fields = IndexedFieldValues::new();
    fields.insert(0, FieldValue::U64(1));
    fields.insert(1, v.clone());
    let owned = DocumentOwned { fields };
    let mut buf = Vec::new();
    cbor2::to_writer(&owned, &mut buf).map_err(|_| "err:ser")?;
    let back: DocumentOwned = cbor2::from_reader(&buf[..]).map_err(|_| "err:de")?;
    let doc = Document::try_from_doc(schema, back).map_err(|_| "err:read")?;
    doc.get_field("v").cloned().ok_or("err:read")
}

fn set(ft: &FieldType, v: &FieldValue) -> Option<FieldValue> {
    let mut doc = Document::new(schema_for(ft));
    doc.set_id(1);
    match doc.set_field("v", v.clone()) {
        Ok(_) => doc.get_field("v").cloned(),
        Err(_) => None,
    }
}

fn show_load(r: &Result<FieldValue, &'static str>) -> String {
    match r {
        Ok(v) => format!("ok {}", show_value(v)),
        Err(e) => e.to_string(),
    }
}

fn eval_line_inner(l: &str) -> Option<Eval> {
    let mut ts = Toks::new(l);
    let op = ts.next()?;
    let _hint = ts.next()?;
    let mut ev = Eval { impl_out: String::new(), findings: vec![], nontrivial: false, hits: vec![format!("op:{op}")] };
    let mut fail = |key: String, what: &str, expected: String, observed: String| {
        ev.findings.push(Finding { oracle: true, key, what: what.into(), expected, observed });
    };
    if op == "cx" {
        let b = oracle::Budget { depth: ts.next()?.parse().ok()?, nodes: ts.next()?.parse().ok()?, array: ts.next()?.parse().ok()?, map: ts.next()?.parse().ok()? };
        let v = parse_value(&mut ts)?;
        if !ts.done() {
            return None;
        }
        let got = v
            .validate_complexity_with(FieldValueBudget { max_depth: b.depth, max_nodes: b.nodes, max_array_len: b.array, max_map_entries: b.map })
            .is_ok();
        let want = oracle::within_budget(&v, b);
        if got && !want {
            fail("budget-accepts-over".into(), "validate_complexity_with accepted a value over the budget", "err".into(), "ok".into());
        }
        if !got && want {
            fail("budget-rejects-within".into(), "validate_complexity_with rejected a value within the budget", "ok".into(), "err".into());
        }
        ev.hits.push(if got { "cx:ok" } else { "cx:err" }.into());
        ev.nontrivial = got;
        ev.impl_out = if got { "ok" } else { "err" }.into();
        return Some(ev);
    }
    let ft = parse_type(&mut ts)?;
    let v = parse_value(&mut ts)?;
    if !ts.done() {
        return None;
    }
    match op {
        "val" => {
            let got = ft.validate(&v).is_ok();
            let want = oracle::conforms(&ft, &v, false).and_then(|_| if oracle::within_budget(&v, oracle::DEFAULT_BUDGET) { Ok(()) } else { Err("budget".to_string()) });
            if got && let Err(why) = &want {
                fail(format!("validate-accepts-invalid:{why}"), "FieldType::validate accepted a value that violates its declared type", format!("err ({why})"), "ok".into());
            }
            if !got && want.is_ok() {
                ev.hits.push("note:valid-rejected".into());
            }
            ev.hits.push(if got { "val:ok" } else { "val:err" }.into());
            ev.nontrivial = got;
            ev.impl_out = if got { "ok" } else { "err" }.into();
        }
        "norm" => {
            let mut w = v.clone();
            ft.normalize(&mut w);
            // normalisation never changes the data, and never makes a conforming value non-conforming
            if oracle::conforms(&ft, &v, false).is_ok() {
                if let Err(why) = oracle::conforms(&ft, &w, false) {
                    fail(format!("normalize-breaks-valid:{why}"), "normalize turned a conforming value into a non-conforming one", "conforming".into(), show_value(&w));
                }
                if !oracle::same_data(&ft, &v, &w) {
                    fail("normalize-changes-data".into(), "normalize changed the data of a conforming value", show_value(&v), show_value(&w));
                }
            }
            ev.nontrivial = !oracle::same_bits(&v, &w);
            ev.hits.push(if ev.nontrivial { "norm:changed" } else { "norm:same" }.into());
            ev.impl_out = show_value(&w);
        }
        "prune" => {
            let mut w = v.clone();
            ft.prune_undeclared(&mut w);
            if oracle::conforms(&ft, &v, false).is_ok() && !oracle::same_bits(&v, &w) {
                fail("prune-changes-valid".into(), "prune_undeclared changed a conforming value", show_value(&v), show_value(&w));
            }
            ev.nontrivial = !oracle::same_bits(&v, &w);
            ev.hits.push(if ev.nontrivial { "prune:changed" } else { "prune:same" }.into());
            ev.impl_out = show_value(&w);
        }
        "rt" => match set(&ft, &v) {
            None => {
                ev.hits.push("rt:rejected".into());
                ev.impl_out = "err".into();
            }
            Some(stored) => {
                // nothing invalid gets in
                if let Err(why) = oracle::field_conforms(&ft, &stored, false) {
                    fail(format!("set-accepts-invalid:{why}"), "Document::set_field accepted a value that violates its declared type", format!("err ({why})"), format!("ok {}", show_value(&stored)));
                } else if let Err(why) = oracle::field_conforms(&ft, &stored, true) {
                    fail(
                        // one root cause has its own stable key: `(FieldType::Json, _) => Ok(())`
                        if why.ends_with("@Json") { "json-field-holds-non-json".to_string() } else { format!("stored-not-declared-variant:{why}") },
                        "Document::set_field stored a value that is not in the schema's declared variant",
                        "the declared variant".into(),
                        show_value(&stored),
                    );
                }
                if oracle::field_conforms(&ft, &v, false).is_ok() && !oracle::same_data(&ft, &v, &stored) {
                    fail("set-changes-data".into(), "the stored value is not the written value", show_value(&v), show_value(&stored));
                }
                let r = load(&ft, &stored);
                match &r {
                    Ok(read) => {
                        if !oracle::same_declared(&ft, &stored, read) {
                            fail("read-differs".into(), "the value read back from the stored form differs from the written one", show_value(&stored), show_value(read));
                        }
                        if let Err(why) = oracle::field_conforms(&ft, read, false) {
                            fail(format!("read-invalid:{why}"), "the value read back is not valid for its type", "valid".into(), show_value(read));
                        }
                        ev.nontrivial = true;
                        ev.hits.push("rt:roundtrip".into());
                    }
                    Err("err:ser") => {
                        // refused loudly at encoding time: the document never reaches storage
                        ev.hits.push("rt:unserializable".into());
                    }
                    Err(e) => {
                        // the recorded finding F2 keeps its narrow key; anything else is a new violation
                        let key = if *e == "err:read" && oracle::vector_outgrows_budget(&ft, &stored) {
                            "accepted-then-unreadable:err:read".to_string()
                        } else {
                            format!("accepted-then-unreadable-other:{e}")
                        };
                        fail(key, "accepted on write but rejected on read", "ok".into(), e.to_string());
                    }
                }
                ev.impl_out = format!("ok {} | {}", show_value(&stored), show_load(&r));
            }
        },
        "load" => {
            let r = load(&ft, &v);
            if let Ok(read) = &r {
                if let Err(why) = oracle::field_conforms(&ft, read, false) {
                    fail(format!("read-accepts-invalid:{why}"), "try_from_doc produced a value that violates its declared type", format!("err ({why})"), show_value(read));
                }
                ev.nontrivial = true;
            }
            ev.hits.push(format!("load:{}", if r.is_ok() { "ok" } else { r.as_ref().unwrap_err() }));
            ev.impl_out = show_load(&r);
        }
        _ => return None,
    }
    Some(ev)
}

fn eval_line(l: &str) -> Eval {
    match catch_unwind(AssertUnwindSafe(|| eval_line_inner(l))) {
        Ok(Some(ev)) => ev,
        Ok(None) => Eval { impl_out: "bad-op".into(), findings: vec![], nontrivial: false, hits: vec!["bad-op".into()] },
        Err(_) => Eval {
            impl_out: "panic".into(),
            findings: vec![Finding { oracle: true, key: "panic".into(), what: "the code under test panicked".into(), expected: "no panic".into(), observed: "panic".into() }],
            nontrivial: false,
            hits: vec!["panic".into()],
        },
    }
}

/// All findings of one line (oracle + correspondence).
fn check_line(l: &str, model: &mut Option<ModelProc>) -> (Eval, Option<String>) {
    let mut ev = eval_line(l);
    let mut model_out = None;
    if let Some(m) = model.as_mut() {
        let out = m.ask(l);
        if out != ev.impl_out {
            ev.findings.push(Finding {
                oracle: false,
                key: format!("disagree:{}", l.split(' ').next().unwrap_or("")),
                what: "Lean model and implementation differ".into(),
                expected: out.clone(),
                observed: ev.impl_out.clone(),
            });
        }
        model_out = Some(out);
    }
    (ev, model_out)
}

// ------------------------------------------------------------------------------------ shrinking

/// Structurally smaller (type, value) pairs.
fn shrink_candidates(ft: &FieldType, v: &FieldValue) -> Vec<(FieldType, FieldValue)> {
    let mut out = Vec::new();
    match (ft, v) {
        (FieldType::Option(t), v) if *v != FieldValue::Null => out.push(((**t).clone(), v.clone())),
        (FieldType::Array(ts), FieldValue::Array(vs)) => {
            if ts.len() == 1 {
                for x in vs {
                    out.push((ts[0].clone(), x.clone()));
                }
                for i in 0..vs.len() {
                    let mut w = vs.clone();
                    w.remove(i);
                    out.push((ft.clone(), FieldValue::Array(w)));
                }
            } else if ts.len() >= 2 {
                for (t, x) in ts.iter().zip(vs) {
                    out.push((t.clone(), x.clone()));
                }
            } else {
                for i in 0..vs.len() {
                    let mut w = vs.clone();
                    w.remove(i);
                    out.push((ft.clone(), FieldValue::Array(w)));
                }
            }
            for (i, x) in vs.iter().enumerate() {
                let t = if ts.len() == 1 { ts.first() } else { ts.get(i) };
                if let Some(t) = t {
                    for (t2, x2) in shrink_candidates(t, x) {
                        let mut nts = ts.clone();
                        let mut w = vs.clone();
                        if ts.len() == 1 && vs.len() > 1 {
                            continue;
                        }
                        let ti = if ts.len() == 1 { 0 } else { i };
                        nts[ti] = t2;
                        w[i] = x2;
                        out.push((FieldType::Array(nts), FieldValue::Array(w)));
                    }
                }
            }
        }
        (FieldType::Map(m), FieldValue::Map(vals)) => {
            let w = r#gen::is_wildcard(m);
            for (k, x) in vals {
                if let Some(t) = w.map(|(_, t)| t).or_else(|| m.get(k)) {
                    out.push((t.clone(), x.clone()));
                }
                let mut nv = vals.clone();
                nv.remove(k);
                out.push((ft.clone(), FieldValue::Map(nv)));
            }
            if w.is_none() {
                for k in m.keys() {
                    if m.len() > 1 {
                        let mut nm = m.clone();
                        nm.remove(k);
                        let mut nv = vals.clone();
                        nv.remove(k);
                        out.push((FieldType::Map(nm), FieldValue::Map(nv)));
                    }
                }
            }
        }
        _ => {}
    }
    out
}

fn shrink_line(l: &str, f: &Finding, model: &mut Option<ModelProc>) -> String {
    let mut ts = Toks::new(l);
    let (Some(op), Some(_)) = (ts.next(), ts.next()) else { return l.to_string() };
    if op == "cx" {
        return l.to_string();
    }
    let (Some(mut ft), Some(mut v)) = (parse_type(&mut ts), parse_value(&mut ts)) else { return l.to_string() };
    let mut runs = 0;
    'outer: loop {
        for (t2, v2) in shrink_candidates(&ft, &v) {
            runs += 1;
            if runs > 400 {
                break 'outer;
            }
            let cand = line(op, &t2, &v2);
            let (ev, _) = check_line(&cand, model);
            if ev.findings.iter().any(|g| g.oracle == f.oracle && g.key == f.key) {
                ft = t2;
                v = v2;
                continue 'outer;
            }
        }
        break;
    }
    line(op, &ft, &v)
}

// ----------------------------------------------------------------------------------- generation

fn gen_case(seed: u64, i: u64) -> Vec<String> {
    let mut r = Rng::for_case(seed, i);
    let r = &mut r;
    let mut ops = Vec::new();
    if i % 97 == 13 {
        let (ft, v) = r#gen::budget_case(r);
        ops.push(line("val", &ft, &v));
        ops.push(line("rt", &ft, &v));
        return ops;
    }
    let depth = 1 + r.below(4) as u32;
    let ft = r#gen::gen_type(r, depth);
    let shapes = *r.pick(&[0u64, 0, 2, 8]);
    let valid = r#gen::gen_valid(r, &ft, shapes);
    let v = match r.below(10) {
        0..=4 => valid,
        5..=8 => r#gen::mutate(r, &ft, &valid),
        _ => r#gen::gen_any(r, 2),
    };
    ops.push(line("val", &ft, &v));
    ops.push(line("norm", &ft, &v));
    ops.push(line("rt", &ft, &v));
    ops.push(line("load", &ft, &v));
    if r.chance(1, 2) {
        ops.push(line("prune", &ft, &v));
    }
    if r.chance(1, 3) {
        // the complexity pass alone, against a small random budget
        let w = if r.chance(1, 2) { v.clone() } else { r#gen::gen_any(r, 3) };
        ops.push(format!("cx - {} {} {} {} {}", r.below(4), 1 + r.below(12), r.below(5), r.below(5), show_value(&w)));
    }
    ops
}

// ----------------------------------------------------------------------------------------- main

fn run_case(name: &str, ops: &[String], model: &mut Option<ModelProc>, rep: &mut Report, reported: &mut std::collections::BTreeSet<String>) {
    for l in ops {
        let (ev, model_out) = check_line(l, model);
        if model_out.is_some() {
            rep.model_compared += 1;
        }
        rep.case(&format!("{l} => {}", ev.impl_out), ev.nontrivial);
        for h in &ev.hits {
            rep.hit(h);
        }
        if ev.impl_out == "bad-op" {
            rep.notes.push(format!("unparsable op in {name}: {l}"));
        }
        rep.sample(json!({"case": name, "op": l, "impl": ev.impl_out, "model": model_out}));
        let mut seen = std::collections::BTreeSet::new();
        for f in &ev.findings {
            if !seen.insert((f.oracle, f.key.clone())) {
                continue;
            }
            // one minimised replay per failing call shape; further hits are only counted
            rep.hit(&format!("{}:{}", if f.oracle { "oracle" } else { "model" }, f.key));
            if !reported.insert(format!("{}{}", f.oracle, f.key)) {
                continue;
            }
            let small = shrink_line(l, f, model);
            let (ev2, _) = check_line(&small, model);
            let g = ev2.findings.iter().find(|g| g.oracle == f.oracle && g.key == f.key).unwrap_or(f);
            if f.oracle {
                rep.oracle_failure(&g.key, &g.what, &[small.clone()], &g.expected, &g.observed);
            } else {
                rep.disagreement(&g.what, &[small.clone()], &g.expected, &g.observed);
            }
        }
    }
}

fn main() {
    let args = Args::parse();
    // the code under test reports errors as values; keep panics of the harness visible but quiet
    std::panic::set_hook(Box::new(|_| {}));
    let mut rep = Report::new(
        "C13",
        &args,
        "an op counts as non-trivial when the implementation took a non-error branch that returns a value: \
         validate/complexity accepted, normalize/prune changed the value, set_field accepted and the stored \
         form was read back, or try_from_doc produced a document; distinctness is by canonical op text + answer",
    );
    rep.max_samples = 8;
    let mut model = ModelProc::from_args(&args);
    let mut reported = std::collections::BTreeSet::new();

    if let Some(p) = &args.replay {
        let ops = read_replay(p);
        run_case("replay", &ops, &mut model, &mut rep, &mut reported);
        rep.write(&args);
        return;
    }
    if let Some(dir) = &args.corpus {
        for (name, ops) in read_corpus(dir) {
            rep.hit("corpus-file");
            run_case(&name, &ops, &mut model, &mut rep, &mut reported);
        }
    }
    let n = args.budget(6_000, 400_000);
    for i in 0..n {
        let ops = gen_case(args.seed, i);
        run_case(&format!("seed{}-case{}", args.seed, i), &ops, &mut model, &mut rep, &mut reported);
        if rep.oracle_failures.len() >= 20 && rep.disagreements.len() >= 20 {
            break;
        }
    }
    float_laws(&args, &mut rep);
    rep.write(&args);
}

/// The IEEE facts the Lean theorems take as hypotheses (`FloatModel.Lawful`), measured on real
/// floats: never proved, reported as measured.
fn float_laws(args: &Args, rep: &mut Report) {
    let mut r = Rng::new(args.seed ^ 0xF10A7);
    let n = args.budget(200_000, 5_000_000);
    let (mut bad, mut checked) = (0u64, 0u64);
    for i in 0..n {
        let x = if (i as usize) < r#gen::F32_EDGES.len() { r#gen::F32_EDGES[i as usize] } else { r.next_u64() as u32 };
        let f = f32::from_bits(x);
        if f.is_nan() {
            continue;
        }
        checked += 1;
        let w = f as f64;
        // widen_not_nan, narrow_widen, read-back of a widening, inf/finite consistency
        let ok = !w.is_nan() && (w as f32).to_bits() == x && oracle::f32_read_back(w) && !(f.is_infinite() && w.is_finite());
        if !ok {
            bad += 1;
        }
    }
    for i in 0..n {
        let d = if (i as usize) < r#gen::F64_EDGES.len() { r#gen::F64_EDGES[i as usize] } else { r.next_u64() };
        let v = f64::from_bits(d);
        if v.is_nan() {
            continue;
        }
        checked += 1;
        // narrow_not_nan; a read-back shape narrows to a value that widens / prints back to it
        let f = v as f32;
        let mut ok = !f.is_nan();
        if oracle::f32_read_back(v) {
            ok &= (f as f64) == v || oracle::json_clause(v);
            ok &= !(f.is_infinite() && v.is_finite());
        }
        if !ok {
            bad += 1;
        }
    }
    rep.measured.insert("float_laws_checked".into(), json!(checked));
    rep.measured.insert("float_laws_violated".into(), json!(bad));
    if bad > 0 {
        rep.notes.push(format!("{bad} sampled floats violate a FloatModel law the theorems assume"));
    }
}
