//! Harness for property C13: "what validation accepts, storage returns unchanged; nothing invalid
//! gets in".
//!
//! A case is a list of op lines (see `wire.rs`); every line is self-contained. For each line the
//! harness (1) runs the real `anda_db_schema` code in-process, (2) asks the Lean model driver the
//! same line and diffs the answers (correspondence), (3) evaluates the property on the
//! implementation's answer with the independent oracle of `oracle.rs`.

mod docs;
mod r#gen;
mod oracle;
mod typed;
mod wire;

use anda_db_schema::{Document, DocumentOwned, FieldEntry, FieldType, FieldValue, FieldValueBudget, IndexedFieldValues, Schema};
use std::panic::{AssertUnwindSafe, catch_unwind};
use std::sync::Arc;
use vh_common::{Args, ModelProc, Report, Rng, read_corpus, read_replay, serde_json::json};
use wire::{Toks, parse_type, parse_value, show_type, show_value};

// ------------------------------------------------------------------------------------ findings

#[derive(Clone, Debug)]
struct Finding {
    oracle: bool, // false = model/impl disagreement
    key: String,
    what: String,
    expected: String,
    observed: String,
}

struct Eval {
    impl_out: String,
    findings: Vec<Finding>,
    nontrivial: bool,
    hits: Vec<String>,
}

fn schema_for(ft: &FieldType) -> Arc<Schema> {
    let mut b = Schema::builder();
    b.add_field(FieldEntry::new("v".into(), ft.clone()).expect("field entry")).expect("add field");
    Arc::new(b.build().expect("schema"))
}

/// The JSON-clause hint for the model: bit patterns of every F64 in `v` for which the second
/// clause of `is_f32_read_back` holds (computed by the harness's own reimplementation).
fn hint_of(v: &FieldValue) -> String {
    fn walk(v: &FieldValue, out: &mut Vec<u64>) {
        match v {
            FieldValue::F64(f) => {
                if oracle::json_clause(*f) && !out.contains(&f.to_bits()) {
                    out.push(f.to_bits());
                }
            }
            FieldValue::Array(xs) => xs.iter().for_each(|x| walk(x, out)),
            FieldValue::Map(m) => m.values().for_each(|x| walk(x, out)),
            // a JSON number becomes an F64 once the stored form is read back without a schema
            FieldValue::Json(j) => walk_json(j, out),
            _ => {}
        }
    }
    fn walk_json(j: &anda_db_schema::Json, out: &mut Vec<u64>) {
        match j {
            anda_db_schema::Json::Number(n) if n.is_f64() => {
                let f = n.as_f64().unwrap();
                if oracle::json_clause(f) && !out.contains(&f.to_bits()) {
                    out.push(f.to_bits());
                }
            }
            anda_db_schema::Json::Array(xs) => xs.iter().for_each(|x| walk_json(x, out)),
            anda_db_schema::Json::Object(m) => m.values().for_each(|x| walk_json(x, out)),
            _ => {}
        }
    }
    let mut out = Vec::new();
    walk(v, &mut out);
    if out.is_empty() { "-".into() } else { out.iter().map(|b| format!("{b:016x}")).collect::<Vec<_>>().join(",") }
}

/// serde_json's own rendering of an f32, parsed back as f64 (what a JSON client sees)
fn json_widen(f: f32) -> f64 {
    serde_json::to_string(&f).unwrap().parse::<f64>().unwrap()
}

/// Hint for the JSON ops: additionally `f32 bits > f64 bits` for every f32 that can occur (leaves,
/// and the narrowing of every f64 leaf, which `normalize` may turn into an f32), and the JSON-clause
/// items for those read-back values.
fn hint_json(v: &FieldValue) -> String {
    fn walk(v: &FieldValue, f32s: &mut Vec<f32>, f64s: &mut Vec<f64>) {
        match v {
            FieldValue::F32(x) => f32s.push(*x),
            FieldValue::F64(d) => {
                f64s.push(*d);
                f32s.push(*d as f32);
            }
            FieldValue::Array(xs) => xs.iter().for_each(|x| walk(x, f32s, f64s)),
            FieldValue::Map(m) => m.values().for_each(|x| walk(x, f32s, f64s)),
            FieldValue::Json(j) => walk_json(j, f64s),
            _ => {}
        }
    }
    fn walk_json(j: &anda_db_schema::Json, f64s: &mut Vec<f64>) {
        match j {
            anda_db_schema::Json::Number(n) if n.is_f64() => f64s.push(n.as_f64().unwrap()),
            anda_db_schema::Json::Array(xs) => xs.iter().for_each(|x| walk_json(x, f64s)),
            anda_db_schema::Json::Object(m) => m.values().for_each(|x| walk_json(x, f64s)),
            _ => {}
        }
    }
    let (mut f32s, mut f64s) = (Vec::new(), Vec::new());
    walk(v, &mut f32s, &mut f64s);
    let mut items: Vec<String> = Vec::new();
    for x in f32s {
        if x.is_finite() {
            let w = json_widen(x);
            f64s.push(w);
            let it = format!("{:08x}>{:016x}", x.to_bits(), w.to_bits());
            if !items.contains(&it) {
                items.push(it);
            }
        }
    }
    for d in f64s {
        let it = format!("{:016x}", d.to_bits());
        if oracle::json_clause(d) && !items.contains(&it) {
            items.push(it);
        }
    }
    if items.is_empty() { "-".into() } else { items.join(",") }
}

pub fn line(op: &str, ft: &FieldType, v: &FieldValue) -> String {
    let hint = if op.starts_with('j') { hint_json(v) } else { hint_of(v) };
    format!("{op} {hint} {} {}", show_type(ft), show_value(v))
}

/// JSON text of the stored document → parse → `try_from_doc` (the human-readable serde branch).
fn jload(ft: &FieldType, v: &FieldValue) -> Result<FieldValue, &'static str> {
    let schema = schema_for(ft);
    let mut fields = IndexedFieldValues::new();
    fields.insert(0, FieldValue::U64(1));
    fields.insert(1, v.clone());
    let text = serde_json::to_string(&DocumentOwned { fields }).map_err(|_| "err:ser")?;
    let back: DocumentOwned = serde_json::from_str(&text).map_err(|_| "err:de")?;
    let doc = Document::try_from_doc(schema, back).map_err(|_| "err:read")?;
    doc.get_field("v").cloned().ok_or("err:read")
}

/// The two measured limits of the JSON rendering (not the storage form): a non-finite float is
/// written as `null`, and serde_json's rendering of an f32 on a decimal tie is not a read-back
/// shape `is_f32_read_back` accepts (see notes/C13.md).
fn json_known_limit(v: &FieldValue) -> Option<&'static str> {
    match v {
        FieldValue::F64(d) if !d.is_finite() => Some("json:non-finite-float"),
        FieldValue::F32(x) if !x.is_finite() => Some("json:non-finite-float"),
        FieldValue::F32(x) if FieldType::F32.validate(&FieldValue::F64(json_widen(*x))).is_err() => Some("json:f32-decimal-tie"),
        FieldValue::Array(xs) => xs.iter().find_map(json_known_limit),
        FieldValue::Map(m) => m.values().find_map(json_known_limit),
        _ => None,
    }
}

/// encode → decode → `try_from_doc`, the storage read path of one field.
fn load(ft: &FieldType, v: &FieldValue) -> Result<FieldValue, &'static str> {
    let schema = schema_for(ft);
    let mut fields = IndexedFieldValues::new();
    fields.insert(0, FieldValue::U64(1));
    fields.insert(1, v.clone());
    let owned = DocumentOwned { fields };
    let mut buf = Vec::new();
    cbor2::to_writer(&owned, &mut buf).map_err(|_| "err:ser")?;
    let back: DocumentOwned = cbor2::from_reader(&buf[..]).map_err(|_| "err:de")?;
    let doc = Document::try_from_doc(schema, back).map_err(|_| "err:read")?;
    doc.get_field("v").cloned().ok_or("err:read")
}

fn set(ft: &FieldType, v: &FieldValue) -> Option<FieldValue> {
    let mut doc = Document::new(schema_for(ft));
    doc.set_id(1);
    match doc.set_field("v", v.clone()) {
        Ok(_) => doc.get_field("v").cloned(),
        Err(_) => None,
    }
}

fn show_load(r: &Result<FieldValue, &'static str>) -> String {
    match r {
        Ok(v) => format!("ok {}", show_value(v)),
        Err(e) => e.to_string(),
    }
}

fn eval_line_inner(l: &str) -> Option<Eval> {
    let mut ts = Toks::new(l);
    let op = ts.next()?;
    let _hint = ts.next()?;
    let mut ev = Eval { impl_out: String::new(), findings: vec![], nontrivial: false, hits: vec![format!("op:{op}")] };
    let mut fail = |key: String, what: &str, expected: String, observed: String| {
        ev.findings.push(Finding { oracle: true, key, what: what.into(), expected, observed });
    };
    if op == "cx" {
        let b = oracle::Budget { depth: ts.next()?.parse().ok()?, nodes: ts.next()?.parse().ok()?, array: ts.next()?.parse().ok()?, map: ts.next()?.parse().ok()? };
        let v = parse_value(&mut ts)?;
        if !ts.done() {
            return None;
        }
        let got = v
            .validate_complexity_with(FieldValueBudget { max_depth: b.depth, max_nodes: b.nodes, max_array_len: b.array, max_map_entries: b.map })
            .is_ok();
        let want = oracle::within_budget(&v, b);
        if got && !want {
            fail("budget-accepts-over".into(), "validate_complexity_with accepted a value over the budget", "err".into(), "ok".into());
        }
        if !got && want {
            fail("budget-rejects-within".into(), "validate_complexity_with rejected a value within the budget", "ok".into(), "err".into());
        }
        ev.hits.push(if got { "cx:ok" } else { "cx:err" }.into());
        ev.nontrivial = got;
        ev.impl_out = if got { "ok" } else { "err" }.into();
        return Some(ev);
    }
    let ft = parse_type(&mut ts)?;
    let v = parse_value(&mut ts)?;
    if !ts.done() {
        return None;
    }
    match op {
        "val" => {
            let got = ft.validate(&v).is_ok();
            let want = oracle::conforms(&ft, &v, false).and_then(|_| if oracle::within_budget(&v, oracle::DEFAULT_BUDGET) { Ok(()) } else { Err("budget".to_string()) });
            if got && let Err(why) = &want {
                fail(format!("validate-accepts-invalid:{why}"), "FieldType::validate accepted a value that violates its declared type", format!("err ({why})"), "ok".into());
            }
            if !got && want.is_ok() {
                // `validate_iff`: nothing valid is refused
                fail("validate-refuses-valid".into(), "FieldType::validate refused a value that conforms to its declared type and budget", "ok".into(), "err".into());
            }
            ev.hits.push(if got { "val:ok" } else { "val:err" }.into());
            ev.nontrivial = got;
            ev.impl_out = if got { "ok" } else { "err" }.into();
        }
        "norm" => {
            let mut w = v.clone();
            ft.normalize(&mut w);
            // normalisation never changes the data, and never makes a conforming value non-conforming
            if oracle::conforms(&ft, &v, false).is_ok() {
                if let Err(why) = oracle::conforms(&ft, &w, false) {
                    fail(format!("normalize-breaks-valid:{why}"), "normalize turned a conforming value into a non-conforming one", "conforming".into(), show_value(&w));
                }
                if !oracle::same_data(&ft, &v, &w) {
                    fail("normalize-changes-data".into(), "normalize changed the data of a conforming value", show_value(&v), show_value(&w));
                }
            }
            ev.nontrivial = !oracle::same_bits(&v, &w);
            ev.hits.push(if ev.nontrivial { "norm:changed" } else { "norm:same" }.into());
            ev.impl_out = show_value(&w);
        }
        "prune" => {
            let mut w = v.clone();
            ft.prune_undeclared(&mut w);
            if oracle::conforms(&ft, &v, false).is_ok() && !oracle::same_bits(&v, &w) {
                fail("prune-changes-valid".into(), "prune_undeclared changed a conforming value", show_value(&v), show_value(&w));
            }
            ev.nontrivial = !oracle::same_bits(&v, &w);
            ev.hits.push(if ev.nontrivial { "prune:changed" } else { "prune:same" }.into());
            ev.impl_out = show_value(&w);
        }
        "rt" => match set(&ft, &v) {
            None => {
                ev.hits.push("rt:rejected".into());
                ev.impl_out = "err".into();
            }
            Some(stored) => {
                // nothing invalid gets in
                if let Err(why) = oracle::field_conforms(&ft, &stored, false) {
                    fail(format!("set-accepts-invalid:{why}"), "Document::set_field accepted a value that violates its declared type", format!("err ({why})"), format!("ok {}", show_value(&stored)));
                } else if let Err(why) = oracle::field_conforms(&ft, &stored, true) {
                    fail(
                        // one root cause has its own stable key: `(FieldType::Json, _) => Ok(())`
                        if why.ends_with("@Json") { "json-field-holds-non-json".to_string() } else { format!("stored-not-declared-variant:{why}") },
                        "Document::set_field stored a value that is not in the schema's declared variant",
                        "the declared variant".into(),
                        show_value(&stored),
                    );
                }
                if oracle::field_conforms(&ft, &v, false).is_ok() && !oracle::same_data(&ft, &v, &stored) {
                    fail("set-changes-data".into(), "the stored value is not the written value", show_value(&v), show_value(&stored));
                }
                let r = load(&ft, &stored);
                match &r {
                    Ok(read) => {
                        if !oracle::same_declared(&ft, &stored, read) {
                            fail("read-differs".into(), "the value read back from the stored form differs from the written one", show_value(&stored), show_value(read));
                        }
                        if let Err(why) = oracle::field_conforms(&ft, read, false) {
                            fail(format!("read-invalid:{why}"), "the value read back is not valid for its type", "valid".into(), show_value(read));
                        }
                        ev.nontrivial = true;
                        ev.hits.push("rt:roundtrip".into());
                    }
                    Err("err:ser") => {
                        // refused loudly at encoding time: the document never reaches storage
                        ev.hits.push("rt:unserializable".into());
                    }
                    Err(e) => {
                        // the recorded finding F2 keeps its narrow key; anything else is a new violation
                        let key = if *e == "err:read" && oracle::vector_outgrows_budget(&ft, &stored) {
                            "accepted-then-unreadable:err:read".to_string()
                        } else {
                            format!("accepted-then-unreadable-other:{e}")
                        };
                        fail(key, "accepted on write but rejected on read", "ok".into(), e.to_string());
                    }
                }
                ev.impl_out = format!("ok {} | {}", show_value(&stored), show_load(&r));
            }
        },
        "jrt" => match set(&ft, &v) {
            None => {
                ev.hits.push("jrt:rejected".into());
                ev.impl_out = "err".into();
            }
            Some(stored) => {
                let r = jload(&ft, &stored);
                let limit = json_known_limit(&stored);
                match &r {
                    Ok(read) => {
                        if !oracle::same_declared_mode(&ft, &stored, read, true) {
                            match limit {
                                Some(l) => ev.hits.push(format!("measured:{l}:read-differs")),
                                None => fail("json-read-differs".into(), "the value read back from the JSON rendering differs from the stored one", show_value(&stored), show_value(read)),
                            }
                        } else {
                            ev.nontrivial = true;
                            ev.hits.push("jrt:roundtrip".into());
                        }
                        if let Err(why) = oracle::field_conforms(&ft, read, false) {
                            fail(format!("json-read-invalid:{why}"), "the value read back from JSON is not valid for its type", "valid".into(), show_value(read));
                        }
                    }
                    Err("err:ser") => ev.hits.push("jrt:unserializable".into()),
                    Err(e) => match limit {
                        Some(l) => ev.hits.push(format!("measured:{l}:{e}")),
                        None if *e == "err:read" && oracle::vector_outgrows_budget(&ft, &stored) => {
                            fail("accepted-then-unreadable:err:read".into(), "accepted on write but rejected on read", "ok".into(), e.to_string())
                        }
                        None => fail(format!("json-accepted-then-unreadable:{e}"), "accepted on write but its JSON rendering is rejected on read", "ok".into(), e.to_string()),
                    },
                }
                ev.impl_out = format!("ok {} | {}", show_value(&stored), show_load(&r));
            }
        },
        "jload" => {
            let r = jload(&ft, &v);
            if let Ok(read) = &r {
                if let Err(why) = oracle::field_conforms(&ft, read, false) {
                    fail(format!("json-read-accepts-invalid:{why}"), "try_from_doc of JSON input produced a value that violates its declared type", format!("err ({why})"), show_value(read));
                }
                ev.nontrivial = true;
            }
            ev.hits.push(format!("jload:{}", if r.is_ok() { "ok" } else { r.as_ref().unwrap_err() }));
            ev.impl_out = show_load(&r);
        }
        "load" => {
            let r = load(&ft, &v);
            if let Ok(read) = &r {
                if let Err(why) = oracle::field_conforms(&ft, read, false) {
                    fail(format!("read-accepts-invalid:{why}"), "try_from_doc produced a value that violates its declared type", format!("err ({why})"), show_value(read));
                }
                ev.nontrivial = true;
            }
            ev.hits.push(format!("load:{}", if r.is_ok() { "ok" } else { r.as_ref().unwrap_err() }));
            ev.impl_out = show_load(&r);
        }
        _ => return None,
    }
    Some(ev)
}

const STATEFUL: &[&str] = &["schema", "upgrade", "put", "typed", "get"];

fn eval_doc_line(l: &str, st: &mut docs::State) -> Option<Eval> {
    let o = st.step(l)?;
    let op = l.split(' ').next().unwrap_or("");
    let mut hits = vec![format!("op:{op}")];
    hits.extend(o.hits);
    Some(Eval {
        impl_out: o.text,
        findings: o.failures.into_iter().map(|(key, what, expected, observed)| Finding { oracle: true, key, what, expected, observed }).collect(),
        nontrivial: o.nontrivial,
        hits,
    })
}

fn eval_line(l: &str, st: &mut docs::State) -> Eval {
    let op = l.split(' ').next().unwrap_or("");
    let doc_level = STATEFUL.contains(&op) || op == "ext" || op == "compat";
    match catch_unwind(AssertUnwindSafe(|| if doc_level { eval_doc_line(l, st) } else { eval_line_inner(l) })) {
        Ok(Some(ev)) => ev,
        Ok(None) => Eval { impl_out: "bad-op".into(), findings: vec![], nontrivial: false, hits: vec!["bad-op".into()] },
        Err(_) => Eval {
            impl_out: "panic".into(),
            findings: vec![Finding { oracle: true, key: "panic".into(), what: "the code under test panicked".into(), expected: "no panic".into(), observed: "panic".into() }],
            nontrivial: false,
            hits: vec!["panic".into()],
        },
    }
}

/// All findings of one line (oracle + correspondence).
fn check_line(l: &str, model: &mut Option<ModelProc>) -> (Eval, Option<String>) {
    check_line_in(l, model, &mut docs::State::default())
}

fn check_line_in(l: &str, model: &mut Option<ModelProc>, st: &mut docs::State) -> (Eval, Option<String>) {
    let mut ev = eval_line(l, st);
    let mut model_out = None;
    if let Some(m) = model.as_mut() {
        let out = m.ask(l);
        if out != ev.impl_out {
            ev.findings.push(Finding {
                oracle: false,
                key: format!("disagree:{}", l.split(' ').next().unwrap_or("")),
                what: "Lean model and implementation differ".into(),
                expected: out.clone(),
                observed: ev.impl_out.clone(),
            });
        }
        model_out = Some(out);
    }
    (ev, model_out)
}

/// Re-prints an op with every map in `BTreeMap` order (the order the model is promised); ops that
/// do not parse are passed through untouched (both sides then answer `bad-op`).
fn canon_line(l: &str) -> String {
    fn inner(l: &str) -> Option<String> {
        let mut ts = Toks::new(l);
        let op = ts.next()?;
        let hint = ts.next()?;
        let mut o: Vec<String> = vec![op.into(), hint.into()];
        match op {
            "val" | "norm" | "prune" | "rt" | "load" | "set" | "jrt" | "jload" => {
                o.push(show_type(&parse_type(&mut ts)?));
                o.push(show_value(&parse_value(&mut ts)?));
            }
            "cx" => {
                for _ in 0..4 {
                    o.push(ts.next()?.into());
                }
                o.push(show_value(&parse_value(&mut ts)?));
            }
            "ext" => {
                o.push(show_type(&parse_type(&mut ts)?));
                o.push(wire::show_cbor(&wire::parse_cbor(&mut ts)?).ok()?);
            }
            "compat" => {
                o.push(show_type(&parse_type(&mut ts)?));
                o.push(show_type(&parse_type(&mut ts)?));
            }
            "schema" | "upgrade" => {
                o.push(ts.next()?.into());
                let n: usize = ts.next()?.parse().ok()?;
                o.push(n.to_string());
                for _ in 0..n {
                    o.push(ts.next()?.into());
                    o.push(ts.next()?.into());
                    o.push(show_type(&parse_type(&mut ts)?));
                }
            }
            "put" => {
                let n: usize = ts.next()?.parse().ok()?;
                o.push(n.to_string());
                for _ in 0..n {
                    o.push(ts.next()?.into());
                    o.push(show_value(&parse_value(&mut ts)?));
                }
            }
            "typed" => {
                let n: usize = ts.next()?.parse().ok()?;
                o.push(n.to_string());
                for _ in 0..n {
                    o.push(ts.next()?.into());
                    o.push(wire::show_cbor(&wire::parse_cbor(&mut ts)?).ok()?);
                }
            }
            _ => return None,
        }
        ts.done().then(|| o.join(" "))
    }
    inner(l).unwrap_or_else(|| l.to_string())
}

fn reset_model(model: &mut Option<ModelProc>) {
    if let Some(m) = model.as_mut() {
        let _ = m.ask("reset");
    }
}

// ------------------------------------------------------------------------------------ shrinking

/// Structurally smaller (type, value) pairs.
fn shrink_candidates(ft: &FieldType, v: &FieldValue) -> Vec<(FieldType, FieldValue)> {
    let mut out = Vec::new();
    match (ft, v) {
        (FieldType::Option(t), v) if *v != FieldValue::Null => out.push(((**t).clone(), v.clone())),
        (FieldType::Array(ts), FieldValue::Array(vs)) => {
            if ts.len() == 1 {
                for x in vs {
                    out.push((ts[0].clone(), x.clone()));
                }
                for i in 0..vs.len() {
                    let mut w = vs.clone();
                    w.remove(i);
                    out.push((ft.clone(), FieldValue::Array(w)));
                }
            } else if ts.len() >= 2 {
                for (t, x) in ts.iter().zip(vs) {
                    out.push((t.clone(), x.clone()));
                }
            } else {
                for i in 0..vs.len() {
                    let mut w = vs.clone();
                    w.remove(i);
                    out.push((ft.clone(), FieldValue::Array(w)));
                }
            }
            for (i, x) in vs.iter().enumerate() {
                let t = if ts.len() == 1 { ts.first() } else { ts.get(i) };
                if let Some(t) = t {
                    for (t2, x2) in shrink_candidates(t, x) {
                        let mut nts = ts.clone();
                        let mut w = vs.clone();
                        if ts.len() == 1 && vs.len() > 1 {
                            continue;
                        }
                        let ti = if ts.len() == 1 { 0 } else { i };
                        nts[ti] = t2;
                        w[i] = x2;
                        out.push((FieldType::Array(nts), FieldValue::Array(w)));
                    }
                }
            }
        }
        (FieldType::Map(m), FieldValue::Map(vals)) => {
            let w = r#gen::is_wildcard(m);
            for (k, x) in vals {
                if let Some(t) = w.map(|(_, t)| t).or_else(|| m.get(k)) {
                    out.push((t.clone(), x.clone()));
                }
                let mut nv = vals.clone();
                nv.remove(k);
                out.push((ft.clone(), FieldValue::Map(nv)));
            }
            if w.is_none() {
                for k in m.keys() {
                    if m.len() > 1 {
                        let mut nm = m.clone();
                        nm.remove(k);
                        let mut nv = vals.clone();
                        nv.remove(k);
                        out.push((FieldType::Map(nm), FieldValue::Map(nv)));
                    }
                }
            }
        }
        _ => {}
    }
    out
}

fn shrink_line(l: &str, f: &Finding, model: &mut Option<ModelProc>) -> String {
    let mut ts = Toks::new(l);
    let (Some(op), Some(_)) = (ts.next(), ts.next()) else { return l.to_string() };
    if op == "cx" || op == "ext" || op == "compat" || STATEFUL.contains(&op) {
        return l.to_string();
    }
    let (Some(mut ft), Some(mut v)) = (parse_type(&mut ts), parse_value(&mut ts)) else { return l.to_string() };
    let mut runs = 0;
    'outer: loop {
        for (t2, v2) in shrink_candidates(&ft, &v) {
            runs += 1;
            if runs > 400 {
                break 'outer;
            }
            let cand = line(op, &t2, &v2);
            let (ev, _) = check_line(&cand, model);
            if ev.findings.iter().any(|g| g.oracle == f.oracle && g.key == f.key) {
                ft = t2;
                v = v2;
                continue 'outer;
            }
        }
        break;
    }
    line(op, &ft, &v)
}

// ----------------------------------------------------------------------------------- generation

/// A type tweak for upgrade / compat cases: (new type, did the generator intend it to be permitted).
fn evolve_type(r: &mut Rng, t: &FieldType) -> FieldType {
    use std::collections::BTreeMap;
    match t {
        FieldType::Option(inner) if r.chance(2, 3) => FieldType::Option(Box::new(evolve_type(r, inner))),
        FieldType::Array(ts) if !ts.is_empty() && r.chance(2, 3) => {
            let mut ts = ts.clone();
            match r.below(5) {
                0 if ts.len() >= 2 => {
                    ts.pop();
                }
                1 if ts.len() >= 2 => ts.push(FieldType::Bool),
                _ => {
                    let i = r.usize(ts.len());
                    ts[i] = evolve_type(r, &ts[i]);
                }
            }
            FieldType::Array(ts)
        }
        FieldType::Map(m) if !m.is_empty() => {
            let mut m: BTreeMap<_, _> = m.clone();
            if let Some((w, inner)) = r#gen::is_wildcard(&m) {
                let (w, inner) = (w.clone(), inner.clone());
                return match r.below(4) {
                    0 => FieldType::Map(BTreeMap::from([(r#gen::wildcard(r.below(3)), inner)])),
                    1 => FieldType::Map(BTreeMap::from([(r#gen::gen_key(r, 0), inner)])),
                    _ => FieldType::Map(BTreeMap::from([(w, evolve_type(r, &inner))])),
                };
            }
            match r.below(6) {
                0 | 1 => {
                    // gain an optional key
                    let kv = r.below(3);
                    m.entry(r#gen::gen_key(r, kv)).or_insert_with(|| FieldType::Option(Box::new(r#gen::gen_scalar_type(r))));
                }
                2 => {
                    // gain a required key
                    let kv = r.below(3);
                    m.entry(r#gen::gen_key(r, kv)).or_insert_with(|| r#gen::gen_scalar_type(r));
                }
                3 | 4 => {
                    // lose a key
                    if let Some(k) = m.keys().nth(r.usize(m.len())).cloned() {
                        m.remove(&k);
                    }
                }
                _ => {
                    if let Some(k) = m.keys().nth(r.usize(m.len())).cloned() {
                        let nt = evolve_type(r, &m[&k]);
                        m.insert(k, nt);
                    }
                }
            }
            FieldType::Map(m)
        }
        _ => match r.below(4) {
            0 => r#gen::gen_scalar_type(r),
            1 => FieldType::Option(Box::new(t.clone())),
            _ => t.clone(),
        },
    }
}

/// Field types for multi-field documents: shallow, with a bias towards nested structs (explicitly
/// keyed maps with text keys), the shape the derive macro emits.
fn gen_field_type(r: &mut Rng) -> FieldType {
    use std::collections::BTreeMap;
    match r.below(10) {
        0..=2 => {
            let n = 1 + r.below(3);
            let mut m = BTreeMap::new();
            for _ in 0..n {
                let k = anda_db_schema::FieldKey::Text((*r.pick(&["x", "y", "z", "w", "*"])).to_string());
                let t = if r.chance(1, 2) { FieldType::Option(Box::new(r#gen::gen_type(r, 1))) } else { r#gen::gen_type(r, 1) };
                m.insert(k, t);
            }
            let t = FieldType::Map(m);
            if r.chance(1, 2) { FieldType::Option(Box::new(t)) } else { t }
        }
        3..=5 => FieldType::Option(Box::new(r#gen::gen_type(r, 2))),
        _ => r#gen::gen_type(r, 2),
    }
}

fn fields_line(op: &str, ver: u64, fields: &[(String, bool, FieldType)]) -> String {
    let mut o = vec![op.to_string(), "-".into(), ver.to_string(), fields.len().to_string()];
    for (n, u, t) in fields {
        o.push(n.clone());
        o.push(if *u { "u1" } else { "u0" }.into());
        o.push(show_type(t));
    }
    o.join(" ")
}

fn gen_chain(r: &mut Rng) -> Vec<String> {
    const NAMES: &[&str] = &["a", "b", "c", "d", "e", "f_1"];
    let mut ops = Vec::new();
    let mut ver = 1 + r.below(3);
    let mut cur: Vec<(String, bool, FieldType)> = Vec::new();
    let mut names: Vec<&str> = NAMES.to_vec();
    r.shuffle(&mut names);
    for n in names.iter().take(2 + r.usize(3)) {
        cur.push((n.to_string(), r.chance(1, 6), gen_field_type(r)));
    }
    ops.push(fields_line("schema", ver, &cur));
    let mut removed: Vec<(String, bool, FieldType)> = Vec::new();
    let mut docs = 0usize;
    let steps = 4 + r.below(6);
    for _ in 0..steps {
        match r.below(10) {
            0..=3 => {
                // field by field
                let mut parts = Vec::new();
                let mut all = Vec::new();
                let bad = r.chance(1, 6);
                let bad_i = r.usize(cur.len().max(1));
                for (i, (n, _, t)) in cur.iter().enumerate() {
                    if matches!(t, FieldType::Option(_)) && r.chance(1, 3) {
                        continue;
                    }
                    let mut v = r#gen::gen_valid(r, t, 2);
                    if bad && i == bad_i {
                        v = r#gen::mutate(r, t, &v);
                    }
                    parts.push(format!("{n} {}", show_value(&v)));
                    all.push(v);
                }
                let hint = hint_of(&FieldValue::Array(all));
                ops.push(format!("put {hint} {} {}", parts.len(), parts.join(" ")));
                if !bad {
                    docs += 1;
                }
            }
            4 => {
                // from a typed value
                let mut parts = vec!["_id ci1".to_string()];
                let bad = r.chance(1, 6);
                let bad_i = r.usize(cur.len().max(1));
                for (i, (n, _, t)) in cur.iter().enumerate() {
                    if matches!(t, FieldType::Option(_)) && r.chance(1, 3) {
                        continue;
                    }
                    let v = r#gen::gen_valid(r, t, 0);
                    let mut c = docs::to_cbor(&v, r);
                    if bad && i == bad_i {
                        c = docs::mutate_cbor(&c, r);
                    }
                    if let Ok(text) = wire::show_cbor(&c) {
                        parts.push(format!("{n} {text}"));
                    }
                }
                if r.chance(1, 10) {
                    parts.push("zz ci1".into());
                }
                ops.push(format!("typed - {} {}", parts.len(), parts.join(" ")));
                if !bad {
                    docs += 1;
                }
            }
            5..=8 => {
                let mut next = cur.clone();
                let nver = if r.chance(1, 10) { ver } else { ver + 1 + r.below(2) };
                for _ in 0..1 + r.below(2) {
                    match r.below(8) {
                        0 | 1 if next.len() > 1 => {
                            let i = r.usize(next.len());
                            removed.push(next.remove(i));
                        }
                        2 | 3 => {
                            // add: a removed name again (same or another type) or a fresh one
                            let (n, t) = if !removed.is_empty() && r.chance(2, 3) {
                                let (n, _, t) = removed.remove(r.usize(removed.len()));
                                (n, if r.chance(1, 2) { t } else { gen_field_type(r) })
                            } else {
                                ((*r.pick(NAMES)).to_string(), gen_field_type(r))
                            };
                            if !next.iter().any(|f| f.0 == n) {
                                let t = if matches!(t, FieldType::Option(_)) || r.chance(1, 5) { t } else { FieldType::Option(Box::new(t)) };
                                next.push((n, false, t));
                            }
                        }
                        4 | 5 | 6 => {
                            let i = r.usize(next.len());
                            next[i].2 = evolve_type(r, &next[i].2.clone());
                        }
                        _ => {
                            let i = r.usize(next.len());
                            next[i].1 = !next[i].1;
                        }
                    }
                }
                ops.push(fields_line("upgrade", nver, &next));
                // the generator's own bookkeeping follows the oracle's notion of "permitted"
                let permitted = nver > ver
                    && next.iter().all(|(n, u, t)| match cur.iter().find(|f| &f.0 == n) {
                        Some((_, ou, ot)) => docs::permitted_change(t, ot) && u == ou,
                        None => matches!(t, FieldType::Option(_)),
                    });
                if permitted {
                    cur = next;
                    ver = nver;
                } else {
                    removed.clear();
                }
            }
            _ => {
                if docs > 0 {
                    ops.push(format!("get - {}", r.usize(docs)));
                }
            }
        }
    }
    for k in 0..docs {
        ops.push(format!("get - {k}"));
    }
    ops
}

fn gen_case(seed: u64, i: u64) -> Vec<String> {
    let mut r = Rng::for_case(seed, i);
    let r = &mut r;
    let mut ops = Vec::new();
    match i % 10 {
        7 | 8 => return gen_chain(r),
        9 => {
            // typed-value path of one field, and the upgrade compatibility relation
            let depth = 1 + r.below(4) as u32;
            let ft = r#gen::gen_type(r, depth);
            let valid = r#gen::gen_valid(r, &ft, 0);
            let v = if r.chance(1, 3) { r#gen::mutate(r, &ft, &valid) } else { valid };
            let mut c = docs::to_cbor(&v, r);
            if r.chance(1, 4) {
                c = docs::mutate_cbor(&c, r);
            }
            if let Ok(text) = wire::show_cbor(&c) {
                ops.push(format!("ext - {} {text}", show_type(&ft)));
            }
            let old = if r.chance(1, 2) { gen_field_type(r) } else { ft };
            let new = evolve_type(r, &old);
            ops.push(format!("compat - {} {}", show_type(&new), show_type(&old)));
            return ops;
        }
        _ => {}
    }
    if i % 97 == 13 {
        let (ft, v) = r#gen::budget_case(r);
        ops.push(line("val", &ft, &v));
        ops.push(line("rt", &ft, &v));
        return ops;
    }
    let depth = 1 + r.below(4) as u32;
    let ft = r#gen::gen_type(r, depth);
    let shapes = *r.pick(&[0u64, 0, 2, 8]);
    let valid = r#gen::gen_valid(r, &ft, shapes);
    let v = match r.below(10) {
        0..=4 => valid,
        5..=8 => r#gen::mutate(r, &ft, &valid),
        _ => r#gen::gen_any(r, 2),
    };
    ops.push(line("val", &ft, &v));
    ops.push(line("norm", &ft, &v));
    ops.push(line("rt", &ft, &v));
    ops.push(line("load", &ft, &v));
    ops.push(line("jrt", &ft, &v));
    if r.chance(1, 3) {
        ops.push(line("jload", &ft, &v));
    }
    if r.chance(1, 2) {
        ops.push(line("prune", &ft, &v));
    }
    if r.chance(1, 3) {
        // the complexity pass alone, against a small random budget
        let w = if r.chance(1, 2) { v.clone() } else { r#gen::gen_any(r, 3) };
        ops.push(format!("cx - {} {} {} {} {}", r.below(4), 1 + r.below(12), r.below(5), r.below(5), show_value(&w)));
    }
    ops
}

// ----------------------------------------------------------------------------------------- main

/// Does the case (run from a fresh state) still show the finding?
fn case_shows(ops: &[String], f: &Finding, model: &mut Option<ModelProc>) -> bool {
    let mut st = docs::State::default();
    reset_model(model);
    ops.iter().any(|l| {
        let (ev, _) = check_line_in(l, model, &mut st);
        ev.findings.iter().any(|g| g.oracle == f.oracle && g.key == f.key)
    })
}

fn run_case(name: &str, ops: &[String], model: &mut Option<ModelProc>, rep: &mut Report, reported: &mut std::collections::BTreeSet<String>) {
    let ops: Vec<String> = ops.iter().map(|l| canon_line(l)).collect();
    let ops = &ops[..];
    let mut st = docs::State::default();
    reset_model(model);
    for (li, l) in ops.iter().enumerate() {
        let (ev, model_out) = check_line_in(l, model, &mut st);
        if model_out.is_some() {
            rep.model_compared += 1;
        }
        rep.case(&format!("{l} => {}", ev.impl_out), ev.nontrivial);
        for h in &ev.hits {
            rep.hit(h);
        }
        if ev.impl_out == "bad-op" {
            rep.notes.push(format!("unparsable op in {name}: {l}"));
        }
        rep.sample(json!({"case": name, "op": l, "impl": ev.impl_out, "model": model_out}));
        let mut seen = std::collections::BTreeSet::new();
        for f in &ev.findings {
            if !seen.insert((f.oracle, f.key.clone())) {
                continue;
            }
            // one minimised replay per failing call shape; further hits are only counted
            rep.hit(&format!("{}:{}", if f.oracle { "oracle" } else { "model" }, f.key));
            if !reported.insert(format!("{}{}", f.oracle, f.key)) {
                continue;
            }
            let op = l.split(' ').next().unwrap_or("");
            let (small_ops, g): (Vec<String>, Finding) = if STATEFUL.contains(&op) {
                // history matters: delta-debug the op list up to and including this line
                let prefix: Vec<String> = ops[..=li].to_vec();
                let small = vh_common::shrink(prefix, |c| case_shows(c, f, model), 300);
                let mut st2 = docs::State::default();
                reset_model(model);
                let mut g = f.clone();
                for l2 in &small {
                    let (ev2, _) = check_line_in(l2, model, &mut st2);
                    if let Some(x) = ev2.findings.iter().find(|g| g.oracle == f.oracle && g.key == f.key) {
                        g = x.clone();
                    }
                }
                // leave the model in the state of the running case again
                let mut st3 = docs::State::default();
                reset_model(model);
                for l2 in &ops[..=li] {
                    let _ = check_line_in(l2, model, &mut st3);
                }
                (small, g)
            } else {
                let small = shrink_line(l, f, model);
                let (ev2, _) = check_line(&small, model);
                let g = ev2.findings.iter().find(|g| g.oracle == f.oracle && g.key == f.key).unwrap_or(f).clone();
                (vec![small], g)
            };
            if f.oracle {
                rep.oracle_failure(&g.key, &g.what, &small_ops, &g.expected, &g.observed);
            } else {
                rep.disagreement(&g.what, &small_ops, &g.expected, &g.observed);
            }
        }
    }
}

fn main() {
    let args = Args::parse();
    // the code under test reports errors as values; keep panics of the harness visible but quiet
    std::panic::set_hook(Box::new(|_| {}));
    let mut rep = Report::new(
        "C13",
        &args,
        "an op counts as non-trivial when the implementation took a non-error branch that returns a value: \
         validate/complexity accepted, normalize/prune changed the value, set_field accepted and the stored \
         form was read back, or try_from_doc produced a document; distinctness is by canonical op text + answer",
    );
    rep.max_samples = 8;
    let mut model = ModelProc::from_args(&args);
    let mut reported = std::collections::BTreeSet::new();

    if let Some(p) = &args.replay {
        let ops = read_replay(p);
        run_case("replay", &ops, &mut model, &mut rep, &mut reported);
        rep.write(&args);
        return;
    }
    if let Some(dir) = &args.corpus {
        for (name, ops) in read_corpus(dir) {
            rep.hit("corpus-file");
            run_case(&name, &ops, &mut model, &mut rep, &mut reported);
        }
    }
    let n = args.budget(6_000, 400_000);
    for i in 0..n {
        let ops = gen_case(args.seed, i);
        run_case(&format!("seed{}-case{}", args.seed, i), &ops, &mut model, &mut rep, &mut reported);
        if rep.oracle_failures.len() >= 20 && rep.disagreements.len() >= 20 {
            break;
        }
    }
    typed::run(args.seed, args.budget(1_500, 60_000), &mut rep);
    float_laws(&args, &mut rep);
    rep.write(&args);
}

/// The IEEE facts the Lean theorems take as hypotheses (`FloatModel.Lawful`), measured on real
/// floats: never proved, reported as measured.
fn float_laws(args: &Args, rep: &mut Report) {
    let mut r = Rng::new(args.seed ^ 0xF10A7);
    let n = args.budget(200_000, 5_000_000);
    let (mut bad, mut checked) = (0u64, 0u64);
    for i in 0..n {
        let x = if (i as usize) < r#gen::F32_EDGES.len() { r#gen::F32_EDGES[i as usize] } else { r.next_u64() as u32 };
        let f = f32::from_bits(x);
        if f.is_nan() {
            continue;
        }
        checked += 1;
        let w = f as f64;
        // widen_not_nan, narrow_widen, read-back of a widening, inf/finite consistency
        let ok = !w.is_nan() && (w as f32).to_bits() == x && oracle::f32_read_back(w) && !(f.is_infinite() && w.is_finite());
        if !ok {
            bad += 1;
        }
    }
    for i in 0..n {
        let d = if (i as usize) < r#gen::F64_EDGES.len() { r#gen::F64_EDGES[i as usize] } else { r.next_u64() };
        let v = f64::from_bits(d);
        if v.is_nan() {
            continue;
        }
        checked += 1;
        // narrow_not_nan; a read-back shape narrows to a value that widens / prints back to it
        let f = v as f32;
        let mut ok = !f.is_nan();
        if oracle::f32_read_back(v) {
            ok &= (f as f64) == v || oracle::json_clause(v);
            ok &= !(f.is_infinite() && v.is_finite());
        }
        if !ok {
            bad += 1;
        }
    }
    // The JSON (human-readable) read-back of a stored f32, as serde_json prints it, against
    // `FieldType::F32.validate`: measured, outside the modelled (CBOR) storage path.
    let (mut printers_differ, mut json_rejected, mut first) = (0u64, 0u64, None);
    for i in 0..n {
        let x = if (i as usize) < r#gen::F32_EDGES.len() { r#gen::F32_EDGES[i as usize] } else if i % 4 == 0 { ((r.below(1 << 22) as f32) / 16.0).to_bits() } else { r.next_u64() as u32 };
        let f = f32::from_bits(x);
        if !f.is_finite() {
            continue;
        }
        let ryu = serde_json::to_string(&f).unwrap();
        let p: f64 = ryu.parse().unwrap();
        if format!("{f}").parse::<f64>().unwrap() != p {
            printers_differ += 1;
        }
        if FieldType::F32.validate(&FieldValue::F64(p)).is_err() {
            json_rejected += 1;
            if first.is_none() {
                first = Some(format!("f32 bits {x:08x} = {f:?}: serde_json prints {ryu}, whose f64 parse {:016x} is not accepted for an F32 field", p.to_bits()));
            }
        }
    }
    rep.measured.insert("json_f32_printers_differ".into(), json!(printers_differ));
    rep.measured.insert("json_f32_readback_rejected".into(), json!(json_rejected));
    if let Some(f) = first {
        rep.measured.insert("json_f32_readback_rejected_example".into(), json!(f));
    }
    rep.measured.insert("float_laws_checked".into(), json!(checked));
    rep.measured.insert("float_laws_violated".into(), json!(bad));
    if bad > 0 {
        rep.notes.push(format!("{bad} sampled floats violate a FloatModel law the theorems assume"));
    }
}
