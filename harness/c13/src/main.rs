//! Harness for property C13 (stub: not built yet).
fn main() {
    let a = vh_common::Args::parse();
    let r = vh_common::Report::new("C13", &a, "stub");
    r.write(&a);
}
