//! Document / schema level: typed-value path (`Document::try_from` → `FieldType::extract`),
//! multi-field documents, schema upgrade chains (add / remove / re-add), and the independent
//! oracle for them.

use crate::oracle;
use crate::wire::{Toks, parse_cbor, parse_type, parse_value, show_value};
use anda_db_schema::{Document, DocumentOwned, FieldEntry, FieldKey, FieldType, FieldValue, Schema};
use cbor2::Value as Cbor;
use std::collections::{BTreeMap, BTreeSet};
use std::sync::Arc;

#[derive(Clone)]
pub struct Written {
    /// name → (stored value, lineage id of the field name at write time)
    pub fields: BTreeMap<String, (FieldValue, u64)>,
    /// name → nested key paths that some upgrade *after this document was written* removed
    pub retired: BTreeMap<String, BTreeSet<String>>,
    /// fields in which, after this document was written, an untyped `Map({})` position became an
    /// explicitly keyed map
    pub became_keyed: BTreeSet<String>,
}

/// Does `new` declare keys at a position where `old` was the untyped map `Map({})`?
pub fn untyped_became_keyed(new: &FieldType, old: &FieldType) -> bool {
    use FieldType as T;
    match (new, old) {
        (T::Option(n), T::Option(o)) => untyped_became_keyed(n, o),
        (T::Array(n), T::Array(o)) => n.iter().zip(o).any(|(a, b)| untyped_became_keyed(a, b)),
        (T::Map(n), T::Map(o)) => {
            if o.is_empty() {
                return !n.is_empty();
            }
            match (crate::r#gen::is_wildcard(n), crate::r#gen::is_wildcard(o)) {
                (Some((_, a)), Some((_, b))) => untyped_became_keyed(a, b),
                (None, None) => n.iter().any(|(k, a)| o.get(k).is_some_and(|b| untyped_became_keyed(a, b))),
                _ => false,
            }
        }
        _ => false,
    }
}

/// Every explicitly keyed map key of a type, as a path (`?` option, `[]` array element, `[i]`
/// tuple position, `*` homogeneous map value, `<key>` declared key).
pub fn key_paths(ft: &FieldType, path: &str, out: &mut BTreeSet<String>) {
    match ft {
        FieldType::Option(t) => key_paths(t, path, out),
        FieldType::Array(ts) if ts.len() == 1 => key_paths(&ts[0], &format!("{path}/[]"), out),
        FieldType::Array(ts) => ts.iter().enumerate().for_each(|(i, t)| key_paths(t, &format!("{path}/[{i}]"), out)),
        FieldType::Map(m) => {
            if let Some((_, t)) = crate::r#gen::is_wildcard(m) {
                key_paths(t, &format!("{path}/*"), out);
            } else {
                for (k, t) in m {
                    let p = format!("{path}/{}", crate::wire::key_tok(k));
                    out.insert(p.clone());
                    key_paths(t, &p, out);
                }
            }
        }
        _ => {}
    }
}

/// Drops the entries of a value that sit at one of the `retired` key paths.
pub fn drop_retired(ft: &FieldType, v: &FieldValue, path: &str, retired: &BTreeSet<String>) -> FieldValue {
    use FieldType as T;
    use FieldValue as V;
    match (ft, v) {
        (T::Option(t), v) if *v != V::Null => drop_retired(t, v, path, retired),
        (T::Array(ts), V::Array(xs)) if ts.len() == 1 => V::Array(xs.iter().map(|x| drop_retired(&ts[0], x, &format!("{path}/[]"), retired)).collect()),
        (T::Array(ts), V::Array(xs)) if ts.len() >= 2 => {
            V::Array(xs.iter().enumerate().map(|(i, x)| ts.get(i).map_or(x.clone(), |t| drop_retired(t, x, &format!("{path}/[{i}]"), retired))).collect())
        }
        (T::Map(m), V::Map(vals)) if !m.is_empty() => {
            if let Some((_, t)) = crate::r#gen::is_wildcard(m) {
                V::Map(vals.iter().map(|(k, x)| (k.clone(), drop_retired(t, x, &format!("{path}/*"), retired))).collect())
            } else {
                V::Map(
                    vals.iter()
                        .filter_map(|(k, x)| {
                            let p = format!("{path}/{}", crate::wire::key_tok(k));
                            if retired.contains(&p) {
                                return None;
                            }
                            Some((k.clone(), m.get(k).map_or(x.clone(), |t| drop_retired(t, x, &p, retired))))
                        })
                        .collect(),
                )
            }
        }
        (_, v) => v.clone(),
    }
}

#[derive(Default)]
pub struct State {
    pub schema: Option<Arc<Schema>>,
    pub docs: Vec<Vec<u8>>,
    // ---- oracle bookkeeping (independent of the code under test) ----
    pub written: Vec<Written>,
    /// field name → lineage id (bumped every time the name is declared again after an absence)
    pub lineage: BTreeMap<String, u64>,
    pub next_lineage: u64,
    /// declared (name → (type, unique)) of the current schema, as the harness built it
    pub declared: BTreeMap<String, (FieldType, bool)>,
    pub version: u64,
    /// every index any schema of this lineage has bound, with the (name, lineage id) it was bound to
    pub bound: BTreeMap<usize, (String, u64)>,
}

pub struct Out {
    pub text: String,
    pub nontrivial: bool,
    pub hits: Vec<String>,
    /// (key, what, expected, observed)
    pub failures: Vec<(String, String, String, String)>,
}

fn out(text: impl Into<String>) -> Out {
    Out { text: text.into(), nontrivial: false, hits: vec![], failures: vec![] }
}

fn parse_fields(ts: &mut Toks) -> Option<(u64, Vec<(String, bool, FieldType)>)> {
    let ver: u64 = ts.next()?.parse().ok()?;
    let n: usize = ts.next()?.parse().ok()?;
    let mut v = Vec::new();
    for _ in 0..n {
        let name = ts.next()?.to_string();
        let u = match ts.next()? {
            "u1" => true,
            "u0" => false,
            _ => return None,
        };
        v.push((name, u, parse_type(ts)?));
    }
    ts.done().then_some((ver, v))
}

fn build(ver: u64, fields: &[(String, bool, FieldType)]) -> Option<Schema> {
    let mut b = Schema::builder();
    b.with_version(ver);
    for (name, u, ft) in fields {
        let mut e = FieldEntry::new(name.clone(), ft.clone()).ok()?;
        if *u {
            e = e.with_unique();
        }
        b.add_field(e).ok()?;
    }
    b.build().ok()
}

fn show_schema(s: &Schema) -> String {
    format!("ok {} end={}", s.iter().map(|f| format!("{}:{}", f.name(), f.idx())).collect::<Vec<_>>().join(","), s.allocated_idx_end())
}

fn show_doc(d: &Document) -> String {
    let mut o = vec![format!("ok {}", d.fields().len())];
    for (i, v) in d.fields() {
        o.push(i.to_string());
        o.push(show_value(v));
    }
    o.join(" ")
}

/// Independent statement of a permitted type change of a field kept across an upgrade:
/// identical, or — below arrays (same arity) / options / homogeneous maps (same key kind) — an
/// explicitly keyed map that gained optional keys and / or lost keys (the untyped map `Map({})` is
/// not a keyed map: it may not gain keys).
pub fn permitted_change(new: &FieldType, old: &FieldType) -> bool {
    use FieldType as T;
    match (new, old) {
        (T::Array(n), T::Array(o)) => n.len() == o.len() && n.iter().zip(o).all(|(a, b)| permitted_change(a, b)),
        (T::Option(n), T::Option(o)) => permitted_change(n, o),
        (T::Map(n), T::Map(o)) => {
            let wn = crate::r#gen::is_wildcard(n);
            let wo = crate::r#gen::is_wildcard(o);
            match (wn, wo) {
                (Some((kn, tn)), Some((ko, to))) => kn == ko && permitted_change(tn, to),
                // the untyped map declares nothing and holds anything: it cannot be narrowed to keys
                (None, None) if o.is_empty() && !n.is_empty() => false,
                (None, None) => n.iter().all(|(k, tn)| match o.get(k) {
                    Some(to) => permitted_change(tn, to),
                    None => matches!(tn, T::Option(_)),
                }),
                _ => false,
            }
        }
        (n, o) => n == o,
    }
}

/// What a value written under `old` must read as under the (permitted) `new` type: the same value
/// minus entries of keys the new keyed maps no longer declare.
pub fn expected_under(new: &FieldType, v: &FieldValue) -> FieldValue {
    use FieldType as T;
    use FieldValue as V;
    match (new, v) {
        (T::Option(t), v) if *v != V::Null => expected_under(t, v),
        (T::Array(ts), V::Array(xs)) if ts.len() == 1 => V::Array(xs.iter().map(|x| expected_under(&ts[0], x)).collect()),
        (T::Array(ts), V::Array(xs)) if ts.len() >= 2 => V::Array(xs.iter().enumerate().map(|(i, x)| ts.get(i).map_or(x.clone(), |t| expected_under(t, x))).collect()),
        (T::Map(m), V::Map(vals)) if !m.is_empty() => {
            if let Some((_, t)) = crate::r#gen::is_wildcard(m) {
                V::Map(vals.iter().map(|(k, x)| (k.clone(), expected_under(t, x))).collect())
            } else {
                V::Map(vals.iter().filter_map(|(k, x)| m.get(k).map(|t| (k.clone(), expected_under(t, x)))).collect())
            }
        }
        (_, v) => v.clone(),
    }
}

impl State {
    fn declare(&mut self, fields: &[(String, bool, FieldType)], s: &Schema, ver: u64) {
        let names: BTreeSet<&String> = fields.iter().map(|f| &f.0).collect();
        // names that disappear lose their lineage
        self.lineage.retain(|n, _| names.contains(n) || n == "_id");
        for (n, _, _) in fields {
            if !self.lineage.contains_key(n) {
                self.next_lineage += 1;
                self.lineage.insert(n.clone(), self.next_lineage);
            }
        }
        self.lineage.entry("_id".into()).or_insert(0);
        self.declared = fields.iter().map(|(n, u, t)| (n.clone(), (t.clone(), *u))).collect();
        self.version = ver;
        for f in s.iter() {
            let lid = self.lineage[f.name()];
            self.bound.entry(f.idx()).or_insert((f.name().to_string(), lid));
        }
    }

    pub fn step(&mut self, l: &str) -> Option<Out> {
        let mut ts = Toks::new(l);
        let op = ts.next()?;
        let _hint = ts.next()?;
        match op {
            "compat" => {
                let n = parse_type(&mut ts)?;
                let o = parse_type(&mut ts)?;
                if !ts.done() {
                    return None;
                }
                let got = n.is_compatible_upgrade_of(&o);
                let mut r = out(if got { "true" } else { "false" });
                if !got && permitted_change(&n, &o) {
                    r.failures.push(("compat-refuses-permitted".into(), "is_compatible_upgrade_of refuses a permitted type change".into(), "true".into(), "false".into()));
                }
                if got && !permitted_change(&n, &o) {
                    r.failures.push(("compat-accepts-forbidden".into(), "is_compatible_upgrade_of accepts a type change that is not permitted".into(), "false".into(), "true".into()));
                }
                r.nontrivial = got;
                r.hits.push(format!("compat:{got}"));
                Some(r)
            }
            "ext" => {
                let ft = parse_type(&mut ts)?;
                let c = parse_cbor(&mut ts)?;
                if !ts.done() {
                    return None;
                }
                let mut b = Schema::builder();
                b.add_field(FieldEntry::new("v".into(), ft.clone()).ok()?).ok()?;
                let schema = Arc::new(b.build().ok()?);
                let val = Cbor::Map(vec![(Cbor::Text("_id".into()), Cbor::Integer(1.into())), (Cbor::Text("v".into()), c)]);
                match Document::try_from(schema.clone(), &val) {
                    Err(_) => {
                        let mut r = out("err");
                        r.hits.push("ext:err".into());
                        Some(r)
                    }
                    Ok(doc) => {
                        let stored = doc.get_field("v").cloned()?;
                        let mut r = out(format!("ok {}", show_value(&stored)));
                        r.nontrivial = true;
                        r.hits.push("ext:ok".into());
                        // the typed path is strict: the stored value is in the declared variant
                        if let Err(why) = oracle::field_conforms(&ft, &stored, false) {
                            r.failures.push((format!("typed-accepts-invalid:{why}"), "Document::try_from stored a value that violates its declared type".into(), format!("err ({why})"), show_value(&stored)));
                        } else if let Err(why) = oracle::field_conforms(&ft, &stored, true) {
                            // an absent Json-typed key is the recorded finding F1 (same root cause)
                            r.failures.push((if why.ends_with("@Json") { "json-field-holds-non-json".to_string() } else { format!("typed-not-declared-variant:{why}") }, "Document::try_from stored a value that is not in the declared variant".into(), "declared variant".into(), show_value(&stored)));
                        }
                        // accepted on write ⇒ accepted on read, unchanged
                        let mut buf = Vec::new();
                        match cbor2::to_writer(&doc, &mut buf) {
                            Err(_) => r.hits.push("ext:unserializable".into()),
                            Ok(()) => match cbor2::from_reader::<DocumentOwned, _>(&buf[..]).map_err(|_| "err:de").and_then(|o| Document::try_from_doc(schema, o).map_err(|_| "err:read")) {
                                Err(e) => r.failures.push((format!("typed-accepted-then-unreadable:{e}"), "accepted by Document::try_from but rejected on read".into(), "ok".into(), e.into())),
                                Ok(back) => {
                                    let read = back.get_field("v").cloned().unwrap_or(FieldValue::Null);
                                    if !oracle::same_declared(&ft, &stored, &read) {
                                        r.failures.push(("typed-read-differs".into(), "value read back differs from the one Document::try_from stored".into(), show_value(&stored), show_value(&read)));
                                    }
                                }
                            },
                        }
                        Some(r)
                    }
                }
            }
            "schema" => {
                let (ver, fields) = parse_fields(&mut ts)?;
                *self = State::default();
                match build(ver, &fields) {
                    None => Some(out("err")),
                    Some(s) => {
                        self.declare(&fields, &s, ver);
                        let text = show_schema(&s);
                        self.schema = Some(Arc::new(s));
                        let mut r = out(text);
                        r.nontrivial = true;
                        r.hits.push("schema:ok".into());
                        Some(r)
                    }
                }
            }
            "upgrade" => {
                let (ver, fields) = parse_fields(&mut ts)?;
                let cur = self.schema.clone()?;
                let Some(mut new) = build(ver, &fields) else {
                    let mut r = out("err");
                    r.hits.push("upgrade:unbuildable".into());
                    return Some(r);
                };
                // the oracle's own verdict
                let permitted = ver > self.version
                    && fields.iter().all(|(n, u, t)| match self.declared.get(n) {
                        Some((ot, ou)) => permitted_change(t, ot) && u == ou,
                        None => matches!(t, FieldType::Option(_)),
                    });
                match new.upgrade_with(&cur) {
                    Err(_) => {
                        let mut r = out("err");
                        r.hits.push("upgrade:err".into());
                        if permitted {
                            r.failures.push(("upgrade-refuses-permitted".into(), "upgrade_with refused a permitted upgrade".into(), "ok".into(), "err".into()));
                        }
                        Some(r)
                    }
                    Ok(()) => {
                        let mut r = out(show_schema(&new));
                        r.nontrivial = true;
                        r.hits.push("upgrade:ok".into());
                        if !permitted {
                            r.failures.push(("upgrade-accepts-forbidden".into(), "upgrade_with accepted an upgrade that is not permitted".into(), "err".into(), r.text.clone()));
                        }
                        // index stability: kept names keep their index, new names get a never-bound one
                        let old_lineage = self.lineage.clone();
                        for f in new.iter() {
                            match cur.get_field(f.name()) {
                                Some(of) if of.idx() != f.idx() => r.failures.push((
                                    "upgrade-moves-index".into(),
                                    "a field kept across an upgrade changed its index".into(),
                                    format!("{}:{}", f.name(), of.idx()),
                                    format!("{}:{}", f.name(), f.idx()),
                                )),
                                None if self.bound.contains_key(&f.idx()) => r.failures.push((
                                    "upgrade-reuses-index".into(),
                                    "a new field was given an index that an earlier field of this schema lineage used".into(),
                                    format!("an index never bound before ({:?} were)", self.bound.keys().collect::<Vec<_>>()),
                                    format!("{}:{} (was {:?})", f.name(), f.idx(), self.bound[&f.idx()]),
                                )),
                                _ => {}
                            }
                        }
                        let _ = old_lineage;
                        // nested keys this upgrade removes are retired for every document written so far
                        for (n, _, t) in &fields {
                            if let Some((ot, _)) = self.declared.get(n) {
                                let (mut before, mut after) = (BTreeSet::new(), BTreeSet::new());
                                key_paths(ot, "", &mut before);
                                key_paths(t, "", &mut after);
                                if untyped_became_keyed(t, ot) {
                                    for w in &mut self.written {
                                        w.became_keyed.insert(n.clone());
                                    }
                                }
                                let gone: Vec<String> = before.difference(&after).cloned().collect();
                                if !gone.is_empty() {
                                    for w in &mut self.written {
                                        w.retired.entry(n.clone()).or_default().extend(gone.iter().cloned());
                                    }
                                }
                            }
                        }
                        self.declare(&fields, &new, ver);
                        self.schema = Some(Arc::new(new));
                        Some(r)
                    }
                }
            }
            "put" | "typed" => {
                let n: usize = ts.next()?.parse().ok()?;
                let schema = self.schema.clone()?;
                let doc = if op == "put" {
                    let mut fs = Vec::new();
                    for _ in 0..n {
                        let name = ts.next()?.to_string();
                        fs.push((name, parse_value(&mut ts)?));
                    }
                    if !ts.done() {
                        return None;
                    }
                    let mut doc = Document::new(schema.clone());
                    doc.set_id(1);
                    let mut ok = true;
                    for (name, v) in &fs {
                        if doc.set_field(name, v.clone()).is_err() {
                            ok = false;
                            break;
                        }
                    }
                    ok.then_some(doc)
                } else {
                    let mut fs = Vec::new();
                    for _ in 0..n {
                        let name = ts.next()?.to_string();
                        fs.push((Cbor::Text(name), parse_cbor(&mut ts)?));
                    }
                    if !ts.done() {
                        return None;
                    }
                    Document::try_from(schema.clone(), &Cbor::Map(fs)).ok()
                };
                let Some(doc) = doc else {
                    let mut r = out("err");
                    r.hits.push(format!("{op}:err"));
                    return Some(r);
                };
                let mut buf = Vec::new();
                if cbor2::to_writer(&doc, &mut buf).is_err() {
                    let mut r = out("err:ser");
                    r.hits.push(format!("{op}:err:ser"));
                    return Some(r);
                }
                let mut r = out(format!("ok {}", self.docs.len()));
                r.nontrivial = true;
                r.hits.push(format!("{op}:ok"));
                // nothing invalid gets in: every stored field conforms, every required field is there
                let mut w = Written { fields: BTreeMap::new(), retired: BTreeMap::new(), became_keyed: BTreeSet::new() };
                for f in schema.iter() {
                    match doc.get_field(f.name()) {
                        Some(v) => {
                            if let Err(why) = oracle::field_conforms(f.r#type(), v, false) {
                                r.failures.push((format!("{op}-accepts-invalid:{why}"), "a document with a field violating its declared type was accepted".into(), format!("err ({why})"), show_value(v)));
                            }
                            w.fields.insert(f.name().to_string(), (v.clone(), self.lineage.get(f.name()).copied().unwrap_or(0)));
                        }
                        None if f.required() && op == "typed" => {
                            r.failures.push(("typed-accepts-missing-required".into(), "a document without a required field was accepted".into(), "err".into(), f.name().into()));
                        }
                        None => {}
                    }
                }
                self.docs.push(buf);
                self.written.push(w);
                Some(r)
            }
            "get" => {
                let k: usize = ts.next()?.parse().ok()?;
                if !ts.done() {
                    return None;
                }
                let schema = self.schema.clone()?;
                let Some(bytes) = self.docs.get(k) else {
                    let mut r = out("nodoc");
                    r.hits.push("get:nodoc".into());
                    return Some(r);
                };
                let w = self.written[k].clone();
                // the document was complete when written?  (set_field does not check required fields)
                let owned: DocumentOwned = match cbor2::from_reader(&bytes[..]) {
                    Ok(o) => o,
                    Err(_) => {
                        let mut r = out("err:de");
                        r.failures.push(("stored-undecodable".into(), "a stored document does not decode".into(), "ok".into(), "err:de".into()));
                        return Some(r);
                    }
                };
                match Document::try_from_doc(schema.clone(), owned) {
                    Err(e) => {
                        let mut r = out("err:read");
                        r.hits.push("get:err:read".into());
                        // legitimate only when a field required *now* was never written (incomplete put)
                        let incomplete = schema.iter().any(|f| f.required() && !w.fields.contains_key(f.name()));
                        // a nested key that was removed after the document was written is declared again
                        let readded = schema.iter().any(|f| {
                            let mut now = BTreeSet::new();
                            key_paths(f.r#type(), "", &mut now);
                            w.retired.get(f.name()).is_some_and(|gone| gone.iter().any(|p| now.contains(p)))
                        });
                        if !incomplete {
                            r.failures.push((
                                if readded {
                                    "nested-key-readded:old-document-unreadable".into()
                                } else if schema.iter().any(|f| w.became_keyed.contains(f.name())) {
                                    "untyped-map-became-keyed:old-document-unreadable".into()
                                } else {
                                    "old-document-unreadable".into()
                                },
                                "a document accepted under an earlier (or the same) schema is rejected on read".into(),
                                "readable".into(),
                                format!("{e}"),
                            ));
                        }
                        Some(r)
                    }
                    Ok(doc) => {
                        let mut r = out(show_doc(&doc));
                        r.nontrivial = true;
                        r.hits.push("get:ok".into());
                        for f in schema.iter() {
                            let got = doc.get_field(f.name());
                            let lid = self.lineage.get(f.name()).copied().unwrap_or(0);
                            match w.fields.get(f.name()) {
                                Some((v, wl)) if *wl == lid => {
                                    // surviving field: unchanged (minus removed nested keys)
                                    let want = expected_under(f.r#type(), v);
                                    let empty = BTreeSet::new();
                                    let gone = w.retired.get(f.name()).unwrap_or(&empty);
                                    let want_clean = drop_retired(f.r#type(), &want, "", gone);
                                    match got {
                                        Some(g) if oracle::same_declared(f.r#type(), &want_clean, g) => {}
                                        Some(g) if oracle::same_declared(f.r#type(), &want, g) => r.failures.push((
                                            "nested-key-readded:stale-value-resurrected".into(),
                                            "a value written under a nested key that was removed shows up under the key declared again later".into(),
                                            format!("{}={}", f.name(), show_value(&want_clean)),
                                            format!("{}={}", f.name(), show_value(g)),
                                        )),
                                        other => r.failures.push((
                                            "surviving-field-changed".into(),
                                            "a field that survived every upgrade does not read back as written".into(),
                                            format!("{}={}", f.name(), show_value(&want)),
                                            format!("{}={}", f.name(), other.map_or("<absent>".into(), show_value)),
                                        )),
                                    }
                                }
                                _ => {
                                    // removed-and-re-added or never written: nothing may appear
                                    if let Some(g) = got {
                                        r.failures.push((
                                            "stale-value-resurrected".into(),
                                            "a value written for a removed field shows up under a field declared later".into(),
                                            format!("{} absent", f.name()),
                                            format!("{}={}", f.name(), show_value(g)),
                                        ));
                                    }
                                }
                            }
                        }
                        // nothing outside the schema survives
                        if doc.fields().keys().any(|i| !schema.contains_idx(*i)) {
                            r.failures.push(("undeclared-index-kept".into(), "a value under an index the schema does not declare was kept".into(), "dropped".into(), r.text.clone()));
                        }
                        Some(r)
                    }
                }
            }
            _ => None,
        }
    }
}

// ------------------------------------------------------------------------------------ generators

use vh_common::Rng;

/// Harness-side CBOR image of a value (the typed path's input), with the shapes serde produces:
/// F32 widened, Vector as integers, optionally Bytes as an integer array.
pub fn to_cbor(v: &FieldValue, r: &mut Rng) -> Cbor {
    match v {
        FieldValue::Bool(b) => Cbor::Bool(*b),
        FieldValue::I64(i) => Cbor::Integer((*i).into()),
        FieldValue::U64(u) => Cbor::Integer((*u).into()),
        FieldValue::F64(f) => Cbor::Float(*f),
        FieldValue::F32(f) => Cbor::Float(*f as f64),
        FieldValue::Bytes(b) => {
            if r.chance(1, 3) { Cbor::Array(b.iter().map(|x| Cbor::Integer((*x).into())).collect()) } else { Cbor::Bytes(b.clone()) }
        }
        FieldValue::Text(s) => Cbor::Text(s.clone()),
        FieldValue::Json(j) => to_cbor(&crate::r#gen::json_shape(j), r),
        FieldValue::Vector(xs) => Cbor::Array(xs.iter().map(|x| Cbor::Integer(x.to_bits().into())).collect()),
        FieldValue::Array(xs) => Cbor::Array(xs.iter().map(|x| to_cbor(x, r)).collect()),
        FieldValue::Map(m) => Cbor::Map(
            m.iter()
                .map(|(k, x)| {
                    (
                        match k {
                            FieldKey::Text(s) => Cbor::Text(s.clone()),
                            FieldKey::I64(i) => Cbor::Integer((*i).into()),
                            FieldKey::Bytes(b) => Cbor::Bytes(b.clone()),
                        },
                        to_cbor(x, r),
                    )
                })
                .collect(),
        ),
        FieldValue::Null => Cbor::Null,
    }
}

/// One CBOR-level mutation (things a `FieldValue` cannot express).
pub fn mutate_cbor(c: &Cbor, r: &mut Rng) -> Cbor {
    match c {
        Cbor::Array(xs) if !xs.is_empty() && r.chance(2, 3) => {
            let mut xs = xs.clone();
            let i = r.usize(xs.len());
            xs[i] = mutate_cbor(&xs[i], r);
            Cbor::Array(xs)
        }
        Cbor::Map(m) if !m.is_empty() => {
            let mut m = m.clone();
            let i = r.usize(m.len());
            match r.below(3) {
                0 => {
                    // duplicate key (adjacent, so the order of the rest is untouched)
                    let e = m[i].clone();
                    m.insert(i, e);
                }
                1 => m[i].0 = Cbor::Bool(true),
                _ => m[i].1 = mutate_cbor(&m[i].1.clone(), r),
            }
            Cbor::Map(m)
        }
        Cbor::Integer(_) => match r.below(4) {
            0 => Cbor::Integer(cbor2::value::Integer::try_from(u64::MAX as i128 + 0).unwrap()),
            1 => Cbor::Integer(cbor2::value::Integer::try_from(i64::MIN as i128 - 1).unwrap()),
            2 => Cbor::Integer(256.into()),
            _ => Cbor::Float(1.0),
        },
        Cbor::Float(_) => match r.below(3) {
            0 => Cbor::Float(f64::NAN),
            1 => Cbor::Float(1e300),
            _ => Cbor::Integer(1.into()),
        },
        Cbor::Text(_) => Cbor::Bytes(b"x".to_vec()),
        Cbor::Bytes(_) => Cbor::Text("x".into()),
        Cbor::Bool(_) => Cbor::Null,
        _ => Cbor::Bool(true),
    }
}
