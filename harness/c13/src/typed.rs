//! Derive-macro structs covering the supported Rust types: `T → Document::try_from → cbor2 bytes →
//! DocumentOwned → Document::try_from_doc → try_into::<T>()` must reproduce `T`, and the struct
//! evolution V1 → V2 → V3 (nested key gained / lost, top-level field removed and re-added) must
//! keep old documents readable. Oracle only (no model): this is the glue the derive crates add.

use anda_db_schema::{AndaDBSchema, ByteBufB64, Document, DocumentOwned, FieldTyped, Schema, bf16};
use serde::{Deserialize, Serialize};
use std::collections::{BTreeMap, BTreeSet, HashMap};
use std::sync::Arc;
use vh_common::{Report, Rng};

#[derive(Debug, Clone, PartialEq, Serialize, Deserialize, FieldTyped)]
pub struct Inner {
    pub flag: bool,
    pub small: i16,
    pub ratio: Option<f32>,
    pub names: Vec<String>,
    pub emb: Option<Vec<bf16>>,
}

#[derive(Debug, Clone, PartialEq, Serialize, Deserialize, AndaDBSchema)]
pub struct Wide {
    pub _id: u64,
    pub b: bool,
    pub i_8: i8,
    pub i_16: i16,
    pub i_32: i32,
    pub i_64: i64,
    pub u_8: u8,
    pub u_16: u16,
    pub u_32: u32,
    pub u_64: u64,
    pub f_32: f32,
    pub f_64: f64,
    pub text: String,
    pub bytes: Vec<u8>,
    pub fixed: [u8; 4],
    pub vector: Vec<bf16>,
    pub ints: Vec<i64>,
    pub floats: Vec<f32>,
    pub set: BTreeSet<u32>,
    pub opt_i: Option<i64>,
    pub opt_f: Option<f32>,
    pub opt_text: Option<String>,
    pub opt_vec: Option<Vec<Option<i32>>>,
    pub by_name: BTreeMap<String, i64>,
    pub by_num: BTreeMap<i64, f32>,
    /// (`BTreeMap<Vec<u8>, _>` is accepted by the derive macro but serde writes such keys as integer
    /// sequences, which `Document::try_from` refuses: see notes/C13.md)
    pub by_bytes: BTreeMap<ByteBufB64, u16>,
    pub hashed: HashMap<String, Vec<u8>>,
    pub inner: Inner,
    pub inners: Vec<Inner>,
    pub opt_inner: Option<Box<Inner>>,
    pub json: serde_json::Value,
    pub nested: BTreeMap<String, Vec<Option<f32>>>,
}

fn f32v(r: &mut Rng) -> f32 {
    f32::from_bits(crate::r#gen::f32_bits(r))
}

fn text(r: &mut Rng) -> String {
    crate::r#gen::gen_text(r)
}

fn inner(r: &mut Rng) -> Inner {
    Inner {
        flag: r.chance(1, 2),
        small: *r.pick(&[0i16, -1, i16::MIN, i16::MAX, 7]),
        ratio: if r.chance(1, 3) { None } else { Some(f32v(r)) },
        names: (0..r.below(3)).map(|_| text(r)).collect(),
        emb: if r.chance(1, 3) { None } else { Some(crate::r#gen::gen_vector(r)) },
    }
}

fn json(r: &mut Rng) -> serde_json::Value {
    crate::r#gen::gen_json(r, 3)
}

pub fn wide(r: &mut Rng) -> Wide {
    Wide {
        _id: 1 + r.below(1000),
        b: r.chance(1, 2),
        i_8: *r.pick(&[0i8, -1, i8::MIN, i8::MAX]),
        i_16: *r.pick(&[0i16, -1, i16::MIN, i16::MAX]),
        i_32: *r.pick(&[0i32, -1, i32::MIN, i32::MAX]),
        i_64: crate::r#gen::gen_i64(r),
        u_8: *r.pick(&[0u8, 1, u8::MAX]),
        u_16: *r.pick(&[0u16, 1, u16::MAX]),
        u_32: *r.pick(&[0u32, 1, u32::MAX]),
        u_64: crate::r#gen::gen_u64(r),
        f_32: f32v(r),
        f_64: f64::from_bits(crate::r#gen::f64_bits(r)),
        text: text(r),
        bytes: crate::r#gen::gen_bytes(r),
        fixed: [r.below(256) as u8, 0, 255, r.below(256) as u8],
        vector: crate::r#gen::gen_vector(r),
        ints: (0..r.below(4)).map(|_| crate::r#gen::gen_i64(r)).collect(),
        floats: (0..r.below(4)).map(|_| f32v(r)).collect(),
        set: (0..r.below(4)).map(|_| r.below(10) as u32).collect(),
        opt_i: if r.chance(1, 3) { None } else { Some(crate::r#gen::gen_i64(r)) },
        opt_f: if r.chance(1, 3) { None } else { Some(f32v(r)) },
        opt_text: if r.chance(1, 3) { None } else { Some(text(r)) },
        opt_vec: if r.chance(1, 3) { None } else { Some((0..r.below(4)).map(|_| if r.chance(1, 3) { None } else { Some(r.range(-5, 5) as i32) }).collect()) },
        by_name: (0..r.below(4)).map(|_| (text(r), crate::r#gen::gen_i64(r))).collect(),
        by_num: (0..r.below(4)).map(|_| (*r.pick(&[0i64, -1, 5, i64::MAX, i64::MIN + 1]), f32v(r))).collect(),
        by_bytes: (0..r.below(3)).map(|_| (ByteBufB64(crate::r#gen::gen_bytes(r)), r.below(65536) as u16)).collect(),
        hashed: (0..r.below(3)).map(|_| (text(r), crate::r#gen::gen_bytes(r))).collect(),
        inner: inner(r),
        inners: (0..r.below(3)).map(|_| inner(r)).collect(),
        opt_inner: if r.chance(1, 2) { None } else { Some(Box::new(inner(r))) },
        json: json(r),
        nested: (0..r.below(3)).map(|_| (text(r), (0..r.below(3)).map(|_| if r.chance(1, 3) { None } else { Some(f32v(r)) }).collect())).collect(),
    }
}

/// bit-exact rendering (Debug distinguishes -0.0 from 0.0; floats never NaN here)
fn show<T: std::fmt::Debug>(t: &T) -> String {
    format!("{t:?}")
}

/// `HashMap` iteration order is not data
fn show_wide(t: &Wide) -> String {
    let mut c = t.clone();
    let h: BTreeMap<String, Vec<u8>> = c.hashed.drain().collect();
    format!("{c:?} hashed={h:?}")
}

fn store_load(schema: Arc<Schema>, doc: &Document) -> Result<Document, String> {
    let mut buf = Vec::new();
    cbor2::to_writer(doc, &mut buf).map_err(|e| format!("encode: {e}"))?;
    let owned: DocumentOwned = cbor2::from_reader(&buf[..]).map_err(|e| format!("decode: {e}"))?;
    Document::try_from_doc(schema, owned).map_err(|e| format!("try_from_doc: {e}"))
}

// ---- struct evolution: nested key gained (optional) and lost, top-level field removed / re-added

#[derive(Debug, Clone, PartialEq, Serialize, Deserialize, FieldTyped)]
pub struct ProfV1 {
    pub nick: String,
    pub score: i32,
}
#[derive(Debug, Clone, PartialEq, Serialize, Deserialize, FieldTyped)]
pub struct ProfV2 {
    pub nick: String,
    pub score: i32,
    pub motto: Option<String>,
}
#[derive(Debug, Clone, PartialEq, Serialize, Deserialize, FieldTyped)]
pub struct ProfV3 {
    pub nick: String,
    pub motto: Option<String>,
}
#[derive(Debug, Clone, PartialEq, Serialize, Deserialize, AndaDBSchema)]
pub struct UserV1 {
    pub _id: u64,
    pub name: String,
    pub age: Option<u32>,
    pub prof: ProfV1,
}
#[derive(Debug, Clone, PartialEq, Serialize, Deserialize, AndaDBSchema)]
pub struct UserV2 {
    pub _id: u64,
    pub name: String,
    pub prof: ProfV2,
    pub tags: Option<Vec<String>>,
}
#[derive(Debug, Clone, PartialEq, Serialize, Deserialize, AndaDBSchema)]
pub struct UserV3 {
    pub _id: u64,
    pub name: String,
    pub prof: ProfV3,
    pub tags: Option<Vec<String>>,
    /// same name as the field removed in V2, another type: must not see the old values
    pub age: Option<String>,
}

pub fn run(seed: u64, n: u64, rep: &mut Report) {
    let schema = match Wide::schema() {
        Ok(s) => Arc::new(s),
        Err(e) => {
            rep.oracle_failure("derive-schema", "AndaDBSchema derive of the covering struct fails", &[], "a schema", &format!("{e}"));
            return;
        }
    };
    for i in 0..n {
        let mut r = Rng::for_case(seed ^ 0x7E57, i);
        let t = wide(&mut r);
        let ops = vec![format!("typed-struct seed={seed} case={i}")];
        let res = std::panic::catch_unwind(std::panic::AssertUnwindSafe(|| -> Result<(), (String, String, String)> {
            let doc = Document::try_from(schema.clone(), &t).map_err(|e| ("derive-typed-rejected".to_string(), "valid typed value".to_string(), format!("{e}")))?;
            // convert straight back
            let back: Wide = doc.clone().try_into().map_err(|e| ("derive-try-into".to_string(), "T".to_string(), format!("{e}")))?;
            if show_wide(&back) != show_wide(&t) {
                return Err(("derive-typed-roundtrip".into(), show_wide(&t), show_wide(&back)));
            }
            // through the stored form
            let read = store_load(schema.clone(), &doc).map_err(|e| ("derive-accepted-then-unreadable".to_string(), "readable".to_string(), e))?;
            for f in schema.iter() {
                let (a, b) = (doc.get_field(f.name()), read.get_field(f.name()));
                let same = match (a, b) {
                    (Some(a), Some(b)) => crate::oracle::same_declared(f.r#type(), a, b),
                    (None, None) => true,
                    _ => false,
                };
                if !same {
                    return Err(("derive-read-differs".into(), format!("{}={:?}", f.name(), a), format!("{}={:?}", f.name(), b)));
                }
                if let Some(a) = a
                    && let Err(why) = crate::oracle::field_conforms(f.r#type(), a, true)
                {
                    return Err((format!("derive-not-declared-variant:{why}"), "declared variant".into(), format!("{}={:?}", f.name(), a)));
                }
            }
            let again: Wide = read.try_into().map_err(|e| ("derive-try-into-after-read".to_string(), "T".to_string(), format!("{e}")))?;
            if show_wide(&again) != show_wide(&t) {
                return Err(("derive-typed-roundtrip-stored".into(), show_wide(&t), show_wide(&again)));
            }
            Ok(())
        }));
        match res {
            Ok(Ok(())) => {
                rep.case(&format!("typed-struct {}", show_wide(&t)), true);
                rep.hit("typed-struct:roundtrip");
            }
            Ok(Err((key, exp, obs))) => {
                rep.case(&format!("typed-struct {}", show_wide(&t)), false);
                rep.hit(&format!("oracle:{key}"));
                rep.oracle_failure(&key, "derive-macro struct does not survive Document / storage round trip", &ops, &exp, &obs);
            }
            Err(_) => rep.oracle_failure("derive-panic", "panic in the typed round trip", &ops, "no panic", "panic"),
        }
    }
    evolution(seed, n.min(200), rep);
}

fn evolution(seed: u64, n: u64, rep: &mut Report) {
    let build = || -> Result<(Arc<Schema>, Arc<Schema>, Arc<Schema>), String> {
        let mut s1 = UserV1::schema().map_err(|e| e.to_string())?;
        s1.with_version(1);
        let mut s2 = UserV2::schema().map_err(|e| e.to_string())?;
        s2.with_version(2);
        s2.upgrade_with(&s1).map_err(|e| format!("V1→V2: {e}"))?;
        let mut s3 = UserV3::schema().map_err(|e| e.to_string())?;
        s3.with_version(3);
        s3.upgrade_with(&s2).map_err(|e| format!("V2→V3: {e}"))?;
        Ok((Arc::new(s1), Arc::new(s2), Arc::new(s3)))
    };
    let (s1, s2, s3) = match build() {
        Ok(x) => x,
        Err(e) => {
            rep.oracle_failure("derive-upgrade-refused", "a permitted struct evolution is refused", &[], "accepted", &e);
            return;
        }
    };
    if s3.get_field("age").map(|f| f.idx()) == s1.get_field("age").map(|f| f.idx()) {
        rep.oracle_failure("upgrade-reuses-index", "re-added field got the index of the removed one", &[], "fresh index", "same index");
    }
    for i in 0..n {
        let mut r = Rng::for_case(seed ^ 0xE701, i);
        let u1 = UserV1 {
            _id: 1 + i,
            name: text(&mut r),
            age: if r.chance(1, 3) { None } else { Some(r.below(120) as u32) },
            prof: ProfV1 { nick: text(&mut r), score: r.range(-9, 9) as i32 },
        };
        let ops = vec![format!("struct-evolution seed={seed} case={i}")];
        let res = (|| -> Result<(), (String, String, String)> {
            let d1 = Document::try_from(s1.clone(), &u1).map_err(|e| ("derive-typed-rejected".to_string(), "accepted".to_string(), e.to_string()))?;
            let mut buf = Vec::new();
            cbor2::to_writer(&d1, &mut buf).map_err(|e| ("derive-encode".to_string(), "ok".to_string(), e.to_string()))?;
            let read = |s: &Arc<Schema>| -> Result<Document, (String, String, String)> {
                let owned: DocumentOwned = cbor2::from_reader(&buf[..]).map_err(|e| ("stored-undecodable".to_string(), "ok".to_string(), e.to_string()))?;
                Document::try_from_doc(s.clone(), owned).map_err(|e| ("old-document-unreadable".to_string(), "readable".to_string(), e.to_string()))
            };
            let v2: UserV2 = read(&s2)?.try_into().map_err(|e| ("derive-try-into-after-upgrade".to_string(), "UserV2".to_string(), format!("{e}")))?;
            let want2 = UserV2 { _id: u1._id, name: u1.name.clone(), prof: ProfV2 { nick: u1.prof.nick.clone(), score: u1.prof.score, motto: None }, tags: None };
            if v2 != want2 {
                return Err(("surviving-field-changed".into(), show(&want2), show(&v2)));
            }
            let v3: UserV3 = read(&s3)?.try_into().map_err(|e| ("derive-try-into-after-upgrade".to_string(), "UserV3".to_string(), format!("{e}")))?;
            let want3 = UserV3 { _id: u1._id, name: u1.name.clone(), prof: ProfV3 { nick: u1.prof.nick.clone(), motto: None }, tags: None, age: None };
            if v3 != want3 {
                return Err((if v3.age.is_some() { "stale-value-resurrected" } else { "surviving-field-changed" }.into(), show(&want3), show(&v3)));
            }
            Ok(())
        })();
        match res {
            Ok(()) => {
                rep.case(&format!("struct-evolution {}", show(&u1)), true);
                rep.hit("struct-evolution:ok");
            }
            Err((key, exp, obs)) => {
                rep.hit(&format!("oracle:{key}"));
                rep.oracle_failure(&key, "a document written under an older struct version does not read as expected after the upgrade", &ops, &exp, &obs);
            }
        }
    }
}
