//! Independent statement of the property, written against the *documentation* of the types
//! (what a `FieldType` declares), not against `FieldType::validate` and not against the Lean
//! model. Recursive, no sharing with the code under test.

use anda_db_schema::{FieldKey, FieldType, FieldValue, Json};
use std::collections::BTreeMap;

pub const MAX_DEPTH: usize = 64;
pub const MAX_NODES: usize = 16_384;
pub const MAX_ARRAY: usize = 4_096;
pub const MAX_MAP: usize = 4_096;

#[derive(Clone, Copy, Debug)]
pub struct Budget {
    pub depth: usize,
    pub nodes: usize,
    pub array: usize,
    pub map: usize,
}

pub const DEFAULT_BUDGET: Budget = Budget { depth: MAX_DEPTH, nodes: MAX_NODES, array: MAX_ARRAY, map: MAX_MAP };

/// (nodes, deepest node depth, longest array, largest map) — plain recursion.
#[derive(Default, Debug)]
pub struct Measure {
    pub nodes: usize,
    pub depth: usize,
    pub array: usize,
    pub map: usize,
}

fn measure_json(j: &Json, d: usize, m: &mut Measure) {
    m.nodes += 1;
    m.depth = m.depth.max(d);
    match j {
        Json::Array(xs) => {
            m.array = m.array.max(xs.len());
            xs.iter().for_each(|x| measure_json(x, d + 1, m));
        }
        Json::Object(o) => {
            m.map = m.map.max(o.len());
            o.values().for_each(|x| measure_json(x, d + 1, m));
        }
        _ => {}
    }
}

pub fn measure(v: &FieldValue, d: usize, m: &mut Measure) {
    m.nodes += 1;
    m.depth = m.depth.max(d);
    match v {
        FieldValue::Array(xs) => {
            m.array = m.array.max(xs.len());
            xs.iter().for_each(|x| measure(x, d + 1, m));
        }
        FieldValue::Map(o) => {
            m.map = m.map.max(o.len());
            o.values().for_each(|x| measure(x, d + 1, m));
        }
        FieldValue::Json(j) => measure_json(j, d + 1, m),
        _ => {}
    }
}

pub fn within_budget(v: &FieldValue, b: Budget) -> bool {
    let mut m = Measure::default();
    measure(v, 0, &mut m);
    m.nodes <= b.nodes && m.depth <= b.depth && m.array <= b.array && m.map <= b.map
}

/// The JSON clause as `serde_json` (ryu) prints an f32: the parse of *its* shortest decimal.
pub fn json_clause_ryu(v: f64) -> bool {
    if v.is_nan() {
        return false;
    }
    let f = v as f32;
    if !f.is_finite() {
        return false;
    }
    let s = serde_json::to_string(&f).unwrap();
    matches!(s.parse::<f64>(), Ok(p) if p == v)
}

/// The JSON clause as the code states it (`format!("{f}")`, Rust's `Display`). The two printers
/// agree except on ties between two equally short decimals (e.g. 38312.0625f32 is "38312.063" for
/// `Display` and "38312.062" for ryu); see notes/C13.md. This one is what the model is given as
/// its hint, because it is the code's definition.
pub fn json_clause(v: f64) -> bool {
    if v.is_nan() {
        return false;
    }
    let f = v as f32;
    if !f.is_finite() {
        return false;
    }
    matches!(format!("{f}").parse::<f64>(), Ok(p) if p == v)
}

/// Our own statement of "an f64 that a stored f32 can read back as": exact widening (CBOR) or the
/// parse of a shortest round-trip decimal of the nearest f32 (JSON; either printer).
pub fn f32_read_back(v: f64) -> bool {
    if v.is_nan() {
        return false;
    }
    let f = v as f32;
    if f.is_infinite() && v.is_finite() {
        return false;
    }
    (f as f64) == v || json_clause(v) || json_clause_ryu(v)
}

fn wildcard_of(m: &BTreeMap<FieldKey, FieldType>) -> Option<(&FieldKey, &FieldType)> {
    if m.len() != 1 {
        return None;
    }
    let (k, t) = m.iter().next().unwrap();
    let is = match k {
        FieldKey::Text(s) => s == "*",
        FieldKey::Bytes(b) => b == b"*",
        FieldKey::I64(i) => *i == i64::MIN,
    };
    is.then_some((k, t))
}

fn same_variant(a: &FieldKey, b: &FieldKey) -> bool {
    matches!((a, b), (FieldKey::Text(_), FieldKey::Text(_)) | (FieldKey::I64(_), FieldKey::I64(_)) | (FieldKey::Bytes(_), FieldKey::Bytes(_)))
}

/// Does `v` conform to what `ft` declares? `strict`: only the declared variant; otherwise the
/// documented read-back shapes are conforming too (I64 ← U64 ≤ i64::MAX, F32 ← read-back F64,
/// Vector ← array of u16 bit patterns, Json ← anything JSON-like: the plain shape).
/// Returns the violated clause of the property: "type", "null", "keyset", "keytype", "arity".
pub fn kind(ft: &FieldType) -> &'static str {
    match ft {
        FieldType::Bool => "Bool",
        FieldType::I64 => "I64",
        FieldType::U64 => "U64",
        FieldType::F64 => "F64",
        FieldType::F32 => "F32",
        FieldType::Bytes => "Bytes",
        FieldType::Text => "Text",
        FieldType::Json => "Json",
        FieldType::Vector => "Vector",
        FieldType::Array(_) => "Array",
        FieldType::Map(_) => "Map",
        FieldType::Option(_) => "Option",
    }
}

pub fn conforms(ft: &FieldType, v: &FieldValue, strict: bool) -> Result<(), String> {
    conforms_at(ft, v, strict).map_err(|(clause, k)| format!("{clause}@{k}"))
}

fn conforms_at(ft: &FieldType, v: &FieldValue, strict: bool) -> Result<(), (&'static str, &'static str)> {
    use FieldType as T;
    use FieldValue as V;
    let kd = kind(ft);
    match (ft, v) {
        (T::Option(_), V::Null) => Ok(()),
        (T::Option(t), v) => conforms_at(t, v, strict),
        // documented: Json is dynamically typed; the lenient reading accepts every shape
        (T::Json, V::Json(_)) => Ok(()),
        (T::Json, _) if !strict => Ok(()),
        (T::Json, _) => Err(("type", kd)),
        (_, V::Null) => Err(("null", kd)),
        (T::Bool, V::Bool(_)) => Ok(()),
        (T::I64, V::I64(_)) => Ok(()),
        (T::I64, V::U64(u)) if !strict && *u <= i64::MAX as u64 => Ok(()),
        (T::U64, V::U64(_)) => Ok(()),
        (T::F64, V::F64(f)) if !f.is_nan() => Ok(()),
        (T::F32, V::F32(f)) if !f.is_nan() => Ok(()),
        (T::F32, V::F64(f)) if !strict && f32_read_back(*f) => Ok(()),
        (T::Bytes, V::Bytes(_)) => Ok(()),
        (T::Text, V::Text(_)) => Ok(()),
        (T::Vector, V::Vector(_)) => Ok(()),
        (T::Vector, V::Array(xs)) if !strict && xs.iter().all(|x| matches!(x, V::U64(u) if *u <= 0xffff)) => Ok(()),
        (T::Array(ts), V::Array(xs)) => match ts.len() {
            0 => Ok(()),
            1 => xs.iter().try_for_each(|x| conforms_at(&ts[0], x, strict)),
            n => {
                if xs.len() != n {
                    return Err(("arity", kd));
                }
                ts.iter().zip(xs).try_for_each(|(t, x)| conforms_at(t, x, strict))
            }
        },
        (T::Map(m), V::Map(vals)) => {
            if m.is_empty() {
                return Ok(());
            }
            if let Some((w, t)) = wildcard_of(m) {
                for (k, x) in vals {
                    if !same_variant(k, w) {
                        return Err(("keytype", kd));
                    }
                    conforms_at(t, x, strict)?;
                }
                return Ok(());
            }
            if vals.keys().any(|k| !m.contains_key(k)) {
                return Err(("keyset", kd));
            }
            for (k, t) in m {
                match vals.get(k) {
                    Some(x) => conforms_at(t, x, strict)?,
                    // a missing key is an absent value
                    None => conforms_at(t, &V::Null, strict).map_err(|(_, inner)| ("keyset", inner))?,
                }
            }
            Ok(())
        }
        _ => Err(("type", kd)),
    }
}

/// Field-level: a top-level `Null` needs an `Option` type.
pub fn field_conforms(ft: &FieldType, v: &FieldValue, strict: bool) -> Result<(), String> {
    if *v == FieldValue::Null && !matches!(ft, FieldType::Option(_)) {
        return Err(format!("null@{}", kind(ft)));
    }
    if !within_budget(v, DEFAULT_BUDGET) {
        return Err("budget".into());
    }
    conforms(ft, v, strict)
}

/// The schema-less image of a value: what remains of it when no type is attached.
pub fn generic(v: &FieldValue) -> FieldValue {
    generic_mode(v, false)
}

/// `json`: the schema-less image through the JSON rendering (an f32 comes back as the f64 parse
/// of its shortest decimal instead of its exact widening).
pub fn generic_mode(v: &FieldValue, json: bool) -> FieldValue {
    use FieldValue as V;
    match v {
        V::I64(i) if *i >= 0 => V::U64(*i as u64),
        V::F32(f) if json && f.is_finite() => V::F64(serde_json::to_string(f).unwrap().parse().unwrap()),
        V::F32(f) => V::F64(*f as f64),
        V::Vector(xs) => V::Array(xs.iter().map(|x| V::U64(x.to_bits() as u64)).collect()),
        V::Json(j) => crate::r#gen::json_shape(j),
        V::Array(xs) => V::Array(xs.iter().map(|x| generic_mode(x, json)).collect()),
        V::Map(m) => V::Map(m.iter().map(|(k, x)| (k.clone(), generic_mode(x, json))).collect()),
        other => other.clone(),
    }
}

/// Bit-exact structural equality (floats by bit pattern; `-0.0 ≠ 0.0`, NaN payloads matter).
pub fn same_bits(a: &FieldValue, b: &FieldValue) -> bool {
    use FieldValue as V;
    match (a, b) {
        (V::F64(x), V::F64(y)) => x.to_bits() == y.to_bits(),
        (V::F32(x), V::F32(y)) => x.to_bits() == y.to_bits(),
        (V::Vector(x), V::Vector(y)) => x.len() == y.len() && x.iter().zip(y).all(|(p, q)| p.to_bits() == q.to_bits()),
        (V::Json(x), V::Json(y)) => same_json(x, y),
        (V::Array(x), V::Array(y)) => x.len() == y.len() && x.iter().zip(y).all(|(p, q)| same_bits(p, q)),
        (V::Map(x), V::Map(y)) => x.len() == y.len() && x.iter().zip(y).all(|((k, p), (l, q))| k == l && same_bits(p, q)),
        (V::Bool(x), V::Bool(y)) => x == y,
        (V::I64(x), V::I64(y)) => x == y,
        (V::U64(x), V::U64(y)) => x == y,
        (V::Bytes(x), V::Bytes(y)) => x == y,
        (V::Text(x), V::Text(y)) => x == y,
        (V::Null, V::Null) => true,
        _ => false,
    }
}

fn same_json(a: &Json, b: &Json) -> bool {
    match (a, b) {
        (Json::Number(x), Json::Number(y)) => {
            if x.is_f64() || y.is_f64() {
                x.is_f64() && y.is_f64() && x.as_f64().unwrap().to_bits() == y.as_f64().unwrap().to_bits()
            } else {
                x == y
            }
        }
        (Json::Array(x), Json::Array(y)) => x.len() == y.len() && x.iter().zip(y).all(|(p, q)| same_json(p, q)),
        (Json::Object(x), Json::Object(y)) => x.len() == y.len() && x.iter().zip(y).all(|((k, p), (l, q))| k == l && same_json(p, q)),
        _ => a == b,
    }
}

/// "Equal in the schema's declared variant": where `ft` declares a variant the two values must be
/// bit-identical in that variant; where it declares none (`Array([])`, `Map({})`, non-JSON
/// leftovers under `Json`) their schema-less images must be bit-identical.
pub fn same_declared(ft: &FieldType, a: &FieldValue, b: &FieldValue) -> bool {
    same_declared_mode(ft, a, b, false)
}

pub fn same_declared_mode(ft: &FieldType, a: &FieldValue, b: &FieldValue, json: bool) -> bool {
    use FieldType as T;
    use FieldValue as V;
    match (ft, a, b) {
        (T::Option(_), V::Null, V::Null) => true,
        (T::Option(t), a, b) => same_declared_mode(t, a, b, json),
        (T::Array(ts), V::Array(x), V::Array(y)) if ts.len() == 1 => x.len() == y.len() && x.iter().zip(y).all(|(p, q)| same_declared_mode(&ts[0], p, q, json)),
        (T::Array(ts), V::Array(x), V::Array(y)) if ts.len() >= 2 => {
            x.len() == y.len() && x.len() == ts.len() && ts.iter().zip(x.iter().zip(y)).all(|(t, (p, q))| same_declared_mode(t, p, q, json))
        }
        (T::Array(_), a, b) => same_bits(&generic_mode(a, json), &generic_mode(b, json)),
        (T::Map(m), V::Map(x), V::Map(y)) if !m.is_empty() => {
            if x.len() != y.len() {
                return false;
            }
            let w = wildcard_of(m);
            x.iter().zip(y).all(|((k, p), (l, q))| {
                k == l
                    && match w.map(|(_, t)| t).or_else(|| m.get(k)) {
                        Some(t) => same_declared_mode(t, p, q, json),
                        None => false,
                    }
            })
        }
        (T::Map(_), a, b) => same_bits(&generic_mode(a, json), &generic_mode(b, json)),
        (T::Json, V::Json(x), V::Json(y)) => same_json(x, y),
        (T::Json, a, b) => same_bits(&generic_mode(a, json), &generic_mode(b, json)),
        (_, a, b) => same_bits(a, b),
    }
}

/// Same data, whatever the variant: used to tie the *stored* value to the value the caller wrote
/// (`set_field` may fold a read-back shape into the declared variant, nothing else).
pub fn same_data(ft: &FieldType, written: &FieldValue, stored: &FieldValue) -> bool {
    use FieldType as T;
    use FieldValue as V;
    match (ft, written, stored) {
        (T::Option(_), V::Null, V::Null) => true,
        (T::Option(t), a, b) => same_data(t, a, b),
        (T::I64, V::U64(u), V::I64(i)) => *i >= 0 && *u == *i as u64,
        // the declared F32 nearest to the written F64 read-back shape
        (T::F32, V::F64(d), V::F32(f)) => (*d as f32).to_bits() == f.to_bits(),
        (T::Vector, V::Array(xs), V::Vector(bs)) => {
            xs.len() == bs.len() && xs.iter().zip(bs).all(|(x, b)| matches!(x, V::U64(u) if *u == b.to_bits() as u64))
        }
        (T::Json, a, V::Json(j)) if !matches!(a, V::Json(_)) => json_of_shape(a).is_some_and(|x| same_json(&x, j)),
        (T::Array(ts), V::Array(x), V::Array(y)) if ts.len() == 1 => x.len() == y.len() && x.iter().zip(y).all(|(p, q)| same_data(&ts[0], p, q)),
        (T::Array(ts), V::Array(x), V::Array(y)) if ts.len() >= 2 => {
            x.len() == y.len() && x.iter().zip(y).enumerate().all(|(i, (p, q))| match ts.get(i) {
                Some(t) => same_data(t, p, q),
                None => same_bits(p, q),
            })
        }
        (T::Map(m), V::Map(x), V::Map(y)) if !m.is_empty() => {
            if x.len() != y.len() {
                return false;
            }
            let w = wildcard_of(m);
            x.iter().zip(y).all(|((k, p), (l, q))| {
                k == l
                    && match w.map(|(_, t)| t).or_else(|| m.get(k)) {
                        Some(t) => same_data(t, p, q),
                        None => same_bits(p, q),
                    }
            })
        }
        (_, a, b) => same_bits(a, b),
    }
}

/// JSON reading of a plain value (what a `Json` field means when handed a non-`Json` variant):
/// only JSON-like shapes have one.
pub fn json_of_shape(v: &FieldValue) -> Option<Json> {
    use FieldValue as V;
    Some(match v {
        V::Null => Json::Null,
        V::Bool(b) => Json::Bool(*b),
        V::U64(u) => Json::Number((*u).into()),
        V::I64(i) => Json::Number((*i).into()),
        V::F64(f) => serde_json::Number::from_f64(*f).map(Json::Number).unwrap_or(Json::Null),
        V::F32(f) => serde_json::Number::from_f64(*f as f64).map(Json::Number).unwrap_or(Json::Null),
        V::Text(s) => Json::String(s.clone()),
        V::Json(j) => j.clone(),
        V::Vector(xs) => Json::Array(xs.iter().map(|x| Json::Number((x.to_bits() as u64).into())).collect()),
        V::Array(xs) => Json::Array(xs.iter().map(json_of_shape).collect::<Option<Vec<_>>>()?),
        V::Map(m) => {
            let mut o = serde_json::Map::new();
            for (k, x) in m {
                let FieldKey::Text(k) = k else { return None };
                o.insert(k.clone(), json_of_shape(x)?);
            }
            Json::Object(o)
        }
        V::Bytes(_) => return None,
    })
}

/// The value as storage hands it back before re-validation, computed independently: untyped
/// positions (`Array([])`, `Map({})`, non-JSON leftovers under `Json`) become their schema-less
/// image, declared positions keep their variant.
pub fn read_image(ft: &FieldType, v: &FieldValue) -> FieldValue {
    use FieldType as T;
    use FieldValue as V;
    match (ft, v) {
        (T::Option(t), v) if *v != V::Null => read_image(t, v),
        (T::Array(ts), V::Array(xs)) if ts.len() == 1 => V::Array(xs.iter().map(|x| read_image(&ts[0], x)).collect()),
        (T::Array(ts), V::Array(xs)) if ts.len() >= 2 => V::Array(xs.iter().enumerate().map(|(i, x)| ts.get(i).map_or_else(|| generic(x), |t| read_image(t, x))).collect()),
        (T::Array(_), v) => generic(v),
        (T::Map(m), V::Map(vals)) if !m.is_empty() => {
            let w = wildcard_of(m);
            V::Map(vals.iter().map(|(k, x)| (k.clone(), match w.map(|(_, t)| t).or_else(|| m.get(k)) { Some(t) => read_image(t, x), None => generic(x) })).collect())
        }
        (T::Map(_), v) => generic(v),
        (T::Json, V::Json(_)) => v.clone(),
        (T::Json, v) => generic(v),
        (_, v) => v.clone(),
    }
}

/// Known finding F2, narrowly: the written value is within the budget, but a `Vector` under an
/// untyped position is counted element-wise once read back, which puts the read image over it.
pub fn vector_outgrows_budget(ft: &FieldType, stored: &FieldValue) -> bool {
    fn has_vector(v: &FieldValue) -> bool {
        match v {
            FieldValue::Vector(_) => true,
            FieldValue::Array(xs) => xs.iter().any(has_vector),
            FieldValue::Map(m) => m.values().any(has_vector),
            _ => false,
        }
    }
    let img = read_image(ft, stored);
    has_vector(stored) && within_budget(stored, DEFAULT_BUDGET) && !within_budget(&img, DEFAULT_BUDGET) && {
        // and nothing else is wrong with the read image
        let mut m = Measure::default();
        measure(&img, 0, &mut m);
        m.depth <= MAX_DEPTH && m.map <= MAX_MAP
    }
}
