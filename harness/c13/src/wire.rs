//! Line-protocol syntax of C13 (the same text the Lean driver `drv_c13` parses and prints).
//!
//! ```text
//! type   ::= B | I | U | D | F | Y | T | J | V | A<n> type*n | M<n> (key type)*n | O type
//! key    ::= kt<hex utf8> | ki<int> | kb<hex>
//! value  ::= b0 | b1 | i<int> | u<nat> | d<hex16> | f<hex8> | y<hex> | t<hex utf8>
//!          | j json | v<4 hex digits per element> | a<n> value*n | m<n> (key value)*n | z
//! json   ::= jz | jb0 | jb1 | ju<nat> | ji<int> | jd<hex16> | js<hex> | ja<n> json*n | jo<n> (k<hex key> json)*n
//! cbor   ::= cb0 | cb1 | ci<int> | cd<hex16> | cy<hex> | ct<hex> | ca<n> cbor*n | cm<n> (cbor cbor)*n | cz
//! ```
//! Floats only ever travel as IEEE bit patterns.

use anda_db_schema::{FieldKey, FieldType, FieldValue, Json, bf16};
use cbor2::Value as Cbor;
use std::collections::BTreeMap;
use vh_common::hex;

pub fn unhex(s: &str) -> Option<Vec<u8>> {
    if s.len() % 2 != 0 {
        return None;
    }
    (0..s.len()).step_by(2).map(|i| u8::from_str_radix(s.get(i..i + 2)?, 16).ok()).collect()
}

fn untext(s: &str) -> Option<String> {
    String::from_utf8(unhex(s)?).ok()
}

// ------------------------------------------------------------------------------------ printing

pub fn key_tok(k: &FieldKey) -> String {
    match k {
        FieldKey::Text(s) => format!("kt{}", hex(s.as_bytes())),
        FieldKey::I64(i) => format!("ki{i}"),
        FieldKey::Bytes(b) => format!("kb{}", hex(b)),
    }
}

pub fn type_toks(t: &FieldType, out: &mut Vec<String>) {
    match t {
        FieldType::Bool => out.push("B".into()),
        FieldType::I64 => out.push("I".into()),
        FieldType::U64 => out.push("U".into()),
        FieldType::F64 => out.push("D".into()),
        FieldType::F32 => out.push("F".into()),
        FieldType::Bytes => out.push("Y".into()),
        FieldType::Text => out.push("T".into()),
        FieldType::Json => out.push("J".into()),
        FieldType::Vector => out.push("V".into()),
        FieldType::Array(ts) => {
            out.push(format!("A{}", ts.len()));
            for t in ts {
                type_toks(t, out);
            }
        }
        FieldType::Map(m) => {
            out.push(format!("M{}", m.len()));
            for (k, t) in m {
                out.push(key_tok(k));
                type_toks(t, out);
            }
        }
        FieldType::Option(t) => {
            out.push("O".into());
            type_toks(t, out);
        }
    }
}

pub fn json_toks(j: &Json, out: &mut Vec<String>) {
    match j {
        Json::Null => out.push("jz".into()),
        Json::Bool(b) => out.push(if *b { "jb1" } else { "jb0" }.into()),
        Json::Number(n) => {
            if let Some(u) = n.as_u64() {
                out.push(format!("ju{u}"));
            } else if let Some(i) = n.as_i64() {
                out.push(format!("ji{i}"));
            } else {
                out.push(format!("jd{:016x}", n.as_f64().unwrap_or(f64::NAN).to_bits()));
            }
        }
        Json::String(s) => out.push(format!("js{}", hex(s.as_bytes()))),
        Json::Array(xs) => {
            out.push(format!("ja{}", xs.len()));
            for x in xs {
                json_toks(x, out);
            }
        }
        Json::Object(m) => {
            out.push(format!("jo{}", m.len()));
            for (k, x) in m {
                out.push(format!("k{}", hex(k.as_bytes())));
                json_toks(x, out);
            }
        }
    }
}

pub fn value_toks(v: &FieldValue, out: &mut Vec<String>) {
    match v {
        FieldValue::Bool(b) => out.push(if *b { "b1" } else { "b0" }.into()),
        FieldValue::I64(i) => out.push(format!("i{i}")),
        FieldValue::U64(u) => out.push(format!("u{u}")),
        FieldValue::F64(f) => out.push(format!("d{:016x}", f.to_bits())),
        FieldValue::F32(f) => out.push(format!("f{:08x}", f.to_bits())),
        FieldValue::Bytes(b) => out.push(format!("y{}", hex(b))),
        FieldValue::Text(s) => out.push(format!("t{}", hex(s.as_bytes()))),
        FieldValue::Json(j) => {
            out.push("j".into());
            json_toks(j, out);
        }
        FieldValue::Vector(xs) => {
            let mut s = String::from("v");
            for x in xs {
                s.push_str(&format!("{:04x}", x.to_bits()));
            }
            out.push(s);
        }
        FieldValue::Array(xs) => {
            out.push(format!("a{}", xs.len()));
            for x in xs {
                value_toks(x, out);
            }
        }
        FieldValue::Map(m) => {
            out.push(format!("m{}", m.len()));
            for (k, x) in m {
                out.push(key_tok(k));
                value_toks(x, out);
            }
        }
        FieldValue::Null => out.push("z".into()),
    }
}

pub fn cbor_toks(c: &Cbor, out: &mut Vec<String>) -> Result<(), String> {
    match c {
        Cbor::Null => out.push("cz".into()),
        Cbor::Bool(b) => out.push(if *b { "cb1" } else { "cb0" }.into()),
        Cbor::Integer(i) => out.push(format!("ci{}", i128::from(*i))),
        Cbor::Float(f) => out.push(format!("cd{:016x}", f.to_bits())),
        Cbor::Bytes(b) => out.push(format!("cy{}", hex(b))),
        Cbor::Text(s) => out.push(format!("ct{}", hex(s.as_bytes()))),
        Cbor::Array(xs) => {
            out.push(format!("ca{}", xs.len()));
            for x in xs {
                cbor_toks(x, out)?;
            }
        }
        Cbor::Map(m) => {
            out.push(format!("cm{}", m.len()));
            for (k, x) in m {
                cbor_toks(k, out)?;
                cbor_toks(x, out)?;
            }
        }
        other => return Err(format!("cbor value outside the modelled data model: {other:?}")),
    }
    Ok(())
}

pub fn show_type(t: &FieldType) -> String {
    let mut v = Vec::new();
    type_toks(t, &mut v);
    v.join(" ")
}

pub fn show_value(v: &FieldValue) -> String {
    let mut o = Vec::new();
    value_toks(v, &mut o);
    o.join(" ")
}

pub fn show_cbor(c: &Cbor) -> Result<String, String> {
    let mut o = Vec::new();
    cbor_toks(c, &mut o)?;
    Ok(o.join(" "))
}

// ------------------------------------------------------------------------------------- parsing

pub struct Toks<'a> {
    pub t: Vec<&'a str>,
    pub i: usize,
}

impl<'a> Toks<'a> {
    pub fn new(line: &'a str) -> Self {
        Toks { t: line.split(' ').filter(|s| !s.is_empty()).collect(), i: 0 }
    }
    pub fn next(&mut self) -> Option<&'a str> {
        let x = self.t.get(self.i).copied();
        self.i += 1;
        x
    }
    pub fn done(&self) -> bool {
        self.i >= self.t.len()
    }
}

pub fn parse_key(tok: &str) -> Option<FieldKey> {
    if let Some(r) = tok.strip_prefix("kt") {
        Some(FieldKey::Text(untext(r)?))
    } else if let Some(r) = tok.strip_prefix("ki") {
        Some(FieldKey::I64(r.parse().ok()?))
    } else if let Some(r) = tok.strip_prefix("kb") {
        Some(FieldKey::Bytes(unhex(r)?))
    } else {
        None
    }
}

pub fn parse_type(ts: &mut Toks) -> Option<FieldType> {
    let tok = ts.next()?;
    Some(match tok {
        "B" => FieldType::Bool,
        "I" => FieldType::I64,
        "U" => FieldType::U64,
        "D" => FieldType::F64,
        "F" => FieldType::F32,
        "Y" => FieldType::Bytes,
        "T" => FieldType::Text,
        "J" => FieldType::Json,
        "V" => FieldType::Vector,
        "O" => FieldType::Option(Box::new(parse_type(ts)?)),
        _ => {
            if let Some(n) = tok.strip_prefix('A') {
                let n: usize = n.parse().ok()?;
                let mut v = Vec::new();
                for _ in 0..n {
                    v.push(parse_type(ts)?);
                }
                FieldType::Array(v)
            } else if let Some(n) = tok.strip_prefix('M') {
                let n: usize = n.parse().ok()?;
                let mut m = BTreeMap::new();
                for _ in 0..n {
                    let k = parse_key(ts.next()?)?;
                    let t = parse_type(ts)?;
                    m.insert(k, t);
                }
                if m.len() != n {
                    return None;
                }
                FieldType::Map(m)
            } else {
                return None;
            }
        }
    })
}

pub fn parse_json(ts: &mut Toks) -> Option<Json> {
    let tok = ts.next()?;
    Some(match tok {
        "jz" => Json::Null,
        "jb0" => Json::Bool(false),
        "jb1" => Json::Bool(true),
        _ => {
            if let Some(r) = tok.strip_prefix("ju") {
                Json::Number(r.parse::<u64>().ok()?.into())
            } else if let Some(r) = tok.strip_prefix("ji") {
                Json::Number(r.parse::<i64>().ok()?.into())
            } else if let Some(r) = tok.strip_prefix("jd") {
                Json::Number(serde_json::Number::from_f64(f64::from_bits(u64::from_str_radix(r, 16).ok()?))?)
            } else if let Some(r) = tok.strip_prefix("js") {
                Json::String(untext(r)?)
            } else if let Some(r) = tok.strip_prefix("ja") {
                let n: usize = r.parse().ok()?;
                let mut v = Vec::new();
                for _ in 0..n {
                    v.push(parse_json(ts)?);
                }
                Json::Array(v)
            } else if let Some(r) = tok.strip_prefix("jo") {
                let n: usize = r.parse().ok()?;
                let mut m = serde_json::Map::new();
                for _ in 0..n {
                    let k = untext(ts.next()?.strip_prefix('k')?)?;
                    let x = parse_json(ts)?;
                    m.insert(k, x);
                }
                if m.len() != n {
                    return None;
                }
                Json::Object(m)
            } else {
                return None;
            }
        }
    })
}

pub fn parse_value(ts: &mut Toks) -> Option<FieldValue> {
    let tok = ts.next()?;
    Some(match tok {
        "z" => FieldValue::Null,
        "b0" => FieldValue::Bool(false),
        "b1" => FieldValue::Bool(true),
        "j" => FieldValue::Json(parse_json(ts)?),
        _ => {
            let (head, rest) = tok.split_at(1);
            match head {
                "i" => FieldValue::I64(rest.parse().ok()?),
                "u" => FieldValue::U64(rest.parse().ok()?),
                "d" => FieldValue::F64(f64::from_bits(u64::from_str_radix(rest, 16).ok()?)),
                "f" => FieldValue::F32(f32::from_bits(u32::from_str_radix(rest, 16).ok()?)),
                "y" => FieldValue::Bytes(unhex(rest)?),
                "t" => FieldValue::Text(untext(rest)?),
                "v" => {
                    let b = unhex(rest)?;
                    if b.len() % 2 != 0 {
                        return None;
                    }
                    FieldValue::Vector(b.chunks(2).map(|c| bf16::from_bits(((c[0] as u16) << 8) | c[1] as u16)).collect())
                }
                "a" => {
                    let n: usize = rest.parse().ok()?;
                    let mut v = Vec::new();
                    for _ in 0..n {
                        v.push(parse_value(ts)?);
                    }
                    FieldValue::Array(v)
                }
                "m" => {
                    let n: usize = rest.parse().ok()?;
                    let mut m = BTreeMap::new();
                    for _ in 0..n {
                        let k = parse_key(ts.next()?)?;
                        let x = parse_value(ts)?;
                        m.insert(k, x);
                    }
                    if m.len() != n {
                        return None;
                    }
                    FieldValue::Map(m)
                }
                _ => return None,
            }
        }
    })
}

pub fn parse_cbor(ts: &mut Toks) -> Option<Cbor> {
    let tok = ts.next()?;
    Some(match tok {
        "cz" => Cbor::Null,
        "cb0" => Cbor::Bool(false),
        "cb1" => Cbor::Bool(true),
        _ => {
            if let Some(r) = tok.strip_prefix("ci") {
                let i: i128 = r.parse().ok()?;
                Cbor::Integer(cbor2::value::Integer::try_from(i).ok()?)
            } else if let Some(r) = tok.strip_prefix("cd") {
                Cbor::Float(f64::from_bits(u64::from_str_radix(r, 16).ok()?))
            } else if let Some(r) = tok.strip_prefix("cy") {
                Cbor::Bytes(unhex(r)?)
            } else if let Some(r) = tok.strip_prefix("ct") {
                Cbor::Text(untext(r)?)
            } else if let Some(r) = tok.strip_prefix("ca") {
                let n: usize = r.parse().ok()?;
                let mut v = Vec::new();
                for _ in 0..n {
                    v.push(parse_cbor(ts)?);
                }
                Cbor::Array(v)
            } else if let Some(r) = tok.strip_prefix("cm") {
                let n: usize = r.parse().ok()?;
                let mut v = Vec::new();
                for _ in 0..n {
                    let k = parse_cbor(ts)?;
                    let x = parse_cbor(ts)?;
                    v.push((k, x));
                }
                Cbor::Map(v)
            } else {
                return None;
            }
        }
    })
}
