//! Harness for property C07 (stub: not built yet).
fn main() {
    let a = vh_common::Args::parse();
    let r = vh_common::Report::new("C07", &a, "stub");
    r.write(&a);
}
