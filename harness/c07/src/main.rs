//! C07 — store wrappers behave as a conforming object store with real CAS.
//!
//! Case = a generated call sequence over a small nested key space, run in lock step on
//!   * the wrapper (MetaStore or EncryptedStore{chunk 1|7|16|64KiB} over InMemory),
//!   * plain `object_store::memory::InMemory` (the reference the property names),
//!   * the Lean driver (`drv_c07`: wrapper model || reference model).
//! Answers are canonicalised (tokens -> first-occurrence ordinals, timestamps -> rank, listings
//! sorted, payloads -> length:fnv, errors -> kind).
//!
//! * correspondence: wrapper vs wrapper model, InMemory vs reference model (line by line);
//! * oracle (independent of the model): wrapper vs InMemory directly, plus bookkeeping oracles on
//!   the wrapper alone: update succeeds iff its token is the key's latest, create succeeds iff the
//!   key is absent, commit tokens never repeat, one (size, time) per token in every answer.
mod sut;
#[path = "../../c08/src/conc.rs"]
mod conc;
use std::collections::{BTreeMap, BTreeSet, HashMap};
use sut::*;
use vh_common::serde_json::json;
use vh_common::*;

/// keys of the interleaving scenarios
const CONC_KEYS: [&str; 3] = ["0", "1", "2"];
const KEYS: [&str; 9] = ["0", "1", "2", "0/1", "0/2", "0/1/3", "1/0", "2/2/2", "3"];

// ------------------------------------------------------------------------------------------
// generator
// ------------------------------------------------------------------------------------------

fn gen_case(rng: &mut Rng, big_ok: bool) -> Vec<String> {
    let (first, c): (String, u64) = if rng.chance(1, 2) {
        ("reset m".into(), *rng.pick(&[4u64, 16]))
    } else {
        let c = if big_ok && rng.chance(1, 12) { 65536 } else { *rng.pick(&[1u64, 7, 16]) };
        (format!("reset e {c}"), c)
    };
    let nkeys = 2 + rng.usize(3);
    let mut keys: Vec<&str> = KEYS.to_vec();
    rng.shuffle(&mut keys);
    keys.truncate(nkeys);
    let n = 8 + rng.usize(if c > 1000 { 6 } else { 14 });
    let mut ops = vec![first];
    let mut ntok = 0u64; // estimate of the number of tokens seen so far
    for k in &keys {
        if rng.chance(2, 3) {
            ntok += 1;
            ops.push(format!("put {k} ow {} {}", *rng.pick(&[0, 1, c.saturating_sub(1), c, c + 1, 2 * c, 3 * c + 1, 5]), rng.below(50)));
        }
    }
    let size = |rng: &mut Rng| -> u64 {
        let cands = [0, 1, c.saturating_sub(1), c, c + 1, 2 * c, 2 * c + 1, 3 * c, rng.below(40)];
        *rng.pick(&cands)
    };
    let tokref = |rng: &mut Rng, ntok: u64| -> String {
        match rng.below(10) {
            0 => format!("x{}", rng.below(3)),
            1 => "none".into(),
            _ => format!("t{}", rng.below(ntok + 2)),
        }
    };
    for _ in 0..n {
        let k = *rng.pick(&keys);
        let k2 = *rng.pick(&keys);
        let op = match rng.below(100) {
            0..=24 => {
                let mode = match rng.below(100) {
                    0..=44 => "ow".to_string(),
                    45..=64 => "cr".to_string(),
                    _ => {
                        let t = if rng.chance(3, 4) { format!("t{}", ntok.saturating_sub(1 + rng.below(2))) } else { tokref(rng, ntok) };
                        // a caller-supplied *version* only together with a token nobody holds: both stores refuse;
                        // with the right token the wrapper refuses (no versions, documented) where InMemory ignores
                        // the version — excluded shape of `wrapper_refines_ref` (`KnownDivergence`), corpus `versions-noref`
                        let v = if t.starts_with('x') && rng.chance(1, 2) { ":v" } else { "" };
                        format!("up:{t}{v}")
                    }
                };
                ntok += 1;
                format!("put {k} {mode} {} {}", size(rng), rng.below(50))
            }
            25..=30 => {
                let np = rng.usize(4);
                let sizes: Vec<String> = (0..np).map(|_| size(rng).min(if c > 1000 { 70000 } else { 60 }).to_string()).collect();
                ntok += 1;
                format!("mput {k} {} {}", if sizes.is_empty() { "-".into() } else { sizes.join(",") }, rng.below(50))
            }
            31..=54 => {
                let mut s = format!("get {k}");
                if rng.chance(1, 4) {
                    let cond = if rng.chance(1, 6) { "*".to_string() } else { (0..1 + rng.usize(2)).map(|_| tokref(rng, ntok).replace("none", "x9")).collect::<Vec<_>>().join("+") };
                    s += &format!(" im={cond}");
                }
                if rng.chance(1, 5) {
                    let cond = if rng.chance(1, 6) { "*".to_string() } else { (0..1 + rng.usize(2)).map(|_| tokref(rng, ntok).replace("none", "x9")).collect::<Vec<_>>().join("+") };
                    s += &format!(" inm={cond}");
                }
                if rng.chance(1, 6) {
                    s += &format!(" ims={}:{}", if rng.chance(2, 3) { k } else { k2 }, rng.range(-1, 1));
                }
                if rng.chance(1, 6) {
                    s += &format!(" ius={}:{}", if rng.chance(2, 3) { k } else { k2 }, rng.range(-1, 1));
                }
                if rng.chance(2, 5) {
                    let a = size(rng);
                    let b = size(rng);
                    s += &match rng.below(4) {
                        0 => format!(" r=o:{a}"),
                        1 => format!(" r=s:{a}"),
                        _ => format!(" r=b:{}:{}", a.min(b), if rng.chance(1, 8) { a.min(b) } else { a.max(b) + rng.below(2) }),
                    };
                }
                if rng.chance(1, 5) {
                    s += " head";
                }
                ntok += 1;
                s
            }
            55..=59 => {
                let nr = rng.usize(4);
                let rs: Vec<String> = (0..nr)
                    .map(|_| {
                        let a = size(rng);
                        let b = size(rng);
                        format!("{}:{}", a.min(b), a.max(b) + rng.below(2))
                    })
                    .collect();
                format!("ranges {k} {}", if rs.is_empty() { "-".into() } else { rs.join(",") })
            }
            60..=67 => format!("del {k}"),
            68..=75 => {
                ntok += 1;
                format!("copy {k} {k2} {}", if rng.chance(2, 3) { "ow" } else { "cr" })
            }
            76..=81 => {
                let dst = if k == k2 && !rng.chance(1, 6) { *rng.pick(&keys) } else { k2 };
                ntok += 1;
                format!("ren {k} {dst} {}", if rng.chance(2, 3) { "ow" } else { "cr" })
            }
            82..=88 => {
                let pre = *rng.pick(&["-", "0", "0/1", "1", "2/2", "3"]);
                ntok += 2;
                if rng.chance(1, 3) { format!("list {pre} off={}", rng.pick(&KEYS)) } else { format!("list {pre}") }
            }
            89..=93 => {
                ntok += 1;
                format!("listd {}", rng.pick(&["-", "0", "0/1", "2", "2/2"]))
            }
            94..=96 => {
                // second instance B overwrites while A's cache is warm; A's next (conditional) read of the key
                // finds a stale pointer and must retry *with* its preconditions; then A is re-opened
                let wop = match rng.below(5) {
                    0 => format!("via-b mput {k} {} {}", size(rng).min(60), rng.below(50)),
                    1 => format!("via-b copy {k2} {k} ow"),
                    2 => format!("via-b del {k}"),
                    _ => format!("via-b put {k} ow {} {}", size(rng), rng.below(50)),
                };
                let k2 = if k2 == k { *keys.iter().find(|x| **x != k).unwrap_or(&k) } else { k2 };
                ops.push(format!("get {k} head")); // make sure A's cache holds the key
                ops.push(wop);
                let cond = match rng.below(6) {
                    0 => format!(" im=t{}", ntok.saturating_sub(1 + rng.below(3))),
                    1 => format!(" inm=t{}", ntok.saturating_sub(1 + rng.below(3))),
                    2 if k2 != k => format!(" ius={k2}:0"),
                    3 if k2 != k => format!(" ims={k2}:0"),
                    4 if k2 != k => format!(" im=t{} ims={k2}:-1", ntok.saturating_sub(1 + rng.below(2))),
                    _ => String::new(),
                };
                let tail = match rng.below(4) { 0 => " head", 1 => " r=b:0:2", _ => "" };
                ops.push(format!("get {k}{cond}{tail}"));
                ntok += 2;
                "reopen".to_string()
            }
            97 => {
                // a multipart upload that never commits: aborted, or dropped
                let np = rng.usize(3);
                format!("{} {k} {} {}", if rng.chance(1, 2) { "mabort" } else { "mdrop" }, if np == 0 { "-".to_string() } else { (0..np).map(|_| size(rng).min(60).to_string()).collect::<Vec<_>>().join(",") }, rng.below(50))
            }
            98 => {
                // one delete_stream over several locations (missing keys and repeats included)
                let n = rng.usize(5);
                if n == 0 { "dels -".to_string() } else { format!("dels {}", (0..n).map(|_| rng.pick(&keys).to_string()).collect::<Vec<_>>().join(",")) }
            }
            // a fresh wrapper over the same backend, half of the time under ANOTHER chunk size: what a stored
            // object needs in order to be read (its own chunk size) is in its sidecar, not in the configuration
            _ => if rng.chance(1, 2) { format!("reopen-cs {}", [5u64, 16, 64][rng.usize(3)]) } else { "reopen".to_string() },
        };
        // the same call through the `ObjectStoreExt` convenience method
        let w: Vec<&str> = op.split(' ').collect();
        let op = match w.as_slice() {
            ["copy", a, b, "ow"] if rng.chance(1, 4) => format!("copy-x {a} {b}"),
            ["copy", a, b, "cr"] if rng.chance(1, 2) => format!("copy-ine {a} {b}"),
            ["ren", a, b, "ow"] if rng.chance(1, 4) => format!("ren-x {a} {b}"),
            ["ren", a, b, "cr"] if rng.chance(1, 2) => format!("ren-ine {a} {b}"),
            ["put", k, "ow", sz, seed] if rng.chance(1, 6) => format!("put-x {k} {sz} {seed}"),
            ["get", k, "head"] if rng.chance(1, 2) => format!("head {k}"),
            ["get", k, r] if r.starts_with("r=b:") && rng.chance(1, 2) => {
                let p: Vec<&str> = r[4..].split(':').collect();
                format!("getr {k} {} {}", p[0], p[1])
            }
            _ => op.clone(),
        };
        ops.push(op);
    }
    ops
}

// ------------------------------------------------------------------------------------------
// running one case
// ------------------------------------------------------------------------------------------

fn cbor_uint(major: u8, n: u64, out: &mut Vec<u8>) {
    let m = major << 5;
    if n < 24 {
        out.push(m | n as u8);
    } else if n < 256 {
        out.push(m | 24);
        out.push(n as u8);
    } else if n < 65536 {
        out.push(m | 25);
        out.extend_from_slice(&(n as u16).to_be_bytes());
    } else {
        out.push(m | 26);
        out.extend_from_slice(&(n as u32).to_be_bytes());
    }
}

/// pre-0.10 MetaStore metadata: `{ "s": size, "e": e_tag, "o": null, "v": null }`
fn legacy_meta_doc(size: u64, etag: &str) -> Vec<u8> {
    let mut o = vec![0xa4];
    o.extend_from_slice(&[0x61, b's']);
    cbor_uint(0, size, &mut o);
    o.extend_from_slice(&[0x61, b'e']);
    cbor_uint(3, etag.len() as u64, &mut o);
    o.extend_from_slice(etag.as_bytes());
    o.extend_from_slice(&[0x61, b'o', 0xf6, 0x61, b'v', 0xf6]);
    o
}

#[derive(Default, Clone)]
struct Failure {
    key: String,
    what: String,
    expected: String,
    observed: String,
    at: usize,
}

#[derive(Default)]
struct CaseOut {
    wrapper: Vec<String>,
    reference: Vec<String>,
    /// ops from this index on are not compared with the reference (states legitimately differ)
    noref_from: usize,
    failures: Vec<Failure>,
    hits: Vec<String>,
    nontrivial: bool,
}

fn parse_reset(op: &str) -> Option<Flavor> {
    let w: Vec<&str> = op.split(' ').collect();
    match w.as_slice() {
        ["reset", "m"] | ["reset", "m", _] => Some(Flavor::Meta),
        ["reset", "e"] => Some(Flavor::Enc(16)),
        ["reset", "e", c] => Some(Flavor::Enc(c.parse().ok()?)),
        _ => None,
    }
}

/// The call shapes on which the wrapper is known (from reading the code) to answer differently
/// from InMemory. They are still compared; a difference is reported under this stable key.
async fn known_shape(op: &str, rf: &Sut) -> Option<(&'static str, bool)> {
    use object_store::ObjectStoreExt;
    let w: Vec<&str> = op.split(' ').collect();
    let head = |k: &str| {
        let p = key_path(k);
        let s = rf.store.clone();
        async move {
            match p {
                Some(p) => s.head(&p).await.ok(),
                None => None,
            }
        }
    };
    match w.as_slice() {
        ["del", k] if head(k).await.is_none() => Some(("delete-missing-key", false)),
        ["put", k, m, ..] if m.starts_with("up:none") && head(k).await.is_some() => Some(("update-without-etag", false)),
        ["ranges", k, "-"] if head(k).await.is_none() => Some(("get-ranges-empty-on-missing-key", false)),
        ["ranges", k, rs] => {
            let m = head(k).await?;
            let mut beyond = false;
            for r in rs.split(',') {
                let (a, b) = r.split_once(':')?;
                let (a, b): (u64, u64) = (a.parse().ok()?, b.parse().ok()?);
                if a >= m.size || b <= a {
                    return None; // both sides reject
                }
                beyond |= b > m.size;
            }
            beyond.then_some(("get-ranges-end-beyond-length", false))
        }
        ["ren", a, b, "ow"] if a == b && head(a).await.is_some() => Some(("self-rename-overwrite", true)),
        _ => None,
    }
}

async fn run_case(ops: &[String]) -> Result<CaseOut, String> {
    use object_store::ObjectStoreExt;
    let fl = ops.first().and_then(|o| parse_reset(o)).ok_or("case must start with `reset m|e [chunk]`")?;
    let mut wr = Sut::new(fl);
    let mut rf = Sut::new(Flavor::Plain);
    let mut out = CaseOut { noref_from: usize::MAX, ..Default::default() };
    out.wrapper.push("ok".into());
    out.reference.push("ok".into());
    out.hits.push(format!("flavor:{}", match fl { Flavor::Meta => "meta".to_string(), Flavor::Enc(c) => format!("enc{c}"), Flavor::Plain => "plain".into() }));
    // bookkeeping oracle on the wrapper alone
    let mut latest: BTreeMap<String, String> = BTreeMap::new();
    let mut issued: BTreeSet<String> = BTreeSet::new();
    let mut views: HashMap<String, (u64, i64)> = HashMap::new();
    let mut legacy_keys: BTreeSet<String> = BTreeSet::new();
    let mut last_ms = 0i64;
    let (mut commits, mut reads) = (0, 0);
    let mut tasks: Option<Vec<conc::TaskSpec>> = None;
    // the reference as it was before a second instance wrote behind instance A's cache (until A re-opens)
    let mut ref_before_b: Option<object_store::memory::InMemory> = None;
    for (i, op) in ops.iter().enumerate().skip(1) {
        // `via-b <op>`: the op goes through a second, freshly opened wrapper instance B over the same
        // backend; instance A keeps its (now possibly stale) metadata cache
        let (via_b, op_full) = (op.starts_with("via-b "), op);
        let exec_op: String = op.strip_prefix("via-b ").map(|s| s.to_string()).unwrap_or_else(|| op.clone());
        // bookkeeping and known shapes work on the `*_opts` spelling; the stores are entered through the op as written
        let op: &String = &canonical_op(&exec_op);
        if *op != exec_op {
            out.hits.push(format!("entry:{}", exec_op.split(' ').next().unwrap_or("")));
        }
        let w: Vec<&str> = op.split(' ').collect();
        if w[0] == "tasks" {
            tasks = Some(conc::parse_tasks(op).ok_or_else(|| format!("bad tasks line: {op}"))?);
            out.noref_from = out.noref_from.min(i);
            out.wrapper.push("ok".into());
            out.reference.push("ok".into());
            continue;
        }
        if let ["schedule", ids] = w.as_slice() {
            let ts = tasks.clone().ok_or("schedule without tasks")?;
            let choices: Vec<usize> = if *ids == "-" { vec![] } else { ids.split(',').map(|s| s.parse().map_err(|_| "schedule id")).collect::<Result<_, _>>()? };
            let all: Vec<String> = CONC_KEYS.iter().map(|s| s.to_string()).collect();
            let o = conc::run(fl, wr.backend.clone(), &ts, &choices, &all).await;
            for f in o.failures {
                out.failures.push(Failure { key: f.key, what: f.what, expected: f.expected, observed: f.observed, at: i });
            }
            out.nontrivial = true;
            wr.reopen();
            out.noref_from = out.noref_from.min(i);
            out.wrapper.push(o.line.clone());
            out.reference.push(o.line);
            continue;
        }
        let _ = op_full;
        if via_b && ref_before_b.is_none() {
            ref_before_b = Some(rf.backend.fork());
        }
        if let ["reopen-cs", c] = w.as_slice() {
            ref_before_b = None;
            if let Flavor::Enc(_) = wr.flavor {
                wr.flavor = Flavor::Enc(c.parse().map_err(|_| "chunk size")?);
            }
            wr.reopen();
            out.wrapper.push("ok".into());
            out.reference.push("ok".into());
            out.hits.push("op:reopen-cs".into());
            continue;
        }
        if op == "reopen" {
            ref_before_b = None;
            wr.reopen();
            out.wrapper.push("ok".into());
            out.reference.push("ok".into());
            out.hits.push("op:reopen".into());
            continue;
        }
        if let ["legacy", k, size, seed] = w.as_slice() {
            // a pre-0.10 object written straight into the backend (MetaStore layout), wrapper re-opened;
            // not an object of the reference store: the comparison with InMemory stops here
            if !matches!(fl, Flavor::Meta) {
                return Err("legacy objects are only built for MetaStore".into());
            }
            use object_store::{ObjectStoreExt, PutPayload, path::Path};
            let data = gen_bytes(seed.parse().map_err(|_| "seed")?, size.parse().map_err(|_| "size")?);
            let p = key_path(k).ok_or("key")?;
            wait_past(last_ms);
            wr.backend.put(&Path::from(format!("data/{p}")), PutPayload::from(data.clone())).await.map_err(|e| e.to_string())?;
            wait_past(chrono::Utc::now().timestamp_millis());
            wr.backend.put(&Path::from(format!("meta/{p}")), PutPayload::from(legacy_meta_doc(data.len() as u64, &format!("legacy-{}", fnv(&data))))).await.map_err(|e| e.to_string())?;
            last_ms = chrono::Utc::now().timestamp_millis();
            wr.reopen();
            let _ = rf.exec(&format!("put {k} ow {size} {seed}")).await;
            out.noref_from = out.noref_from.min(i + 1);
            legacy_keys.insert(k.to_string());
            latest.insert(k.to_string(), format!("legacy-{}", fnv(&data)));
            out.wrapper.push("ok".into());
            out.reference.push("ok".into());
            out.hits.push("op:legacy".into());
            continue;
        }
        if op == "noref" {
            out.noref_from = out.noref_from.min(i);
            out.wrapper.push("ok".into());
            out.reference.push("ok".into());
            continue;
        }
        if is_mutating(op) {
            last_ms = wait_past(last_ms);
        }
        if let Some((key, diverges)) = known_shape(op, &rf).await {
            out.hits.push(format!("known-shape:{key}"));
            out.failures.push(Failure { key: format!("?{key}"), at: i, ..Default::default() });
            if diverges {
                out.noref_from = out.noref_from.min(i + 1);
            }
        }
        // `dels k1,k2,…`: elements whose key is absent (or was deleted earlier in the same batch) are the
        // known shape `delete-missing-key`; computed on the reference before the call
        let mut dels_missing: Vec<bool> = vec![];
        if let ["dels", ks] = w.as_slice() {
            let mut seen: BTreeSet<&str> = BTreeSet::new();
            for k in ks.split(',').filter(|k| *k != "-") {
                // (the wrapper's own bookkeeping: after a state-diverging known shape the reference holds other keys)
                dels_missing.push(!latest.contains_key(k) || !seen.insert(k));
            }
            if dels_missing.iter().any(|m| *m) {
                out.hits.push("known-shape:delete-missing-key".into());
                out.failures.push(Failure { key: "?delete-missing-key".into(), at: i, ..Default::default() });
            }
        }
        // expectations of the bookkeeping oracle, taken before the call
        let mut expect: Option<(&'static str, bool, String)> = None;
        if let ["put", k, m, ..] = w.as_slice() {
            if *m == "cr" {
                expect = Some(("create-iff-absent", !latest.contains_key(*k), format!("key {} {}", k, if latest.contains_key(*k) { "present" } else { "absent" })));
            } else if let Some(t) = m.strip_prefix("up:") {
                let has_version = t.ends_with(":v");
                let t = t.trim_end_matches(":v");
                let tok = wr.resolve(t).flatten();
                let ok = !has_version && tok.is_some() && latest.get(*k) == tok.as_ref();
                expect = Some(("cas-iff-latest", ok, format!("token {t} is{} the token of the latest commit of {k}", if ok { "" } else { " not" })));
            }
        }
        let a = if via_b {
            let mut bstore = build_store(fl, wr.backend.clone());
            std::mem::swap(&mut wr.store, &mut bstore);
            let r = wr.exec(&exec_op).await;
            std::mem::swap(&mut wr.store, &mut bstore);
            out.hits.push("via-b".into());
            r.ok_or_else(|| format!("bad op: {op}"))?
        } else {
            wr.exec(&exec_op).await.ok_or_else(|| format!("bad op: {op}"))?
        };
        let b = rf.exec(&exec_op).await.ok_or_else(|| format!("bad op: {op}"))?;
        if !via_b && let Some(old) = &ref_before_b {
            // instance A may still answer from the document it has cached: outside the single-writer
            // contract both the reference's answer now and its answer before B's write are accepted
            let strip = |l: &str| l.split(' ').filter(|x| !x.starts_with("t=@")).collect::<Vec<_>>().join(" ");
            if strip(&a.line) != strip(&b.line) {
                let mut alt = Sut::over(Flavor::Plain, old.fork(), rf.toks.clone());
                if let Some(o) = alt.exec(op).await && strip(&o.line) == strip(&a.line) {
                    // accepted; token ordinals of the two transcripts may part from here on
                    out.hits.push("via-b:answered-for-the-cached-commit".into());
                    out.noref_from = out.noref_from.min(i);
                }
            }
        }
        if is_mutating(op) {
            last_ms = chrono::Utc::now().timestamp_millis();
        }
        out.hits.push(format!("op:{}", w[0]));
        out.hits.push(format!("answer:{}", if a.line.starts_with("ok") { "ok" } else { a.line.as_str() }));
        if let Some((key, ok, why)) = expect {
            let got = a.line.starts_with("ok");
            if got != ok {
                out.failures.push(Failure { key: key.into(), what: format!("{op}: {why}"), expected: if ok { "success".into() } else { "refusal".into() }, observed: a.line.clone(), at: i });
            }
        }
        // what the wrapper committed, read through a *fresh* instance (does not touch the cache under test)
        let ok = a.line.starts_with("ok");
        let committed: Option<&str> = match w.as_slice() {
            ["put", k, ..] | ["mput", k, ..] if ok => Some(k),
            ["copy", _, d, _] if ok => Some(d),
            ["ren", s, d, _] if ok && s != d => Some(d),
            _ => None,
        };
        if let ["del", k] = w.as_slice() && ok {
            latest.remove(*k);
            legacy_keys.remove(*k);
        }
        if let ["dels", ks] = w.as_slice() {
            // the batch: every listed key is gone afterwards; the answers differ from InMemory's exactly on
            // the missing elements (narrow: anything else is a failure of its own)
            let inner = |l: &str| l.strip_prefix("ok [").and_then(|x| x.strip_suffix(']')).map(|x| x.split(',').filter(|e| !e.is_empty()).map(|e| e.to_string()).collect::<Vec<_>>()).unwrap_or_default();
            let (ea, eb) = (inner(&a.line), inner(&b.line));
            let expected: Vec<String> = dels_missing.iter().map(|m| if *m { "err:notfound".to_string() } else { "ok".to_string() }).collect();
            if ea != expected || (i < out.noref_from && (eb.iter().any(|e| e != "ok") || eb.len() != expected.len())) {
                out.failures.push(Failure { key: "dels-unexpected-answer".into(), what: format!("{op}: delete_stream answers per location, in input order: ok for a present key, NotFound for a missing one (known shape)"), expected: format!("ok [{}]", expected.join(",")), observed: a.line.clone(), at: i });
            }
            for k in ks.split(',').filter(|k| *k != "-") {
                latest.remove(k);
                legacy_keys.remove(k);
            }
        }
        if let Some(k) = committed {
            legacy_keys.remove(k);
        }
        if let ["ren", s, d, _] = w.as_slice() && ok && s != d {
            legacy_keys.remove(*s);
        }
        if let ["ren", s, d, _] = w.as_slice() && ok && s != d {
            latest.remove(*s);
        }
        if let Some(k) = committed {
            commits += 1;
            let probe = build_store(fl, wr.backend.clone());
            match probe.head(&key_path(k).unwrap()).await {
                Ok(m) => {
                    let tok = m.e_tag.clone().unwrap_or_default();
                    if !issued.insert(tok.clone()) {
                        out.failures.push(Failure { key: "token-repeats".into(), what: format!("{op}: the commit's token was already issued by an earlier commit"), expected: "a fresh token".into(), observed: tok.clone(), at: i });
                    }
                    if let Some(pt) = a.line.strip_prefix("ok tok=") && wr.ord(Some(&tok)) != pt {
                        out.failures.push(Failure { key: "put-result-token".into(), what: format!("{op}: PutResult.e_tag differs from the token a cold head reports"), expected: pt.into(), observed: wr.ord(Some(&tok)), at: i });
                    }
                    latest.insert(k.to_string(), tok);
                }
                Err(e) => out.failures.push(Failure { key: "committed-unreadable".into(), what: format!("{op}: succeeded but a cold head of {k} fails"), expected: "ok".into(), observed: err_kind(&e), at: i }),
            }
        }
        for m in &a.metas {
            reads += 1;
            if let Some(t) = &m.tok {
                let v = views.entry(t.clone()).or_insert((m.size, m.micros));
                if *v != (m.size, m.micros) {
                    out.failures.push(Failure { key: if legacy_keys.contains(&m.key) { "legacy-listing-timestamp".into() } else { "one-view-per-commit".into() }, what: format!("{op}: the same commit (same token) is reported with a different size / last_modified than in an earlier answer"), expected: format!("size={} last_modified=+0us", v.0), observed: format!("size={} last_modified={:+}us", m.size, m.micros - v.1), at: i });
                }
                if latest.get(&m.key) != Some(t) {
                    out.failures.push(Failure { key: "stale-token-served".into(), what: format!("{op}: answer carries a token that is not the key's latest commit"), expected: format!("{:?}", latest.get(&m.key)), observed: t.clone(), at: i });
                }
            }
        }
        // a known shape whose answers agree but whose states part: compare a probe read
        if let Some(f) = out.failures.iter().rev().find(|f| f.at == i && f.key == "?self-rename-overwrite") {
            let _ = f;
            let k = w[1];
            let kp = key_path(k).unwrap();
            let show = |r: object_store::Result<object_store::ObjectMeta>| match r { Ok(_) => "ok".to_string(), Err(e) => err_kind(&e) };
            let pa = show(build_store(fl, wr.backend.clone()).head(&kp).await);
            let pb = show(rf.store.head(&kp).await);
            if pa.starts_with("ok") != pb.starts_with("ok") {
                out.failures.push(Failure {
                    key: "self-rename-overwrite".into(),
                    what: format!("after `{op}` the wrapper still holds {k} (self-rename is a checked no-op), InMemory (default rename = copy + delete) has lost it"),
                    expected: format!("head {k}: {}", pb.split(' ').next().unwrap_or("")),
                    observed: format!("head {k}: {}", pa.split(' ').next().unwrap_or("")),
                    at: i,
                });
            }
        }
        out.wrapper.push(a.line);
        out.reference.push(b.line);
    }
    out.nontrivial = out.nontrivial || (commits > 0 && reads > 0);
    // wrapper vs reference
    // timestamps are ranked over the compared part only (after a state-diverging known shape the
    // two stores legitimately hold different objects)
    let limit = out.noref_from.min(out.wrapper.len());
    let wc = rank_times(&out.wrapper[..limit]);
    let rc = rank_times(&out.reference[..limit]);
    let mut fails = vec![];
    let mut known_at: HashMap<usize, String> = HashMap::new();
    for f in out.failures.drain(..) {
        if let Some(k) = f.key.strip_prefix('?') {
            known_at.insert(f.at, k.to_string());
        } else {
            fails.push(f);
        }
    }
    for i in 1..limit {
        if wc[i] != rc[i] {
            let kind = |s: &str| if s.starts_with("ok") { "ok".to_string() } else { s.split(' ').next().unwrap_or("").to_string() };
            let key = known_at.get(&i).cloned().unwrap_or_else(|| format!("{}:{}-vs-{}", ops[i].split(' ').next().unwrap_or(""), kind(&wc[i]), kind(&rc[i])));
            fails.push(Failure { key, what: format!("`{}` answers differently on the wrapper and on InMemory", ops[i]), expected: rc[i].clone(), observed: wc[i].clone(), at: i });
            if !known_at.contains_key(&i) {
                break; // later lines are consequences
            }
        }
    }
    fails.sort_by_key(|f| f.at);
    out.failures = fails;
    Ok(out)
}

struct CaseResult {
    out: Result<CaseOut, String>,
    panicked: bool,
    /// model transcript (wrapper column, reference column), time-ranked
    model: Option<(Vec<String>, Vec<String>)>,
}

fn eval(rt: &tokio::runtime::Runtime, ops: &[String], model: &mut Option<ModelProc>) -> CaseResult {
    let r = std::panic::catch_unwind(std::panic::AssertUnwindSafe(|| rt.block_on(run_case(ops))));
    let (out, panicked) = match r {
        Ok(o) => (o, false),
        Err(_) => (Err("panic".into()), true),
    };
    let model = model.as_mut().map(|m| {
        let (mut a, mut b) = (vec![], vec![]);
        for op in ops {
            if op == "noref" {
                a.push("ok".to_string());
                b.push("ok".to_string());
                continue;
            }
            // the model has no chunk size (reads are slices of the plaintext): a reconfigured reopen is a reopen
            let ans = m.ask(if op.starts_with("reopen-cs ") { "reopen" } else { op.as_str() });
            let (x, y) = ans.split_once(" || ").unwrap_or((ans.as_str(), ans.as_str()));
            a.push(x.to_string());
            b.push(y.to_string());
        }
        (rank_times(&a), rank_times(&b))
    });
    CaseResult { out, panicked, model }
}

/// (what, model answer, impl answer, index) of the first model/implementation difference
fn first_disagreement(ops: &[String], r: &CaseResult) -> Option<(String, String, String, usize)> {
    let (Ok(out), Some((mw, mr))) = (&r.out, &r.model) else { return None };
    let wc = rank_times(&out.wrapper);
    let rc = rank_times(&out.reference);
    for i in 0..ops.len().min(wc.len()) {
        if mw[i] != wc[i] {
            return Some((format!("wrapper model vs wrapper on `{}`", ops[i]), mw[i].clone(), wc[i].clone(), i));
        }
        if mr[i] != rc[i] {
            return Some((format!("reference model vs InMemory on `{}`", ops[i]), mr[i].clone(), rc[i].clone(), i));
        }
    }
    None
}

/// Concurrent callers on one key (real tasks on a multi-thread runtime; measured): `n` tasks issue the
/// same conditional update (resp. create) at once — exactly one may win, the key must hold the
/// winner's bytes, every loser must see Precondition (resp. AlreadyExists).
async fn cas_race(fl: Flavor, seed: u64, rounds: u64) -> (u64, Option<String>) {
    use object_store::{ObjectStoreExt, PutMode, PutOptions, PutPayload, UpdateVersion};
    let su = Sut::new(fl);
    let mut done = 0;
    for r in 0..rounds {
        let key = key_path(["0", "0/1", "2/2/2"][(r % 3) as usize]).unwrap();
        let create = r % 4 == 3;
        let tok = if create {
            let _ = su.store.delete(&key).await;
            None
        } else {
            match su.store.put(&key, PutPayload::from(gen_bytes(seed + r, 9))).await {
                Ok(p) => p.e_tag,
                Err(e) => return (done, Some(format!("setup put: {}", err_kind(&e)))),
            }
        };
        let mut hs = vec![];
        for t in 0..4u64 {
            let s = su.store.clone();
            let key = key.clone();
            let tok = tok.clone();
            hs.push(tokio::spawn(async move {
                let mode = if create { PutMode::Create } else { PutMode::Update(UpdateVersion { e_tag: tok, version: None }) };
                let data = gen_bytes(1000 + seed + r * 7 + t, 5 + t as usize);
                (t, s.put_opts(&key, PutPayload::from(data), PutOptions { mode, ..Default::default() }).await.map_err(|e| err_kind(&e)))
            }));
        }
        let mut winners = vec![];
        for h in hs {
            match h.await {
                Ok((t, Ok(_))) => winners.push(t),
                Ok((_, Err(k))) if k == "err:precond" || k == "err:exists" => {}
                Ok((t, Err(k))) => return (done, Some(format!("round {r} caller {t}: unexpected {k}"))),
                Err(_) => return (done, Some("caller task panicked".into())),
            }
        }
        if winners.len() != 1 {
            return (done, Some(format!("round {r} ({}): {} callers succeeded with the same token: {winners:?}", if create { "create" } else { "update" }, winners.len())));
        }
        let want = gen_bytes(1000 + seed + r * 7 + winners[0], 5 + winners[0] as usize);
        match build_store(fl, su.backend.clone()).get(&key).await {
            Ok(g) => match g.bytes().await {
                Ok(b) if b.as_ref() == want.as_slice() => {}
                Ok(b) => return (done, Some(format!("round {r}: key holds {} bytes, the winner wrote {}", b.len(), want.len()))),
                Err(e) => return (done, Some(format!("round {r}: body {}", err_kind(&e)))),
            },
            Err(e) => return (done, Some(format!("round {r}: get {}", err_kind(&e)))),
        }
        done += 1;
    }
    (done, None)
}

fn main() {
    let args = Args::parse();
    let mut rep = Report::new(
        "C07",
        &args,
        "case = generated call sequence (8..22 calls: put ow/cr/update, multipart, get with preconditions/ranges/head, get_ranges, \
         delete, copy, rename, list/offset/delimiter, reopen) over 2..4 keys of a nested key space, on MetaStore or \
         EncryptedStore{1,7,16,64KiB} and on InMemory in lock step; distinct = distinct op list; non-trivial = at least one \
         successful commit and one answer carrying object metadata",
    );
    let search = args.focus.is_some();
    let mut cases: Vec<(String, Vec<String>)> = vec![];
    if let Some(p) = &args.replay {
        cases.push(("replay".into(), read_replay(p)));
    } else {
        if let Some(dir) = &args.corpus {
            cases.extend(read_corpus(dir));
        }
        // the precondition decision table, exhaustively: 3^4 combinations of (absent | satisfied | violated)
        // for if_match / if_none_match / if_unmodified_since / if_modified_since, as get / head / ranged get
        for fl in ["reset m", "reset e 7"] {
            let mut ops = vec![fl.to_string(), "put 0 ow 9 1".to_string(), "put 1 ow 4 2".to_string()];
            let mut row = 0;
            for im in ["", " im=t0", " im=x1"] {
                for inm in ["", " inm=x1", " inm=t0"] {
                    for ius in ["", " ius=0:0", " ius=0:-1"] {
                        for ims in ["", " ims=0:-1", " ims=0:0"] {
                            let tail = ["", " head", " r=b:1:5"][row % 3];
                            ops.push(format!("get 0{im}{inm}{ims}{ius}{tail}"));
                            row += 1;
                        }
                    }
                }
            }
            cases.push((format!("gen-table-{}", &fl[6..7]), ops));
        }
        let n = args.budget(1600, 180000);
        for i in 0..n {
            let mut rng = Rng::for_case(args.seed, i);
            cases.push((format!("gen{i}"), gen_case(&mut rng, true)));
        }
    }
    let ncorpus = cases.iter().filter(|c| !c.0.starts_with("gen")).count();

    // evaluate in parallel, merge in case order
    let nthreads = std::thread::available_parallelism().map(|n| n.get()).unwrap_or(4).min(16).min(cases.len().max(1));
    let mut model_cov: BTreeMap<String, u64> = BTreeMap::new();
    let results: Vec<CaseResult> = {
        let mut slots: Vec<Option<CaseResult>> = (0..cases.len()).map(|_| None).collect();
        let chunks: Vec<Vec<usize>> = (0..nthreads).map(|t| (t..cases.len()).step_by(nthreads).collect()).collect();
        let outs: Vec<(Vec<(usize, CaseResult)>, Option<String>)> = std::thread::scope(|s| {
            let hs: Vec<_> = chunks
                .iter()
                .map(|idxs| {
                    let cases = &cases;
                    let args = &args;
                    s.spawn(move || {
                        let rt = tokio::runtime::Builder::new_current_thread().enable_all().build().unwrap();
                        let mut model = if search { None } else { ModelProc::from_args(args) };
                        let v = idxs.iter().map(|&i| (i, eval(&rt, &cases[i].1, &mut model))).collect::<Vec<_>>();
                        // which branches of the model this worker's share of the run visited
                        let cov = model.as_mut().map(|m| m.ask("coverage"));
                        (v, cov)
                    })
                })
                .collect();
            hs.into_iter().map(|h| h.join().expect("worker")).collect()
        });
        for (v, cov) in outs {
            for (i, r) in v {
                slots[i] = Some(r);
            }
            if let Some(c) = cov.as_deref().and_then(|c| c.strip_prefix("cov ")) {
                for kv in c.split(' ') {
                    if let Some((k, n)) = kv.rsplit_once('=') {
                        *model_cov.entry(k.to_string()).or_insert(0u64) += n.parse::<u64>().unwrap_or(0);
                    }
                }
            }
        }
        slots.into_iter().map(|s| s.unwrap()).collect()
    };

    let rt = tokio::runtime::Builder::new_current_thread().enable_all().build().unwrap();
    let mut model = if search { None } else { ModelProc::from_args(&args) };
    let mut reported: BTreeSet<String> = BTreeSet::new();
    let mut shrunk_disagreements = 0;
    for ((name, ops), r) in cases.iter().zip(results.iter()) {
        if r.panicked {
            rep.oracle_failure("panic", "the implementation panicked", ops, "no panic", "panic");
            rep.case(&ops.join("|"), false);
            continue;
        }
        let out = match &r.out {
            Ok(o) => o,
            Err(e) => {
                rep.hit("case_error");
                rep.notes.push(format!("case {name} could not run: {e}"));
                continue;
            }
        };
        for h in &out.hits {
            rep.hit(h);
        }
        rep.case(&ops.join("|"), out.nontrivial);
        if out.nontrivial && rep.samples.len() < 4 {
            rep.sample(json!({"case": name, "ops": ops, "wrapper": rank_times(&out.wrapper)}));
        }
        for f in &out.failures {
            if !reported.insert(f.key.clone()) {
                rep.hit(&format!("failure-again:{}", f.key));
                continue;
            }
            // shrink: the same key must still be reported
            let prefix: Vec<String> = ops[..=f.at.min(ops.len() - 1)].to_vec();
            if std::env::var("VH_DEBUG").is_ok() {
                eprintln!("FAILURE {} at {} in {:?}\n  wrapper={:?}\n  reference={:?}", f.key, f.at, ops, rank_times(&out.wrapper), rank_times(&out.reference));
            }
            let key = f.key.clone();
            let small = shrink(
                prefix[1..].to_vec(),
                |cand| {
                    let mut c = vec![prefix[0].clone()];
                    c.extend_from_slice(cand);
                    let r = eval(&rt, &c, &mut None);
                    r.out.as_ref().is_ok_and(|o| o.failures.iter().any(|g| g.key == key))
                },
                150,
            );
            let mut c = vec![prefix[0].clone()];
            c.extend(small);
            let r2 = eval(&rt, &c, &mut None);
            let f2 = r2.out.as_ref().ok().and_then(|o| o.failures.iter().find(|g| g.key == f.key).cloned()).unwrap_or_else(|| f.clone());
            rep.oracle_failure(&f.key, &f2.what, &c, &f2.expected, &f2.observed);
        }
        if r.model.is_some() {
            rep.model_compared += ops.len() as u64 - 1;
            if let Some((what, m, im, at)) = first_disagreement(ops, r) {
                if shrunk_disagreements < 3 && model.is_some() {
                    shrunk_disagreements += 1;
                    let prefix: Vec<String> = ops[..=at].to_vec();
                    let small = shrink(
                        prefix[1..].to_vec(),
                        |cand| {
                            let mut c = vec![prefix[0].clone()];
                            c.extend_from_slice(cand);
                            let r = eval(&rt, &c, &mut model);
                            first_disagreement(&c, &r).is_some()
                        },
                        120,
                    );
                    let mut c = vec![prefix[0].clone()];
                    c.extend(small);
                    let r2 = eval(&rt, &c, &mut model);
                    match first_disagreement(&c, &r2) {
                        Some((what, m, im, _)) => rep.disagreement(&what, &c, &m, &im),
                        None => rep.disagreement(&what, ops, &m, &im),
                    }
                } else {
                    rep.disagreement(&what, ops, &m, &im);
                }
            }
        }
    }
    // ---- conditional reads ∥ writers: systematic enumeration of release orders (deterministic) ----
    if args.replay.is_none() {
        let thorough = args.thorough() || search;
        let (bound, cap) = if thorough { (3usize, 4000usize) } else { (2usize, 120usize) };
        let conds: Vec<&str> = if thorough {
            vec!["im", "imx", "inm", "inmx", "ius", "iusm", "ims", "imsm", "im+ims", "inmx+ius", "im+inmx", "-"]
        } else {
            vec!["im", "inm", "ius", "ims", "im+ims"]
        };
        let variants: Vec<(&str, bool)> = vec![("", false), (" r=b:1:3", false), ("", true), (" r=s:2", false)];
        let mut scenarios: Vec<(Vec<String>, Vec<conc::TaskSpec>)> = vec![];
        let flavors: Vec<&str> = if thorough { vec!["reset m", "reset e 7", "reset e 1"] } else { vec!["reset m", "reset e 7"] };
        let mut n = 0usize;
        for fl in &flavors {
            let setup = vec![fl.to_string(), "put 0 ow 9 1".to_string(), "put 1 ow 4 2".to_string()];
            for cond in &conds {
                use conc::TaskSpec::*;
                let writers = vec![Put("0".into(), 4, 7), Mput("0".into(), vec![3, 2], 7), Copy("1".into(), "0".into()), Ren("1".into(), "0".into()), Del("0".into())];
                for (wi, w) in writers.iter().enumerate() {
                    let vs: Vec<usize> = if thorough { (0..variants.len()).collect() } else { vec![(n + wi) % variants.len()] };
                    for vi in vs {
                        let warms: Vec<bool> = if thorough { vec![false, true] } else { vec![(n + wi + vi) % 2 == 1] };
                        for warm in warms {
                            let (rng, head) = variants[vi];
                            let range = rng.strip_prefix(" r=").map(|s| s.to_string());
                            scenarios.push((setup.clone(), vec![Get("0".into(), cond.to_string(), range, head, warm), w.clone()]));
                        }
                    }
                }
                n += 1;
            }
        }
        struct SchedRes {
            ops: Vec<String>,
            line: String,
            model: Option<Vec<String>>,
            setup_lines: Vec<String>,
            failures: Vec<conc::ConcFailure>,
        }
        let nthreads = std::thread::available_parallelism().map(|n| n.get()).unwrap_or(4).min(16).min(scenarios.len().max(1));
        let t0 = std::time::Instant::now();
        let chunks: Vec<Vec<usize>> = (0..nthreads).map(|t| (t..scenarios.len()).step_by(nthreads).collect()).collect();
        let outs: Vec<Vec<(usize, Vec<SchedRes>, bool)>> = std::thread::scope(|s| {
            let hs: Vec<_> = chunks
                .iter()
                .map(|idxs| {
                    let scenarios = &scenarios;
                    let args = &args;
                    s.spawn(move || {
                        let rt = tokio::runtime::Builder::new_current_thread().enable_all().build().unwrap();
                        let mut model = if search { None } else { ModelProc::from_args(args) };
                        let mut res = vec![];
                        for &si in idxs {
                            let (setup, tasks) = &scenarios[si];
                            let Some(fl) = parse_reset(&setup[0]) else { continue };
                            // the base state, through an ordinary wrapper instance
                            let mut su = Sut::new(fl);
                            let mut setup_lines = vec!["ok".to_string()];
                            let mut last = 0i64;
                            for op in &setup[1..] {
                                last = wait_past(last);
                                match rt.block_on(su.exec(op)) {
                                    Some(o) => setup_lines.push(o.line),
                                    None => setup_lines.push("bad-op".into()),
                                }
                                last = last.max(chrono::Utc::now().timestamp_millis());
                            }
                            wait_past(last);
                            let all: Vec<String> = CONC_KEYS.iter().map(|s| s.to_string()).collect();
                            let mut v: Vec<SchedRes> = vec![];
                            let (_, truncated) = conc::explore(&rt, fl, &su.backend, tasks, &all, bound, cap, |o| {
                                let mut ops = setup.clone();
                                ops.push(conc::tasks_line(tasks));
                                ops.push(format!("schedule {}", o.chosen.iter().map(|c| c.to_string()).collect::<Vec<_>>().join(",")));
                                let m = model.as_mut().map(|m| ops.iter().map(|op| m.ask(op)).collect::<Vec<_>>());
                                v.push(SchedRes { ops, line: o.line.clone(), model: m, setup_lines: setup_lines.clone(), failures: o.failures.clone() });
                            });
                            res.push((si, v, truncated));
                        }
                        res
                    })
                })
                .collect();
            hs.into_iter().map(|h| h.join().expect("worker")).collect()
        });
        let mut all: Vec<(usize, Vec<SchedRes>, bool)> = outs.into_iter().flatten().collect();
        all.sort_by_key(|x| x.0);
        let (mut nsched, mut ntrunc, mut nretry) = (0u64, 0u64, 0u64);
        for (si, v, truncated) in all {
            if truncated {
                ntrunc += 1;
            }
            for r in v {
                nsched += 1;
                rep.case(&r.ops.join("|"), true);
                // a schedule in which the reader re-resolved the document (two metadata reads by the reader)
                if r.line.matches("0:g:meta/0").count() >= 2 || (r.ops[r.ops.len() - 2].contains("warm") && r.line.contains("0:g:meta/0")) {
                    nretry += 1;
                }
                if nsched % 400 == 1 && rep.samples.len() < 8 {
                    rep.sample(json!({"case": format!("sched{si}"), "ops": r.ops, "wrapper": r.line}));
                }
                for f in &r.failures {
                    if reported.insert(f.key.clone()) {
                        rep.oracle_failure(&f.key, &f.what, &r.ops, &f.expected, &f.observed);
                    } else {
                        rep.hit(&format!("failure-again:{}", f.key));
                    }
                }
                if let Some(m) = &r.model {
                    rep.model_compared += 1;
                    let first = |l: &String| l.split_once(" || ").map(|x| x.0.to_string()).unwrap_or_else(|| l.clone());
                    let ml = rank_times(&m.iter().map(first).collect::<Vec<_>>());
                    let sl = rank_times(&r.setup_lines);
                    let nn = r.ops.len();
                    let mut bad: Option<(String, String, String)> = None;
                    for i in 0..sl.len().min(nn - 2) {
                        if ml[i] != sl[i] {
                            bad = Some((format!("wrapper model vs wrapper on `{}`", r.ops[i]), ml[i].clone(), sl[i].clone()));
                            break;
                        }
                    }
                    if bad.is_none() && ml[nn - 1] != r.line {
                        bad = Some((format!("interleaving model vs wrapper on `{}`", r.ops[nn - 1]), ml[nn - 1].clone(), r.line.clone()));
                    }
                    if let Some((what, m, im)) = bad {
                        rep.disagreement(&what, &r.ops, &m, &im);
                    }
                }
            }
        }
        rep.hit_n("sched:schedules", nsched);
        rep.hit_n("sched:reader-retried", nretry);
        rep.notes.push(format!(
            "interleavings: {nsched} complete schedules of conditional get/head/ranged get || writer over {} scenarios ({nretry} with a stale-pointer retry; pre-emption bound {bound}, cap {cap}/scenario, {ntrunc} truncated), {:.1}s",
            scenarios.len(),
            t0.elapsed().as_secs_f64()
        ));
    }
    if args.replay.is_none() {
        let mt = tokio::runtime::Builder::new_multi_thread().worker_threads(4).enable_all().build().unwrap();
        let rounds = args.budget(150, 6000);
        let mut total = 0;
        for (j, fl) in [Flavor::Meta, Flavor::Enc(7)].iter().enumerate() {
            let (n, bad) = mt.block_on(cas_race(*fl, args.seed + j as u64, rounds));
            total += n;
            if let Some(b) = bad {
                rep.oracle_failure("cas-race", "concurrent callers with the same token (or concurrent creates) on one key: not exactly one winner / wrong final bytes", &[format!("cas_race flavor={fl:?} seed={} rounds={rounds}", args.seed + j as u64)], "exactly one winner whose bytes the key holds", &b);
            }
        }
        rep.measured.insert("cas_race".into(), json!({"rounds_ok": total, "what": "4 real tasks (4-thread runtime) issue the same PutMode::Update token / PutMode::Create on one key at once; exactly one must win. Real scheduling: measured, not proved (the model has one caller; the per-key critical section is an assumption)."}));
    }
    rep.notes.push(format!("{ncorpus} corpus case(s) run first; {} worker threads", nthreads));
    rep.measured.insert("timestamps".into(), json!("commit times are separated by >= 3 ms of wall clock by the harness; compared by rank only"));
    // branch coverage of the model under the correspondence run (counters kept by the Lean driver)
    if !model_cov.is_empty() {
        let own = |k: &str| !(k.starts_with("crash:") || k.starts_with("gc"));
        let mut unvisited: Vec<String> = vec![];
        let (mut tags, mut visited) = (0u64, 0u64);
        for (k, n) in &model_cov {
            if !own(k) {
                continue;
            }
            tags += 1;
            rep.hit_n(&format!("model:{k}"), *n);
            if *n == 0 {
                unvisited.push(k.clone());
            } else {
                visited += 1;
            }
        }
        rep.measured.insert(
            "model_branch_coverage".into(),
            json!({"tags": tags, "visited": visited, "unvisited": unvisited,
                   "what": "branches of the Lean model (op kind x key presence x mode x outcome, the 81 rows of the get-precondition table, range kinds, cache hit/miss/stale, crash cut positions, GC outcomes) counted by the driver while it answered the generated cases; histogram keys `model:<tag>`"}),
        );
    }
    rep.write(&args);
}
