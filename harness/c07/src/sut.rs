//! Shared by vh-c07 and vh-c08: the line protocol executed against a real `ObjectStore`
//! (MetaStore / EncryptedStore / plain InMemory), canonicalisation of its answers.
//!
//! The protocol is documented in `lean/AndaVerif/Drv/ObjStoreProto.lean`.
#![allow(dead_code)]
use anda_object_store::{EncryptedStore, EncryptedStoreBuilder, FaultHandle, FaultStore, MetaStore, MetaStoreBuilder};
use bytes::Bytes;
use futures::{StreamExt, TryStreamExt};
use object_store::{
    CopyMode, CopyOptions, Error, GetOptions, GetRange, ObjectMeta, ObjectStore, ObjectStoreExt, PutMode, PutOptions, PutPayload,
    RenameOptions, RenameTargetMode, UpdateVersion, memory::InMemory, path::Path,
};
use std::sync::Arc;

/// segment index -> segment name; order preserving, every character sorts after '/'
pub const NAMES: [&str; 4] = ["a", "a0", "b", "c"];

pub fn key_path(k: &str) -> Option<Path> {
    if k == "-" {
        return Some(Path::default());
    }
    let mut parts = vec![];
    for s in k.split('/') {
        let i: usize = s.parse().ok()?;
        parts.push(*NAMES.get(i)?);
    }
    Some(Path::from(parts.join("/")))
}

pub fn show_key(p: &Path) -> String {
    let s = p.as_ref();
    if s.is_empty() {
        return "-".into();
    }
    s.split('/')
        .map(|n| NAMES.iter().position(|x| *x == n).map(|i| i.to_string()).unwrap_or_else(|| format!("?{n}")))
        .collect::<Vec<_>>()
        .join("/")
}

/// must equal `genBytes` of the Lean driver
pub fn gen_bytes(seed: u64, size: usize) -> Vec<u8> {
    (0..size as u64).map(|i| ((seed * 131 + i * 7 + (i / 256) * 13 + 1) % 256) as u8).collect()
}

/// must equal `fnv` of the Lean driver
pub fn fnv(b: &[u8]) -> u64 {
    let mut h: u64 = 0xcbf2_9ce4_8422_2325;
    for x in b {
        h ^= *x as u64;
        h = h.wrapping_mul(0x0000_0100_0000_01B3);
    }
    h
}

pub fn show_data(b: &[u8]) -> String {
    format!("{}:{}", b.len(), fnv(b))
}

pub fn err_kind(e: &Error) -> String {
    match e {
        Error::NotFound { .. } => "err:notfound".into(),
        Error::AlreadyExists { .. } => "err:exists".into(),
        Error::Precondition { .. } => "err:precond".into(),
        Error::NotModified { .. } => "err:notmodified".into(),
        Error::Generic { .. } => "err:generic".into(),
        Error::NotImplemented { .. } => "err:notimplemented".into(),
        Error::NotSupported { .. } => "err:notsupported".into(),
        Error::InvalidPath { .. } => "err:invalidpath".into(),
        Error::PermissionDenied { .. } => "err:permission".into(),
        Error::Unauthenticated { .. } => "err:unauthenticated".into(),
        _ => "err:other".into(),
    }
}

#[derive(Clone, Copy, Debug, PartialEq, Eq)]
pub enum Flavor {
    Meta,
    Enc(u64),
    Plain,
}

pub fn build_store(fl: Flavor, inner: InMemory) -> Arc<dyn ObjectStore> {
    match fl {
        Flavor::Meta => Arc::new(MetaStoreBuilder::new(inner, 1000).build()),
        Flavor::Enc(c) => Arc::new(EncryptedStoreBuilder::with_secret(inner, 1000, [7u8; 32]).with_chunk_size(c).build()),
        Flavor::Plain => Arc::new(inner),
    }
}

/// the wrapper with its concrete type (for `collect_garbage`), over a FaultStore
#[derive(Clone)]
pub enum Typed {
    Meta(Arc<MetaStore<FaultStore<InMemory>>>),
    Enc(Arc<EncryptedStore<FaultStore<InMemory>>>),
    Plain,
}

impl Typed {
    pub async fn collect_garbage(&self) -> object_store::Result<usize> {
        match self {
            Typed::Meta(s) => s.collect_garbage().await,
            Typed::Enc(s) => s.collect_garbage().await,
            Typed::Plain => Ok(0),
        }
    }
}

pub fn build_faulty(fl: Flavor, inner: InMemory) -> (Typed, Arc<dyn ObjectStore>, Option<FaultHandle>) {
    match fl {
        Flavor::Meta => {
            let (fs, h) = FaultStore::wrap(inner);
            let s = Arc::new(MetaStoreBuilder::new(fs, 1000).build());
            let d: Arc<dyn ObjectStore> = s.clone();
            (Typed::Meta(s), d, Some(h))
        }
        Flavor::Enc(c) => {
            let (fs, h) = FaultStore::wrap(inner);
            let s = Arc::new(EncryptedStoreBuilder::with_secret(fs, 1000, [7u8; 32]).with_chunk_size(c).build());
            let d: Arc<dyn ObjectStore> = s.clone();
            (Typed::Enc(s), d, Some(h))
        }
        Flavor::Plain => (Typed::Plain, Arc::new(inner), None),
    }
}

/// One store under test plus its token table (first-occurrence ordinals).
pub struct Sut {
    pub flavor: Flavor,
    pub backend: InMemory,
    pub store: Arc<dyn ObjectStore>,
    pub typed: Typed,
    pub handle: Option<FaultHandle>,
    pub toks: Vec<String>,
}

pub struct MetaObs {
    pub key: String,
    pub size: u64,
    pub tok: Option<String>,
    pub micros: i64,
}

#[derive(Default)]
pub struct ExecOut {
    pub line: String,
    /// every (key, size, token, time) the answer carried
    pub metas: Vec<MetaObs>,
}

impl Sut {
    pub fn new(fl: Flavor) -> Sut {
        Sut::over(fl, InMemory::new(), vec![])
    }
    pub fn over(fl: Flavor, backend: InMemory, toks: Vec<String>) -> Sut {
        let (typed, store, handle) = build_faulty(fl, backend.clone());
        Sut { flavor: fl, store, typed, handle, backend, toks }
    }
    /// fresh wrapper instance over the same backend (cold metadata cache)
    pub fn reopen(&mut self) {
        let (typed, store, handle) = build_faulty(self.flavor, self.backend.clone());
        self.typed = typed;
        self.store = store;
        self.handle = handle;
    }
    pub fn ord(&mut self, t: Option<&str>) -> String {
        match t {
            None => "T-".into(),
            Some(t) => {
                if let Some(i) = self.toks.iter().position(|x| x == t) {
                    format!("T{i}")
                } else {
                    self.toks.push(t.to_string());
                    format!("T{}", self.toks.len() - 1)
                }
            }
        }
    }
    pub fn resolve(&self, r: &str) -> Option<Option<String>> {
        if r == "none" {
            return Some(None);
        }
        if let Some(n) = r.strip_prefix('t') {
            let n: usize = n.parse().ok()?;
            return Some(Some(self.toks.get(n).cloned().unwrap_or_else(|| format!("unissued-{n}"))));
        }
        if let Some(n) = r.strip_prefix('x') {
            let n: usize = n.parse().ok()?;
            return Some(Some(format!("never-{n}")));
        }
        None
    }
    fn show_meta(&mut self, m: &ObjectMeta, obs: &mut Vec<MetaObs>) -> String {
        let micros = m.last_modified.timestamp_micros();
        let key = show_key(&m.location);
        obs.push(MetaObs { key: key.clone(), size: m.size, tok: m.e_tag.clone(), micros });
        let t = self.ord(m.e_tag.as_deref());
        format!("{key} size={} tok={t} t=@{micros}{}", m.size, if m.version.is_some() { " version=some" } else { "" })
    }
    fn show_metas(&mut self, mut ms: Vec<ObjectMeta>, obs: &mut Vec<MetaObs>) -> String {
        ms.sort_by(|a, b| a.location.cmp(&b.location));
        let parts: Vec<String> = ms.iter().map(|m| self.show_meta(m, obs)).collect();
        format!("[{}]", parts.join("; "))
    }
    fn cond(&self, c: &str) -> Option<String> {
        if c == "*" {
            return Some("*".into());
        }
        let mut v = vec![];
        for t in c.split('+') {
            v.push(self.resolve(t)??);
        }
        Some(v.join(", "))
    }
    async fn date(&self, d: &str) -> Option<chrono::DateTime<chrono::Utc>> {
        let (k, dl) = d.split_once(':')?;
        let p = key_path(k)?;
        let dl: i64 = dl.parse().ok()?;
        // through a fresh instance: resolving a date must not touch the metadata cache under test
        let base = match build_store(self.flavor, self.backend.clone()).head(&p).await {
            Ok(m) => m.last_modified,
            Err(_) => chrono::DateTime::from_timestamp_millis(1000)?,
        };
        Some(base + chrono::Duration::milliseconds(dl))
    }

    /// Executes one protocol line. `None` = not an operation of the store protocol.
    pub async fn exec(&mut self, op: &str) -> Option<ExecOut> {
        let w: Vec<&str> = op.split(' ').filter(|s| !s.is_empty()).collect();
        let mut out = ExecOut::default();
        let store = self.store.clone();
        out.line = match w.as_slice() {
            ["put", k, m, size, seed] => {
                let p = key_path(k)?;
                let mode = match *m {
                    "ow" => PutMode::Overwrite,
                    "cr" => PutMode::Create,
                    m => {
                        let parts: Vec<&str> = m.split(':').collect();
                        match parts.as_slice() {
                            ["up", t] => PutMode::Update(UpdateVersion { e_tag: self.resolve(t)?, version: None }),
                            ["up", t, "v"] => PutMode::Update(UpdateVersion { e_tag: self.resolve(t)?, version: Some("v1".into()) }),
                            _ => return None,
                        }
                    }
                };
                let data = gen_bytes(seed.parse().ok()?, size.parse().ok()?);
                match store.put_opts(&p, PutPayload::from(data), PutOptions { mode, ..Default::default() }).await {
                    Ok(r) => format!("ok tok={}{}", self.ord(r.e_tag.as_deref()), if r.version.is_some() { " version=some" } else { "" }),
                    Err(e) => err_kind(&e),
                }
            }
            ["mput", k, sizes, seed] => {
                let p = key_path(k)?;
                let sizes: Vec<usize> = if *sizes == "-" { vec![] } else { sizes.split(',').map(|s| s.parse().ok()).collect::<Option<_>>()? };
                let all = gen_bytes(seed.parse().ok()?, sizes.iter().sum());
                let mut res: Result<_, Error> = async {
                    let mut up = store.put_multipart(&p).await?;
                    let mut off = 0;
                    for s in &sizes {
                        up.put_part(PutPayload::from(all[off..off + s].to_vec())).await?;
                        off += s;
                    }
                    up.complete().await
                }
                .await;
                match res.as_mut() {
                    Ok(r) => format!("ok tok={}", self.ord(r.e_tag.as_deref())),
                    Err(e) => err_kind(e),
                }
            }
            [op @ ("mabort" | "mdrop"), k, sizes, seed] => {
                // a multipart upload that is aborted / dropped without `complete`
                let p = key_path(k)?;
                let sizes: Vec<usize> = if *sizes == "-" { vec![] } else { sizes.split(',').map(|s| s.parse().ok()).collect::<Option<_>>()? };
                let all = gen_bytes(seed.parse().ok()?, sizes.iter().sum());
                let res: Result<(), Error> = async {
                    let mut up = store.put_multipart(&p).await?;
                    let mut off = 0;
                    for s in &sizes {
                        up.put_part(PutPayload::from(all[off..off + s].to_vec())).await?;
                        off += s;
                    }
                    if *op == "mabort" {
                        up.abort().await?;
                    }
                    drop(up);
                    Ok(())
                }
                .await;
                match res {
                    Ok(()) => "ok".into(),
                    Err(e) => err_kind(&e),
                }
            }
            ["dels", ks] => {
                // one delete_stream over several locations; answers in input order
                let mut paths = vec![];
                if *ks != "-" {
                    for k in ks.split(',') {
                        paths.push(key_path(k)?);
                    }
                }
                let n = paths.len();
                let items: Vec<Result<Path, Error>> = store.delete_stream(futures::stream::iter(paths.into_iter().map(Ok)).boxed()).collect().await;
                let mut parts: Vec<String> = items.iter().map(|r| match r { Ok(_) => "ok".to_string(), Err(e) => err_kind(e) }).collect();
                if parts.len() != n {
                    parts.push(format!("yielded-{}-of-{n}", parts.len()));
                }
                format!("ok [{}]", parts.join(","))
            }
            ["put-x", k, size, seed] => {
                let data = gen_bytes(seed.parse().ok()?, size.parse().ok()?);
                match store.put(&key_path(k)?, PutPayload::from(data)).await {
                    Ok(r) => format!("ok tok={}{}", self.ord(r.e_tag.as_deref()), if r.version.is_some() { " version=some" } else { "" }),
                    Err(e) => err_kind(&e),
                }
            }
            ["head", k] => match store.head(&key_path(k)?).await {
                Ok(m) => format!("ok {}", self.show_meta(&m, &mut out.metas)),
                Err(e) => err_kind(&e),
            },
            ["getr", k, s, e] => match store.get_range(&key_path(k)?, s.parse().ok()?..e.parse().ok()?).await {
                Ok(b) => format!("ok data={}", show_data(&b)),
                Err(e) => err_kind(&e),
            },
            [op @ ("copy-x" | "copy-ine"), a, b] => {
                let (a, b) = (key_path(a)?, key_path(b)?);
                let r = if *op == "copy-x" { store.copy(&a, &b).await } else { store.copy_if_not_exists(&a, &b).await };
                match r {
                    Ok(()) => "ok".into(),
                    Err(e) => err_kind(&e),
                }
            }
            [op @ ("ren-x" | "ren-ine"), a, b] => {
                let (a, b) = (key_path(a)?, key_path(b)?);
                let r = if *op == "ren-x" { store.rename(&a, &b).await } else { store.rename_if_not_exists(&a, &b).await };
                match r {
                    Ok(()) => "ok".into(),
                    Err(e) => err_kind(&e),
                }
            }
            ["get", k, opts @ ..] => {
                let p = key_path(k)?;
                let mut o = GetOptions::default();
                for a in opts {
                    if *a == "head" {
                        o.head = true;
                        continue;
                    }
                    let (name, v) = a.split_once('=')?;
                    match name {
                        "im" => o.if_match = Some(self.cond(v)?),
                        "inm" => o.if_none_match = Some(self.cond(v)?),
                        "ims" => o.if_modified_since = Some(self.date(v).await?),
                        "ius" => o.if_unmodified_since = Some(self.date(v).await?),
                        "r" => {
                            let parts: Vec<&str> = v.split(':').collect();
                            o.range = Some(match parts.as_slice() {
                                ["b", s, e] => GetRange::Bounded(s.parse().ok()?..e.parse().ok()?),
                                ["o", n] => GetRange::Offset(n.parse().ok()?),
                                ["s", n] => GetRange::Suffix(n.parse().ok()?),
                                _ => return None,
                            });
                        }
                        _ => return None,
                    }
                }
                let head = o.head;
                match store.get_opts(&p, o).await {
                    Err(e) => err_kind(&e),
                    Ok(r) => {
                        let meta = r.meta.clone();
                        let range = r.range.clone();
                        let ms = self.show_meta(&meta, &mut out.metas);
                        if head {
                            format!("ok {ms}")
                        } else {
                            match r.bytes().await {
                                Ok(b) => format!("ok {ms} range={}..{} data={}", range.start, range.end, show_data(&b)),
                                Err(e) => format!("err:stream:{}", err_kind(&e)),
                            }
                        }
                    }
                }
            }
            ["ranges", k, rs] => {
                let p = key_path(k)?;
                let mut ranges = vec![];
                if *rs != "-" {
                    for r in rs.split(',') {
                        let (a, b) = r.split_once(':')?;
                        ranges.push(a.parse::<u64>().ok()?..b.parse::<u64>().ok()?);
                    }
                }
                match store.get_ranges(&p, &ranges).await {
                    Err(e) => err_kind(&e),
                    Ok(bs) => format!("ok {}", if bs.is_empty() { "-".to_string() } else { bs.iter().map(|b: &Bytes| show_data(b)).collect::<Vec<_>>().join(",") }),
                }
            }
            ["del", k] => match store.delete(&key_path(k)?).await {
                Ok(()) => "ok".into(),
                Err(e) => err_kind(&e),
            },
            ["copy", a, b, m] => {
                let mode = match *m { "ow" => CopyMode::Overwrite, "cr" => CopyMode::Create, _ => return None };
                match store.copy_opts(&key_path(a)?, &key_path(b)?, CopyOptions { mode, extensions: Default::default() }).await {
                    Ok(()) => "ok".into(),
                    Err(e) => err_kind(&e),
                }
            }
            ["ren", a, b, m] => {
                let target_mode = match *m { "ow" => RenameTargetMode::Overwrite, "cr" => RenameTargetMode::Create, _ => return None };
                match store.rename_opts(&key_path(a)?, &key_path(b)?, RenameOptions { target_mode, extensions: Default::default() }).await {
                    Ok(()) => "ok".into(),
                    Err(e) => err_kind(&e),
                }
            }
            ["list", pre, rest @ ..] => {
                let p = key_path(pre)?;
                let prefix = if *pre == "-" { None } else { Some(&p) };
                let res: Result<Vec<ObjectMeta>, Error> = match rest {
                    [] => store.list(prefix).try_collect().await,
                    [off] => {
                        let o = key_path(off.strip_prefix("off=")?)?;
                        store.list_with_offset(prefix, &o).try_collect().await
                    }
                    _ => return None,
                };
                match res {
                    Ok(ms) => format!("ok {}", self.show_metas(ms, &mut out.metas)),
                    Err(e) => err_kind(&e),
                }
            }
            ["listd", pre] => {
                let p = key_path(pre)?;
                let prefix = if *pre == "-" { None } else { Some(&p) };
                match store.list_with_delimiter(prefix).await {
                    Ok(r) => {
                        let mut ps: Vec<Path> = r.common_prefixes.clone();
                        ps.sort();
                        let ps: Vec<String> = ps.iter().map(show_key).collect();
                        format!("ok prefixes=[{}] objects={}", ps.join(","), self.show_metas(r.objects, &mut out.metas))
                    }
                    Err(e) => err_kind(&e),
                }
            }
            _ => return None,
        };
        Some(out)
    }
}

pub fn is_mutating(op: &str) -> bool {
    matches!(
        op.split(' ').next(),
        Some("put" | "mput" | "del" | "copy" | "ren" | "legacy" | "crash" | "mabort" | "mdrop" | "dels" | "put-x" | "copy-x" | "copy-ine" | "ren-x" | "ren-ine")
    )
}

/// The `*_opts` spelling of an `ObjectStoreExt` convenience op (`copy-ine a b` = `copy a b cr`, …):
/// the bookkeeping and the model see one alphabet, the implementation is entered through the named method.
pub fn canonical_op(op: &str) -> String {
    let w: Vec<&str> = op.split(' ').filter(|s| !s.is_empty()).collect();
    match w.as_slice() {
        ["put-x", k, size, seed] => format!("put {k} ow {size} {seed}"),
        ["head", k] => format!("get {k} head"),
        ["getr", k, s, e] => format!("get {k} r=b:{s}:{e}"),
        ["copy-x", a, b] => format!("copy {a} {b} ow"),
        ["copy-ine", a, b] => format!("copy {a} {b} cr"),
        ["ren-x", a, b] => format!("ren {a} {b} ow"),
        ["ren-ine", a, b] => format!("ren {a} {b} cr"),
        _ => op.to_string(),
    }
}

/// Replaces every raw time `@<n>` of a transcript by its rank among the distinct times of that
/// transcript (`@r<k>`): timestamps are compared by order only.
pub fn rank_times(lines: &[String]) -> Vec<String> {
    let mut all: Vec<i128> = vec![];
    for l in lines {
        for (i, _) in l.match_indices('@') {
            let digits: String = l[i + 1..].chars().take_while(|c| c.is_ascii_digit() || *c == '-').collect();
            if let Ok(n) = digits.parse::<i128>() {
                all.push(n);
            }
        }
    }
    all.sort();
    all.dedup();
    lines
        .iter()
        .map(|l| {
            let mut out = String::new();
            let mut rest = l.as_str();
            while let Some(i) = rest.find('@') {
                out.push_str(&rest[..i]);
                let digits: String = rest[i + 1..].chars().take_while(|c| c.is_ascii_digit() || *c == '-').collect();
                match digits.parse::<i128>() {
                    Ok(n) if !digits.is_empty() => {
                        out.push_str(&format!("@r{}", all.binary_search(&n).unwrap()));
                        rest = &rest[i + 1 + digits.len()..];
                    }
                    _ => {
                        out.push('@');
                        rest = &rest[i + 1..];
                    }
                }
            }
            out.push_str(rest);
            out
        })
        .collect()
}

/// Busy-waits until the wall clock is at least 2 ms past `since_ms` (so that consecutive commits
/// get distinct millisecond timestamps with a gap a `±1 ms` date condition fits into).
pub fn wait_past(since_ms: i64) -> i64 {
    loop {
        let now = chrono::Utc::now().timestamp_millis();
        if now >= since_ms + 3 {
            return now;
        }
        std::thread::sleep(std::time::Duration::from_micros(250));
    }
}
