//! `VStore` — the harness' own fault-injecting, recording `ObjectStore` wrapper.
//!
//! It plays the role `anda_object_store::FaultStore` plays in the repo's own crash test
//! (power failure after the k-th backend mutation, mutation log), and adds the one fault
//! the repo's wrapper cannot express for deletes: an **unknown outcome** — the mutation
//! reaches the backend but the caller is told it failed.
//!
//! Crash model (docs/testing.md): every single backend put / delete is atomic and durable;
//! a sequence of them can be interrupted anywhere.
use async_trait::async_trait;
use futures::{StreamExt, stream::BoxStream};
use object_store::{path::Path, *};
use std::sync::{
    Arc, Mutex,
    atomic::{AtomicBool, AtomicU64, Ordering},
};

#[derive(Debug)]
pub struct Ctl {
    off: AtomicBool,
    count: AtomicU64,
    crash_at: AtomicU64,
    unknown_at: AtomicU64,
    fail_at: AtomicU64,
    log: Mutex<Vec<(char, String)>>,
    /// fault armed relative to the mutations the model knows (see `arm_model`)
    model_arm: Mutex<Option<ModelArm>>,
    /// is this backend mutation one the model knows (document, ids, meta, checkpoint, watermark,
    /// intent, index manifest) — as opposed to bucket objects, obsolete deletes, db-level objects
    classify: fn(char, &str) -> bool,
}

#[derive(Debug, Clone, Copy, PartialEq, Eq)]
pub enum ArmKind {
    Crash,
    Fail,
    Unknown,
}

#[derive(Debug)]
struct ModelArm {
    kind: ArmKind,
    km: u64,
    g: u64,
    m_seen: u64,
    g_seen: u64,
}

impl Ctl {
    fn new(classify: fn(char, &str) -> bool) -> Ctl {
        Ctl {
            model_arm: Mutex::new(None),
            classify,
            off: AtomicBool::new(false),
            count: AtomicU64::new(0),
            crash_at: AtomicU64::new(u64::MAX),
            unknown_at: AtomicU64::new(u64::MAX),
            fail_at: AtomicU64::new(u64::MAX),
            log: Mutex::new(vec![]),
        }
    }
    fn injected(&self, what: &str, path: &Path) -> Error {
        Error::Generic { store: "VStore", source: format!("injected fault: {what} ({path})").into() }
    }
    /// `Ok(false)`: proceed normally. `Ok(true)`: apply the mutation, then report failure.
    fn intercept(&self, mutation: bool, op: char, path: &Path) -> Result<bool> {
        if self.off.load(Ordering::Acquire) {
            return Err(self.injected("power failure", path));
        }
        if !mutation {
            return Ok(false);
        }
        let n = self.count.fetch_add(1, Ordering::AcqRel);
        {
            let mut arm = self.model_arm.lock().unwrap();
            if let Some(a) = arm.as_mut() {
                let is_model = (self.classify)(op, path.as_ref());
                match a.kind {
                    ArmKind::Crash => {
                        let fire = if a.m_seen >= a.km {
                            if is_model || a.g_seen >= a.g {
                                true
                            } else {
                                a.g_seen += 1;
                                false
                            }
                        } else {
                            if is_model {
                                a.m_seen += 1;
                            }
                            false
                        };
                        if fire {
                            *arm = None;
                            self.off.store(true, Ordering::Release);
                            return Err(self.injected("power failure", path));
                        }
                    }
                    kind => {
                        if is_model {
                            if a.m_seen == a.km {
                                *arm = None;
                                if kind == ArmKind::Fail {
                                    return Err(self.injected("transient error", path));
                                }
                                return Ok(true);
                            }
                            a.m_seen += 1;
                        }
                    }
                }
            }
        }
        if n >= self.crash_at.load(Ordering::Acquire) {
            self.off.store(true, Ordering::Release);
            // the crash is spent; a later `crash_after` arms the next one
            self.crash_at.store(u64::MAX, Ordering::Release);
            return Err(self.injected("power failure", path));
        }
        if n == self.fail_at.load(Ordering::Acquire) {
            self.fail_at.store(u64::MAX, Ordering::Release);
            return Err(self.injected("transient error", path));
        }
        let _ = op;
        if n == self.unknown_at.load(Ordering::Acquire) {
            self.unknown_at.store(u64::MAX, Ordering::Release);
            return Ok(true);
        }
        Ok(false)
    }
    /// a mutation reached the backend and was applied there
    fn landed(&self, op: char, path: &Path) {
        self.log.lock().unwrap().push((op, path.to_string()));
    }
    /// Fault positioned relative to the mutations the model knows, counted from now.
    /// `Crash`: the first `km` model-level mutations and then `g` further abstracted ones (bucket
    /// objects, obsolete deletes, db-level objects) succeed; the next mutation — or already the next
    /// model-level one — meets the power loss. `Fail` / `Unknown`: the (km+1)-th model-level mutation.
    /// Independent of how many abstracted mutations the index crates happen to issue.
    pub fn arm_model(&self, kind: ArmKind, km: u64, g: u64) {
        *self.model_arm.lock().unwrap() = Some(ModelArm { kind, km, g, m_seen: 0, g_seen: 0 });
    }
    /// power failure after `n` more mutations (counted from now)
    pub fn crash_after(&self, n: u64) {
        let base = self.count.load(Ordering::Acquire);
        self.crash_at.store(base.saturating_add(n), Ordering::Release);
    }
    /// the `n`-th mutation from now (0-based) lands but reports an error; the store stays up
    pub fn unknown_after(&self, n: u64) {
        let base = self.count.load(Ordering::Acquire);
        self.unknown_at.store(base.saturating_add(n), Ordering::Release);
    }
    /// the `n`-th mutation from now (0-based) fails without landing; the store stays up
    pub fn fail_after(&self, n: u64) {
        let base = self.count.load(Ordering::Acquire);
        self.fail_at.store(base.saturating_add(n), Ordering::Release);
    }
    /// clears every armed fault (the power state is unchanged)
    pub fn disarm(&self) {
        self.crash_at.store(u64::MAX, Ordering::Release);
        self.unknown_at.store(u64::MAX, Ordering::Release);
        self.fail_at.store(u64::MAX, Ordering::Release);
        *self.model_arm.lock().unwrap() = None;
    }
    /// power returns; armed faults and the log are kept
    pub fn power_on(&self) {
        self.off.store(false, Ordering::Release);
    }
    /// a fault is armed and has not fired yet
    pub fn fault_pending(&self) -> bool {
        self.model_arm.lock().unwrap().is_some()
            || self.crash_at.load(Ordering::Acquire) != u64::MAX
            || self.unknown_at.load(Ordering::Acquire) != u64::MAX
            || self.fail_at.load(Ordering::Acquire) != u64::MAX
    }
    pub fn mutation_count(&self) -> u64 {
        self.count.load(Ordering::Acquire)
    }
    pub fn is_off(&self) -> bool {
        self.off.load(Ordering::Acquire)
    }
    pub fn log(&self) -> Vec<(char, String)> {
        self.log.lock().unwrap().clone()
    }
    pub fn log_len(&self) -> usize {
        self.log.lock().unwrap().len()
    }
    /// reboot: faults cleared, counters and log cleared, data kept
    pub fn reset(&self) {
        self.off.store(false, Ordering::Release);
        self.crash_at.store(u64::MAX, Ordering::Release);
        self.unknown_at.store(u64::MAX, Ordering::Release);
        self.fail_at.store(u64::MAX, Ordering::Release);
        *self.model_arm.lock().unwrap() = None;
        self.count.store(0, Ordering::Release);
        self.log.lock().unwrap().clear();
    }
}

#[derive(Debug)]
pub struct VStore {
    inner: Arc<dyn ObjectStore>,
    ctl: Arc<Ctl>,
}

impl VStore {
    pub fn wrap(inner: Arc<dyn ObjectStore>, classify: fn(char, &str) -> bool) -> (VStore, Arc<Ctl>) {
        let ctl = Arc::new(Ctl::new(classify));
        (VStore { inner, ctl: ctl.clone() }, ctl)
    }
}

impl std::fmt::Display for VStore {
    fn fmt(&self, f: &mut std::fmt::Formatter<'_>) -> std::fmt::Result {
        write!(f, "VStore({})", self.inner)
    }
}

#[async_trait]
impl ObjectStore for VStore {
    async fn put_opts(&self, location: &Path, payload: PutPayload, opts: PutOptions) -> Result<PutResult> {
        let unknown = self.ctl.intercept(true, 'P', location)?;
        let r = self.inner.put_opts(location, payload, opts).await;
        if r.is_ok() {
            self.ctl.landed('P', location);
        }
        if unknown {
            return Err(self.ctl.injected("unknown outcome", location));
        }
        r
    }

    async fn put_multipart_opts(&self, location: &Path, opts: PutMultipartOptions) -> Result<Box<dyn MultipartUpload>> {
        // counted when the upload is opened, like FaultStore; the unknown-outcome fault is not
        // applied to multipart uploads (none occurs in the C01 workloads)
        self.ctl.intercept(true, 'M', location)?;
        let inner = self.inner.put_multipart_opts(location, opts).await?;
        self.ctl.landed('M', location);
        Ok(Box::new(VUploader { location: location.clone(), ctl: self.ctl.clone(), inner }))
    }

    async fn get_opts(&self, location: &Path, options: GetOptions) -> Result<GetResult> {
        self.ctl.intercept(false, 'G', location)?;
        self.inner.get_opts(location, options).await
    }

    async fn get_ranges(&self, location: &Path, ranges: &[std::ops::Range<u64>]) -> Result<Vec<bytes::Bytes>> {
        self.ctl.intercept(false, 'G', location)?;
        self.inner.get_ranges(location, ranges).await
    }

    fn delete_stream(&self, locations: BoxStream<'static, Result<Path>>) -> BoxStream<'static, Result<Path>> {
        let ctl = self.ctl.clone();
        let inner = self.inner.clone();
        locations
            .then(move |location| {
                let ctl = ctl.clone();
                let inner = inner.clone();
                async move {
                    let location = location?;
                    let unknown = ctl.intercept(true, 'D', &location)?;
                    let r = inner.delete(&location).await;
                    if r.is_ok() {
                        ctl.landed('D', &location);
                    }
                    if unknown {
                        return Err(ctl.injected("unknown outcome", &location));
                    }
                    r.map(|_| location)
                }
            })
            .boxed()
    }

    fn list(&self, prefix: Option<&Path>) -> BoxStream<'static, Result<ObjectMeta>> {
        if let Err(err) = self.ctl.intercept(false, 'L', &prefix.cloned().unwrap_or_default()) {
            return futures::stream::once(async move { Err(err) }).boxed();
        }
        self.inner.list(prefix)
    }

    fn list_with_offset(&self, prefix: Option<&Path>, offset: &Path) -> BoxStream<'static, Result<ObjectMeta>> {
        if let Err(err) = self.ctl.intercept(false, 'L', &prefix.cloned().unwrap_or_default()) {
            return futures::stream::once(async move { Err(err) }).boxed();
        }
        self.inner.list_with_offset(prefix, offset)
    }

    async fn list_with_delimiter(&self, prefix: Option<&Path>) -> Result<ListResult> {
        self.ctl.intercept(false, 'L', &prefix.cloned().unwrap_or_default())?;
        self.inner.list_with_delimiter(prefix).await
    }

    async fn copy_opts(&self, from: &Path, to: &Path, options: CopyOptions) -> Result<()> {
        let unknown = self.ctl.intercept(true, 'C', from)?;
        let r = self.inner.copy_opts(from, to, options).await;
        if r.is_ok() {
            self.ctl.landed('C', from);
        }
        if unknown {
            return Err(self.ctl.injected("unknown outcome", from));
        }
        r
    }

    async fn rename_opts(&self, from: &Path, to: &Path, options: RenameOptions) -> Result<()> {
        let unknown = self.ctl.intercept(true, 'R', from)?;
        let r = self.inner.rename_opts(from, to, options).await;
        if r.is_ok() {
            self.ctl.landed('R', from);
        }
        if unknown {
            return Err(self.ctl.injected("unknown outcome", from));
        }
        r
    }
}

#[derive(Debug)]
struct VUploader {
    location: Path,
    ctl: Arc<Ctl>,
    inner: Box<dyn MultipartUpload>,
}

#[async_trait]
impl MultipartUpload for VUploader {
    fn put_part(&mut self, payload: PutPayload) -> UploadPart {
        if self.ctl.is_off() {
            let err = self.ctl.injected("power failure", &self.location);
            return Box::pin(async move { Err(err) });
        }
        self.inner.put_part(payload)
    }
    async fn complete(&mut self) -> Result<PutResult> {
        if self.ctl.is_off() {
            return Err(self.ctl.injected("power failure", &self.location));
        }
        self.inner.complete().await
    }
    async fn abort(&mut self) -> Result<()> {
        if self.ctl.is_off() {
            return Err(self.ctl.injected("power failure", &self.location));
        }
        self.inner.abort().await
    }
}
