//! The real code under test: `anda_db` driven in-process through its public API over a
//! recording / fault-injecting store.
use crate::ops::*;
use crate::store::*;
use anda_db::{
    collection::{Collection, CollectionConfig},
    database::{AndaDB, DBConfig},
    error::DBError,
    schema::{AndaDBSchema, Fv},
    storage::StorageConfig,
    unix_ms,
};
use anda_object_store::{EncryptedStoreBuilder, MetaStoreBuilder};
use object_store::{ObjectStore, ObjectStoreExt, memory::InMemory, path::Path};
use serde::{Deserialize, Serialize};
use std::collections::BTreeMap;
use std::sync::Arc;

#[derive(Debug, Clone, Serialize, Deserialize, PartialEq, AndaDBSchema)]
pub struct DocR {
    pub _id: u64,
    pub a: u64,
    pub t: String,
    pub n: u64,
}

impl DocR {
    fn from_c(d: &DocC) -> DocR {
        DocR { _id: 0, a: d.a, t: d.text(), n: d.body }
    }
    pub fn to_c(&self) -> Option<DocC> {
        let mut ws = vec![];
        for w in self.t.split(' ').filter(|w| !w.is_empty()) {
            ws.push(WORDS.iter().position(|x| *x == w)?);
        }
        ws.sort();
        ws.dedup();
        Some(DocC { body: self.n, a: self.a, ws })
    }
}

#[derive(Clone, Copy, Debug, PartialEq, Eq)]
pub enum Backend {
    Mem,
    Meta,
    Enc,
}

impl Backend {
    pub fn name(self) -> &'static str {
        match self {
            Backend::Mem => "InMemory",
            Backend::Meta => "MetaStore(InMemory)",
            Backend::Enc => "EncryptedStore(InMemory)",
        }
    }
}

pub const FLUSH_BASE_MS: u64 = 4_000_000_000_000;

fn db_config(small_buckets: bool) -> DBConfig {
    let mut storage = StorageConfig { compress_level: 0, ..Default::default() };
    if small_buckets {
        // index buckets overflow after a handful of postings: flushes write several bucket
        // objects, compaction really merges
        storage.bucket_overload_size = 48;
    }
    DBConfig { name: "db".into(), description: String::new(), storage, lock: None }
}

pub fn canon_err(e: &DBError) -> String {
    if e.collection_state().is_some() {
        return "err:state".into();
    }
    match e {
        DBError::NotFound { .. } => "err:notfound".into(),
        DBError::AlreadyExists { .. } => "err:exists".into(),
        DBError::Precondition { .. } => "err:precond".into(),
        _ => {
            let s = format!("{e:?}");
            if s.contains("injected fault") {
                "err:io".into()
            } else if s.contains("Precondition {") {
                // a conditional PUT of an index manifest rejected (wrapped in DBError::Index)
                "err:precond".into()
            } else { format!("err:other({})", s.replace('\n', " ").chars().take(160).collect::<String>()) }
        }
    }
}

pub struct Real {
    pub backend: Backend,
    pub mem: Arc<InMemory>,
    base: Arc<VStore>,
    pub ctl: Arc<Ctl>,
    db: Option<AndaDB>,
    pub c: Option<Arc<Collection>>,
    last_real_ms: u64,
    log_pos: usize,
    small_buckets: bool,
    /// the open callback creates (true) / removes (false) a B-tree index on `n`
    pub want_extra: bool,
    pub same_process_reopens: u64,
}

pub enum OpenOutcome {
    Ok,
    /// leftover files of a crashed create: the documented delete-and-recreate was needed
    Recreated,
    Err(String),
}

impl Real {
    /// a fresh store; nothing created yet
    pub fn blank(backend: Backend, small_buckets: bool) -> Real {
        let mem = Arc::new(InMemory::new());
        let (vs, ctl) = VStore::wrap(mem.clone(), |op, path| model_event(op, path).is_some());
        Real { backend, mem, base: Arc::new(vs), ctl, db: None, c: None, last_real_ms: 0, log_pos: 0, small_buckets, want_extra: false, same_process_reopens: 0 }
    }

    /// the store a freshly booted process would build (wrapper caches start empty)
    fn top(&self) -> Arc<dyn ObjectStore> {
        match self.backend {
            Backend::Mem => self.base.clone(),
            Backend::Meta => Arc::new(MetaStoreBuilder::new(SharedStore(self.base.clone()), 10_000).build()),
            Backend::Enc => Arc::new(EncryptedStoreBuilder::with_secret(SharedStore(self.base.clone()), 10_000, [7u8; 32]).build()),
        }
    }

    /// wall clock strictly after every earlier wall-clock event of this store, so that the
    /// rate limiter of `Storage::store_metadata` behaves as the model's ordered stand-ins say
    fn tick(&mut self) {
        loop {
            let now = unix_ms();
            if now > self.last_real_ms {
                self.last_real_ms = now;
                return;
            }
            std::thread::sleep(std::time::Duration::from_micros(100));
        }
    }

    /// end of a wall-clock event (no waiting; the next event's `tick` waits if it must)
    fn stamp(&mut self) {
        self.last_real_ms = self.last_real_ms.max(unix_ms());
    }

    /// `same_process`: keep the `AndaDB` instance and let `open_or_create_collection` discard the
    /// poisoned / closed handle and reload (database.rs `open_collection_with_schema`); otherwise
    /// a fresh process: new `AndaDB::connect`
    async fn open_raw(&mut self, allow_recreate: bool, same_process: bool) -> OpenOutcome {
        self.c = None;
        let kept = if same_process { self.db.take() } else { None };
        self.db = None;
        self.tick();
        let want_extra = self.want_extra;
        let db = match kept {
            Some(db) => db,
            None => match AndaDB::connect(self.top(), db_config(self.small_buckets)).await {
                Ok(db) => db,
                Err(e) => return OpenOutcome::Err(canon_err(&e)),
            },
        };
        let open = async |db: &AndaDB| {
            db.open_or_create_collection(DocR::schema()?, CollectionConfig { name: "c".into(), description: String::new() }, async |c| {
                c.create_btree_index_nx(&["a"]).await?;
                c.create_bm25_index_nx(&["t"]).await?;
                if want_extra {
                    c.create_btree_index_nx(&["n"]).await?;
                } else {
                    c.remove_btree_index(&["n"]).await?;
                }
                Ok(())
            })
            .await
        };
        let mut outcome = OpenOutcome::Ok;
        let c = match open(&db).await {
            Ok(c) => c,
            Err(DBError::AlreadyExists { .. }) if allow_recreate => {
                if let Err(e) = db.delete_collection("c").await {
                    return OpenOutcome::Err(format!("delete_collection: {}", canon_err(&e)));
                }
                outcome = OpenOutcome::Recreated;
                match open(&db).await {
                    Ok(c) => c,
                    Err(e) => return OpenOutcome::Err(format!("recreate: {}", canon_err(&e))),
                }
            }
            Err(e) => {
                self.stamp();
                return OpenOutcome::Err(canon_err(&e));
            }
        };
        self.stamp();
        self.db = Some(db);
        self.c = Some(c);
        outcome
    }

    /// created, registered and flushed collection; faults, counters and log cleared
    pub async fn setup(backend: Backend, small_buckets: bool) -> Result<Real, String> {
        let mut r = Real::blank(backend, small_buckets);
        match r.open_raw(false, false).await {
            OpenOutcome::Ok => {}
            OpenOutcome::Recreated => unreachable!(),
            OpenOutcome::Err(e) => return Err(format!("setup: {e}")),
        }
        r.ctl.reset();
        r.log_pos = 0;
        Ok(r)
    }

    pub async fn open_after_create_crash(&mut self) -> OpenOutcome {
        self.ctl.power_on();
        self.open_raw(true, false).await
    }

    pub fn off(&self) -> bool {
        self.ctl.is_off()
    }

    /// executes one line; the canonical answer
    pub async fn exec(&mut self, line: &Line) -> String {
        match line {
            Line::Arm(k, km, b) => {
                self.ctl.disarm();
                if self.backend == Backend::Mem {
                    // plain backend: positioned on the mutations the model knows, `b` = further abstracted ones let through
                    let kind = match k {
                        Kind::Crash => ArmKind::Crash,
                        Kind::Fail => ArmKind::Fail,
                        Kind::Unknown => ArmKind::Unknown,
                    };
                    self.ctl.arm_model(kind, *km, *b);
                } else {
                    // wrapper backends: `b` counts raw backend mutations
                    match k {
                        Kind::Crash => self.ctl.crash_after(*b),
                        Kind::Fail => self.ctl.fail_after(*b),
                        Kind::Unknown => self.ctl.unknown_after(*b),
                    }
                }
                return "ok".into();
            }
            Line::Disarm => {
                self.ctl.disarm();
                return "ok".into();
            }
            Line::WantIx(b) => {
                self.want_extra = *b;
                return "ok".into();
            }
            Line::Reopen(n) => {
                // every other reopen of a handle that is poisoned or closed while the power stayed
                // on happens inside the same process (same `AndaDB`), the rest after a process restart
                let same_process = *n % 2 == 0
                    && !self.off()
                    && self.db.is_some()
                    && self.c.as_ref().is_some_and(|c| c.is_poisoned() || matches!(c.state(), anda_db::error::CollectionState::Closed));
                self.ctl.power_on();
                self.same_process_reopens += same_process as u64;
                return match self.open_raw(false, same_process).await {
                    OpenOutcome::Ok | OpenOutcome::Recreated => "ok".into(),
                    OpenOutcome::Err(e) => {
                        self.c = None;
                        self.db = None;
                        e
                    }
                };
            }
            _ => {}
        }
        let Some(c) = self.c.clone() else { return "err:nohandle".into() };
        match line {
            Line::Add(d) => match c.add_from(&DocR::from_c(d)).await {
                Ok(id) => format!("ok {id}"),
                Err(e) => canon_err(&e),
            },
            Line::Update(id, p) => {
                let mut f = BTreeMap::new();
                f.insert("n".to_string(), Fv::U64(p.body));
                if let Some(a) = p.a {
                    f.insert("a".to_string(), Fv::U64(a));
                }
                if let Some(ws) = &p.ws {
                    f.insert("t".to_string(), Fv::Text(ws.iter().map(|w| WORDS[*w]).collect::<Vec<_>>().join(" ")));
                }
                match c.update(*id, f).await {
                    Ok(_) => "ok".into(),
                    Err(e) => canon_err(&e),
                }
            }
            Line::Remove(id) => match c.remove(*id).await {
                Ok(None) => "ok none".into(),
                Ok(Some(doc)) => match doc.try_into::<DocR>() {
                    Ok(d) => d.to_c().map(|d| d.show()).unwrap_or_else(|| "ok doc ?".into()),
                    Err(e) => format!("err:other(decode {e:?})"),
                },
                Err(e) => canon_err(&e),
            },
            Line::SaveExt(n) => match c.save_extension("k".to_string(), Fv::U64(*n)).await {
                Ok(()) => "ok".into(),
                Err(e) => canon_err(&e),
            },
            Line::Compact(ix) => {
                let r = if *ix == 0 { c.compact_btree_index(&["a"]).await } else { c.compact_bm25_index(&["t"]).await };
                match r {
                    Ok(()) => "ok".into(),
                    Err(e) => canon_err(&e),
                }
            }
            Line::Flush(now) => match c.flush(FLUSH_BASE_MS + *now).await {
                Ok(b) => format!("ok {b}"),
                Err(e) => canon_err(&e),
            },
            Line::Close(_) => {
                self.tick();
                let r = match &self.db {
                    Some(db) => db.close_collection("c").await,
                    None => return "err:nohandle".into(),
                };
                self.stamp();
                match r {
                    Ok(()) => "ok".into(),
                    Err(e) => canon_err(&e),
                }
            }
            _ => unreachable!(),
        }
    }

    /// model-level events of the backend mutations that landed since the previous call
    pub async fn take_log(&mut self) -> String {
        let log = self.ctl.log();
        let mut out = vec![];
        for (op, path) in &log[self.log_pos.min(log.len())..] {
            if let Some(ev) = model_event(*op, path) {
                if ev == "wm" {
                    out.push(format!("wm {}", self.read_watermark().await.map(|v| v.to_string()).unwrap_or_else(|| "?".into())));
                } else {
                    out.push(ev);
                }
            }
        }
        self.log_pos = log.len();
        if out.is_empty() { "-".into() } else { out.join(";") }
    }

    /// raw mutation log (op, path) since the last reset
    pub fn raw_log(&self) -> Vec<(char, String)> {
        self.ctl.log()
    }

    /// decodes `alloc_watermark.cbor` (a CBOR unsigned integer) straight from the backend
    /// (plain backend only; the wrappers store it encoded differently)
    async fn read_watermark(&self) -> Option<u64> {
        if self.backend != Backend::Mem {
            return None;
        }
        let b = self.mem.get(&Path::from("db/c/alloc_watermark.cbor")).await.ok()?.bytes().await.ok()?;
        let (&h, rest) = b.split_first()?;
        match h {
            0..=23 => Some(h as u64),
            0x18 => rest.first().map(|x| *x as u64),
            0x19 => rest.get(..2).map(|x| u16::from_be_bytes([x[0], x[1]]) as u64),
            0x1a => rest.get(..4).map(|x| u32::from_be_bytes([x[0], x[1], x[2], x[3]]) as u64),
            0x1b => rest.get(..8).map(|x| u64::from_be_bytes([x[0], x[1], x[2], x[3], x[4], x[5], x[6], x[7]])),
            _ => None,
        }
    }

    /// durable facts read straight from the backend (plain backend only) and from the handle:
    /// ids of the document objects, number of intent objects, storage checkpoint, max_document_id
    pub async fn state(&self) -> Option<String> {
        use futures::StreamExt;
        if self.backend != Backend::Mem {
            return None;
        }
        let c = self.c.as_ref()?;
        let mut docs = vec![];
        let mut intents = 0usize;
        let mut st = self.mem.list(Some(&Path::from("db/c")));
        while let Some(m) = st.next().await {
            let p = m.ok()?.location.to_string();
            if let Some(f) = p.strip_prefix("db/c/data/") {
                docs.push(f.strip_suffix(".cbor")?.parse::<u64>().ok()?);
            } else if p.starts_with("db/c/mutation_intents/") {
                intents += 1;
            }
        }
        docs.sort();
        Some(format!(
            "state docs={} intents={intents} cp={} maxid={}",
            if docs.is_empty() { "-".to_string() } else { vh_common::join(&docs, ",") },
            c.storage_stats().check_point,
            c.max_document_id()
        ))
    }

    /// `stats().version` of index 0 (B-tree `a`) / 1 (BM25 `t`): bumped by `compact_buckets` exactly
    /// when it rebuilds the bucket table
    pub fn ix_version(&self, ix: u64) -> Option<u64> {
        let c = self.c.as_ref()?;
        if ix == 0 { c.get_btree_index(&["a"]).ok().map(|v| v.stats().version) } else { c.get_bm25_index(&["t"]).ok().map(|v| v.stats().version) }
    }

    pub fn ids(&self) -> Option<Vec<u64>> {
        let c = self.c.as_ref()?;
        let mut v = c.ids();
        v.sort();
        Some(v)
    }

    pub async fn get(&self, id: u64) -> String {
        let Some(c) = self.c.as_ref() else { return "err:nohandle".into() };
        match c.get_as::<DocR>(id).await {
            Ok(d) => match d.to_c() {
                Some(dc) if d._id == id => dc.show(),
                _ => format!("err:other(document {id} decodes to {d:?})"),
            },
            Err(e) => canon_err(&e),
        }
    }

    pub fn ix(&self, ix: usize, key: u64) -> String {
        let Some(c) = self.c.as_ref() else { return "err:nohandle".into() };
        let mut ids: Vec<u64> = match ix {
            0 => match c.get_btree_index(&["a"]) {
                Ok(v) => v.query_with(&Fv::U64(key), |ids| Some(ids.clone())).unwrap_or_default(),
                Err(e) => return canon_err(&e),
            },
            2 => match c.get_btree_index(&["n"]) {
                Ok(v) => v.query_with(&Fv::U64(key), |ids| Some(ids.clone())).unwrap_or_default(),
                Err(_) => return "noindex".into(),
            },
            _ => match c.get_bm25_index(&["t"]) {
                Ok(v) => v.search(WORDS[key as usize], 100_000, None).into_iter().map(|(id, _)| id).collect(),
                Err(e) => return canon_err(&e),
            },
        };
        ids.sort();
        ids.dedup();
        format!("ix {}", if ids.is_empty() { "-".to_string() } else { vh_common::join(ids, ",") })
    }
}

/// `MetaStoreBuilder` / `EncryptedStoreBuilder` take the store by value; this shares one `VStore`
/// (and so one fault controller, one backend) between the wrappers of successive boots.
#[derive(Debug)]
pub struct SharedStore(pub Arc<VStore>);

impl std::fmt::Display for SharedStore {
    fn fmt(&self, f: &mut std::fmt::Formatter<'_>) -> std::fmt::Result {
        write!(f, "{}", self.0)
    }
}

#[async_trait::async_trait]
impl ObjectStore for SharedStore {
    async fn put_opts(&self, location: &Path, payload: object_store::PutPayload, opts: object_store::PutOptions) -> object_store::Result<object_store::PutResult> {
        self.0.put_opts(location, payload, opts).await
    }
    async fn put_multipart_opts(&self, location: &Path, opts: object_store::PutMultipartOptions) -> object_store::Result<Box<dyn object_store::MultipartUpload>> {
        self.0.put_multipart_opts(location, opts).await
    }
    async fn get_opts(&self, location: &Path, options: object_store::GetOptions) -> object_store::Result<object_store::GetResult> {
        self.0.get_opts(location, options).await
    }
    async fn get_ranges(&self, location: &Path, ranges: &[std::ops::Range<u64>]) -> object_store::Result<Vec<bytes::Bytes>> {
        self.0.get_ranges(location, ranges).await
    }
    fn delete_stream(
        &self,
        locations: futures::stream::BoxStream<'static, object_store::Result<Path>>,
    ) -> futures::stream::BoxStream<'static, object_store::Result<Path>> {
        self.0.delete_stream(locations)
    }
    fn list(&self, prefix: Option<&Path>) -> futures::stream::BoxStream<'static, object_store::Result<object_store::ObjectMeta>> {
        self.0.list(prefix)
    }
    fn list_with_offset(&self, prefix: Option<&Path>, offset: &Path) -> futures::stream::BoxStream<'static, object_store::Result<object_store::ObjectMeta>> {
        self.0.list_with_offset(prefix, offset)
    }
    async fn list_with_delimiter(&self, prefix: Option<&Path>) -> object_store::Result<object_store::ListResult> {
        self.0.list_with_delimiter(prefix).await
    }
    async fn copy_opts(&self, from: &Path, to: &Path, options: object_store::CopyOptions) -> object_store::Result<()> {
        self.0.copy_opts(from, to, options).await
    }
    async fn rename_opts(&self, from: &Path, to: &Path, options: object_store::RenameOptions) -> object_store::Result<()> {
        self.0.rename_opts(from, to, options).await
    }
}
