//! Independent oracle of C01: the durability contract of docs/testing.md evaluated on the
//! answers of the real code only (no Lean model involved).
//!
//! Per document id it tracks the set of states the history allows the document to be in
//! durably: exactly one after an acknowledged (`ok`) mutation, before-or-after for a mutation
//! that returned an error (in flight at the crash / unknown outcome). After a successful reopen:
//!   * every id answers `get` with a member of its allowed set — intact, decodable, its own id;
//!     a document under an id the history never acknowledged must be the complete payload of an
//!     `add` that returned an error (all-or-nothing);
//!   * `ids()` lists exactly the ids `get` returns;
//!   * a reopen with no fault pending succeeds ("never bricked");
//!   * an `add` never returns an id a successful flush / close / reopen had acknowledged for a
//!     document, nor the id of a document that may still exist.
use crate::ops::*;
use std::collections::{BTreeMap, BTreeSet};

#[derive(Default, Clone)]
pub struct Oracle {
    /// allowed durable states per id (`None` = absent); ids never mentioned are absent
    pub cur: BTreeMap<u64, BTreeSet<Option<DocC>>>,
    /// payloads of adds that returned an I/O error: may exist under an id we were never told
    pub ghosts: Vec<DocC>,
    /// ids that held an acknowledged document at a successful flush / close / reopen
    pub flush_acked: BTreeSet<u64>,
    pub failures: Vec<(String, String, String, String)>, // key, what, expected, observed
    pub max_id_seen: u64,
    pub adds_attempted: u64,
    /// a fault was injected at some point of this history
    pub ever_faulted: bool,
}

impl Oracle {
    fn fail(&mut self, key: &str, what: &str, expected: String, observed: String) {
        self.failures.push((key.into(), what.into(), expected, observed));
    }

    fn ack_flush(&mut self) {
        for (id, s) in &self.cur {
            if s.len() == 1 && s.iter().next().unwrap().is_some() {
                self.flush_acked.insert(*id);
            }
        }
    }

    /// `fault_possible`: a fault was armed (and not yet spent) or the store was powered off when the op ran
    pub fn observe(&mut self, line: &Line, out: &str, fault_possible: bool) {
        let ok = out.starts_with("ok");
        // a rejected conditional PUT is one more way an in-flight mutation may or may not have landed
        let io = out == "err:io" || out == "err:precond";
        self.ever_faulted |= fault_possible;
        if out == "err:precond" && !self.ever_faulted {
            self.fail("precondition-without-fault", "a conditional write was rejected although no fault was ever injected (single writer)", "ok".into(), format!("{} -> {out}", line.show()));
        }
        if out.starts_with("err:other") {
            self.fail("unexpected-error", "an operation failed with an error the contract does not allow", "ok or a classified error".into(), format!("{} -> {out}", line.show()));
        }
        if out == "err:io" && !fault_possible {
            self.fail("io-error-without-fault", "an operation reported a storage failure although no fault was injected", "ok".into(), format!("{} -> {out}", line.show()));
        }
        match line {
            Line::Add(d) => {
                self.adds_attempted += 1;
                if ok {
                    let id: u64 = out[3..].parse().unwrap_or(0);
                    self.max_id_seen = self.max_id_seen.max(id);
                    if self.flush_acked.contains(&id) {
                        self.fail("id-reused", "add returned an id that a successful flush had acknowledged for another document", "a fresh id".into(), format!("add -> {id}"));
                    }
                    if self.cur.get(&id).is_some_and(|s| s.iter().any(|x| x.is_some())) {
                        self.fail("id-reused-live", "add returned the id of a document that may still exist", "a fresh id".into(), format!("add -> {id}"));
                    }
                    self.cur.insert(id, BTreeSet::from([Some(d.clone())]));
                } else if io {
                    self.ghosts.push(d.clone());
                }
            }
            Line::Update(id, p) => {
                let s = self.cur.entry(*id).or_insert_with(|| BTreeSet::from([None]));
                let after: BTreeSet<Option<DocC>> = s.iter().filter_map(|x| x.as_ref().map(|d| Some(d.patched(p)))).collect();
                if ok {
                    if after.is_empty() {
                        self.fail("update-of-absent", "update succeeded on a document the history says is absent", "err:notfound".into(), format!("update {id} -> ok"));
                    } else {
                        *s = after;
                    }
                } else if io {
                    s.extend(after);
                }
            }
            Line::Remove(id) => {
                let s = self.cur.entry(*id).or_insert_with(|| BTreeSet::from([None]));
                if ok {
                    *s = BTreeSet::from([None]);
                } else if io {
                    s.insert(None);
                }
            }
            Line::Flush(_) | Line::Close(_) => {
                if ok {
                    self.ack_flush();
                }
            }
            Line::Reopen(_) => {
                if !ok && !fault_possible {
                    self.fail("reopen-failed", "the collection did not reopen although no fault was pending", "ok".into(), out.into());
                }
            }
            Line::Arm(..) | Line::Disarm | Line::SaveExt(_) | Line::Compact(_) | Line::WantIx(_) => {}
        }
    }

    /// ids to probe after a reopen: everything the history could have touched
    pub fn probe_bound(&self) -> u64 {
        self.max_id_seen.max(self.cur.keys().next_back().copied().unwrap_or(0)).max(self.adds_attempted) + 2
    }

    /// `gets`: id ↦ canonical `get` answer; `ids`: `Collection::ids()`
    pub fn check_recovered(&mut self, gets: &BTreeMap<u64, String>, ids: &[u64]) {
        let mut live = BTreeSet::new();
        for (id, ans) in gets {
            let allowed = self.cur.get(id).cloned();
            if let Some(rest) = ans.strip_prefix("ok doc ") {
                live.insert(*id);
                let got = parse_doc(rest);
                match (&allowed, &got) {
                    (_, None) => self.fail("undecodable", "a document came back in a form the workload never wrote", "a written document".into(), format!("get {id} -> {ans}")),
                    (Some(s), Some(d)) => {
                        if !s.contains(&Some(d.clone())) {
                            let key = if s.len() == 1 { "acked-doc-wrong" } else { "inflight-mixed" };
                            self.fail(key, "a document is not in a state its mutation history allows", format!("one of {s:?}"), format!("get {id} -> {ans}"));
                        }
                    }
                    (None, Some(d)) => {
                        if let Some(p) = self.ghosts.iter().position(|g| g == d) {
                            self.ghosts.remove(p);
                        } else {
                            self.fail("phantom-doc", "a document exists under an id no add was acknowledged for, and it is not the payload of a failed add", "absent, or the payload of an add that returned an error".into(), format!("get {id} -> {ans}"));
                        }
                    }
                }
                if let Some(d) = got {
                    self.cur.insert(*id, BTreeSet::from([Some(d)]));
                    self.max_id_seen = self.max_id_seen.max(*id);
                }
            } else if ans == "err:notfound" {
                if let Some(s) = &allowed {
                    if !s.contains(&None) {
                        let key = if self.flush_acked.contains(id) { "flushed-doc-lost" } else { "acked-doc-lost" };
                        self.fail(key, "an acknowledged document is gone after recovery", format!("one of {s:?}"), format!("get {id} -> {ans}"));
                    }
                    self.cur.insert(*id, BTreeSet::from([None]));
                }
            } else {
                self.fail("unreadable", "a document id answers with an error after recovery", "a document or not-found".into(), format!("get {id} -> {ans}"));
            }
        }
        let listed: BTreeSet<u64> = ids.iter().copied().collect();
        if listed != live {
            self.fail("ids-get-mismatch", "ids() and get() disagree after recovery", format!("ids = {live:?}"), format!("ids = {listed:?}"));
        }
        // a successful reopen ends with a successful flush
        self.ack_flush();
    }
}

impl Oracle {
    /// docs/testing.md: acknowledged documents are "intact *and indexed*" after the reboot — every
    /// posting list of every index must hold exactly the ids whose stored document owns the key
    /// (recovery converges for the derived indexes too, not only for the documents).
    /// `postings`: (index, key) ↦ canonical answer `ix <csv>`
    pub fn check_indexes(&mut self, gets: &BTreeMap<u64, String>, postings: &BTreeMap<(usize, u64), String>) {
        let docs: BTreeMap<u64, DocC> = gets.iter().filter_map(|(id, a)| a.strip_prefix("ok doc ").and_then(parse_doc).map(|d| (*id, d))).collect();
        for ((ix, key), ans) in postings {
            if ans == "noindex" {
                continue;
            }
            let want: Vec<u64> = docs
                .iter()
                .filter(|(_, d)| match *ix {
                    0 => d.a == *key,
                    1 => d.ws.contains(&(*key as usize)),
                    _ => d.body == *key,
                })
                .map(|(id, _)| *id)
                .collect();
            let want = format!("ix {}", if want.is_empty() { "-".to_string() } else { want.iter().map(|x| x.to_string()).collect::<Vec<_>>().join(",") });
            if &want != ans {
                let key_name = match *ix {
                    0 => "index-vs-docs:btree",
                    1 => "index-vs-docs:bm25",
                    _ => "index-vs-docs:btree-created-in-callback",
                };
                self.fail(key_name, "after recovery an index does not answer from the stored documents", format!("index {ix} key {key}: {want}"), format!("index {ix} key {key}: {ans}"));
                return;
            }
        }
    }
}

/// `<body> 0:<a>,1:<w>…`
fn parse_doc(s: &str) -> Option<DocC> {
    match Line::parse(&format!("add {s}"))? {
        Line::Add(d) => Some(d),
        _ => None,
    }
}
