//! C01 — flushed documents survive any crash; recovery always converges.
//!
//! A *base workload* is a fault-free history over {add, update, remove, flush, close, reopen}.
//! From its clean run (whose canonicalised backend mutation log is diffed, operation by
//! operation, against the step list of the Lean crash machine) the harness derives *variants*:
//!   crash k          power loss after the k-th backend mutation, reboot, reopen
//!   crash k / j      the same, and a second fault on the j-th mutation of the recovery itself
//!   fail|unknown p   a single backend call fails / lands-but-reports-failure, the process goes on
//! Every variant ends with reopen · add · flush · reopen ("accepts and persists new writes").
//! Each variant is executed line by line on the real code (in-process, `VStore` over `InMemory`)
//! and on the Lean driver; answers, mutation logs and, after every successful reopen, `ids`,
//! every `get` and every posting list of both indexes are compared.  Independently the oracle
//! (`oracle.rs`) evaluates the durability contract on the real answers alone.
mod gen_;
mod ops;
mod oracle;
mod real;
mod store;

use ops::*;
use oracle::Oracle;
use real::*;
use std::collections::BTreeMap;
use std::sync::atomic::{AtomicU64, Ordering};
use std::sync::{Arc, Mutex};
use vh_common::serde_json::json;
use vh_common::*;

#[derive(Default)]
pub struct VarOut {
    pub outs: Vec<(String, String)>, // executed line, real answer
    pub disagreements: Vec<(String, String, String)>, // what, model, impl
    pub failures: Vec<(String, String, String, String)>,
    pub raw: Vec<(char, String)>,
    /// raw-log length before / after each line of the variant (usize::MAX = line skipped)
    pub raw_before: Vec<usize>,
    pub raw_after: Vec<usize>,
    /// the store was powered off when the line started
    pub off_before: Vec<bool>,
    pub nontrivial: bool,
    pub compared: u64,
    pub hits: Vec<String>,
    pub recreated: bool,
}

/// runs one variant on the real code (+ oracle) and, when given, on the Lean driver
pub async fn run_variant(backend: Backend, lines: &[Line], mut model: Option<&mut ModelProc>) -> Result<VarOut, String> {
    let unmodelled = lines.iter().any(|l| l.unmodelled());
    if unmodelled {
        model = None;
    }
    let mut real = Real::setup(backend, lines.iter().any(|l| l.wants_small_buckets())).await?;
    let mut o = VarOut::default();
    let mut oracle = Oracle::default();
    if let Some(m) = model.as_deref_mut() {
        let a = m.ask("reset 2");
        if a != "ok" {
            o.disagreements.push(("driver reset".into(), a, "ok".into()));
        }
    }
    let mut acked_mutation = false;
    for line in lines {
        let is_ctl = matches!(line, Line::Reopen(_) | Line::Arm(..) | Line::Disarm);
        if real.off() && !is_ctl {
            // the process died with the power: nothing more runs until the reboot
            o.raw_before.push(usize::MAX);
            o.raw_after.push(usize::MAX);
            o.off_before.push(true);
            o.hits.push("skipped-after-power-loss".into());
            continue;
        }
        let fault_possible = real.ctl.fault_pending() || real.off();
        o.raw_before.push(real.ctl.log_len());
        o.off_before.push(real.off());
        let attempts_before = real.ctl.mutation_count();
        let ixv_before = if let Line::Compact(ix) = line { real.ix_version(*ix) } else { None };
        let out = real.exec(line).await;
        // compaction: whether the bucket merge shrank the index (and the index flushed itself) is the
        // index crate's packing decision — observed, and handed to the model as an input
        let model_line = match line {
            Line::Compact(ix) => {
                let commits = real.ctl.mutation_count() > attempts_before;
                let dirtied = !commits && real.ix_version(*ix) != ixv_before;
                o.hits.push(format!("compact:{}", if commits { "flushes" } else if dirtied { "rebuilds-without-flush" } else { "noop" }));
                format!("compact {ix} {} {}", commits as u8, dirtied as u8)
            }
            other => other.model_line(),
        };
        let fault_possible = fault_possible || real.off();
        o.raw_after.push(real.ctl.log_len());
        o.hits.push(format!("op:{}", line.tag()));
        o.hits.push(format!("out:{}", out.split(' ').next().unwrap_or("")));
        if out.starts_with("ok") && matches!(line, Line::Add(_) | Line::Update(..) | Line::Remove(_)) && out != "ok none" {
            acked_mutation = true;
        }
        oracle.observe(line, &out, fault_possible);
        let real_log = real.take_log().await;
        if let Some(m) = model.as_deref_mut() {
            let mo = m.ask(&model_line);
            o.compared += 1;
            if mo != out {
                o.disagreements.push((format!("answer of `{}`", line.show()), mo.clone(), out.clone()));
            }
            let ml = m.ask("log");
            // which branch of the model this line took (coverage of the model under the correspondence run)
            {
                let has = |e: &str| ml.split(';').any(|x| x == e || x.starts_with(&format!("{e} ")));
                let err = mo.starts_with("err");
                let mut b: Vec<&str> = vec![];
                match line {
                    Line::Add(_) => {
                        if has("wm") { b.push("add:watermark-put"); }
                        if err && has("del") { b.push("add:compensating-delete-landed"); }
                        if err && !has("doc") && !has("del") && mo == "err:io" { b.push("add:failed-before-or-at-create"); }
                        if err && has("doc") { b.push("add:create-landed-unacked"); }
                    }
                    Line::Update(..) | Line::Remove(_) => {
                        if err && has("intent+") && !has("doc") && !has("del") { b.push("mutate:intent-landed-doc-not"); }
                        if err && (has("doc") || has("del")) { b.push("mutate:doc-step-landed-unacked"); }
                        if mo == "ok none" { b.push("remove:not-in-bitmap"); }
                    }
                    Line::Flush(_) | Line::Close(_) => {
                        if mo == "ok false" { b.push("flush:fast-path"); }
                        if !err && ml != "-" && !has("meta") { b.push("flush:metadata-skipped"); }
                        if !err && has("meta") && !has("cp") { b.push("flush:checkpoint-rate-limited"); }
                        if !err && has("intent-") { b.push("flush:retired-intents"); }
                        if err && ml != "-" { b.push("flush:failed-after-some-writes"); }
                        if err && ml == "-" { b.push("flush:failed-before-any-write"); }
                        if mo == "err:precond" { b.push("flush:rejected-conditional-put"); }
                    }
                    Line::Reopen(_) => {
                        if mo == "ok" && ml == "-" { b.push("reopen:nothing-to-write"); }
                        if mo == "ok" && ml != "-" { b.push("reopen:wrote"); }
                        if mo == "ok" && has("intent-") { b.push("reopen:replayed-and-retired-intents"); }
                        if mo == "ok" && has("ids") { b.push("reopen:repaired-bitmap"); }
                        if err && ml != "-" { b.push("reopen:cut-after-some-writes"); }
                        if err && ml == "-" { b.push("reopen:cut-before-any-write"); }
                    }
                    Line::SaveExt(_) => {
                        if err && has("meta") { b.push("saveext:landed-unacked"); }
                        if mo == "err:precond" { b.push("saveext:rejected-conditional-put"); }
                    }
                    Line::Compact(_) => {
                        if err && has("ixc") { b.push("compact:commit-landed-unacked"); }
                        if mo == "err:precond" { b.push("compact:rejected-conditional-put"); }
                    }
                    _ => {}
                }
                for x in b {
                    o.hits.push(format!("model-branch:{x}"));
                }
            }
            if backend == Backend::Mem && ml != real_log {
                o.disagreements.push((format!("backend mutations of `{}`", line.show()), ml, real_log.clone()));
            }
        }
        if real.off() && !*o.off_before.last().unwrap() && !out.starts_with("err") {
            // the power failed on a mutation the model abstracts away and the code ignores
            // (obsolete-object delete): tell the model the power is off
            if let Some(m) = model.as_deref_mut() {
                m.ask("poweroff");
            }
            o.hits.push("power-loss-on-ignored-cleanup".into());
        }
        o.outs.push((line.show(), out.clone()));
        // through the wrapper backends a read may itself write (lazy cleanup of superseded
        // objects), so a still-armed fault could fire inside the observation: observe later
        // (and a crash may fire on a best-effort cleanup delete the code rightly ignores: power is
        // off although the call succeeded — nothing can be observed until the next reboot)
        let observable = !real.off() && (backend == Backend::Mem || !real.ctl.fault_pending());
        if matches!(line, Line::Reopen(_)) && out == "ok" && observable {
            // observe the recovered collection
            let bound = oracle.probe_bound();
            let ids = real.ids().unwrap_or_default();
            let mut gets = BTreeMap::new();
            for id in 1..=bound {
                gets.insert(id, real.get(id).await);
            }
            let mut postings = BTreeMap::new();
            for (ix, nk) in [(0usize, KEYS_A), (1usize, WORDS.len() as u64)] {
                for k in 0..nk {
                    postings.insert((ix, k), real.ix(ix, k));
                }
            }
            let mut extra = BTreeMap::new();
            if unmodelled {
                // the index the open callback may have created on `n`
                for ans in gets.values() {
                    if let Some(b) = ans.strip_prefix("ok doc ").and_then(|r| r.split(' ').next()).and_then(|b| b.parse::<u64>().ok()) {
                        extra.insert((2usize, b), real.ix(2, b));
                    }
                }
                extra.insert((2usize, 424242), real.ix(2, 424242));
            }
            if let Some(m) = model.as_deref_mut() {
                if let Some(want) = real.state().await {
                    let got = m.ask("state");
                    o.compared += 1;
                    if got != want {
                        o.disagreements.push(("durable state after reopen (document objects, intent objects, checkpoint, max_document_id)".into(), got, want));
                    }
                }
                let want = format!("ids {}", if ids.is_empty() { "-".to_string() } else { join(&ids, ",") });
                let got = m.ask("ids");
                o.compared += 1;
                if got != want {
                    o.disagreements.push(("ids after reopen".into(), got, want));
                }
                for (id, ans) in &gets {
                    let got = m.ask(&format!("get {id}"));
                    o.compared += 1;
                    if &got != ans {
                        o.disagreements.push((format!("get {id} after reopen"), got, ans.clone()));
                    }
                }
                for ((ix, k), want) in &postings {
                    let got = m.ask(&format!("ix {ix} {k}"));
                    o.compared += 1;
                    if &got != want {
                        o.disagreements.push((format!("index {ix} key {k} after reopen"), got, want.clone()));
                    }
                }
            }
            oracle.check_indexes(&gets, &postings);
            oracle.check_indexes(&gets, &extra);
            if !ids.is_empty() && acked_mutation {
                o.nontrivial = true;
            }
            oracle.check_recovered(&gets, &ids);
        }
    }
    o.raw = real.raw_log();
    for _ in 0..real.same_process_reopens {
        o.hits.push("reopen-in-same-process-of-poisoned-or-closed-handle".into());
    }
    if !lines.iter().any(|l| matches!(l, Line::Arm(..))) && real.ctl.mutation_count() as usize != o.raw.len() {
        // cut positions are derived from the landed-mutation log of the clean run: every attempt must have landed
        o.hits.push("clean-run-attempt-did-not-land".into());
    }
    o.failures = oracle.failures;
    Ok(o)
}

pub struct CaseResult {
    pub name: String,
    pub lines: Vec<String>,
    pub out: Result<VarOut, String>,
    pub panicked: bool,
}

fn run_case(rt: &tokio::runtime::Runtime, backend: Backend, lines: &[Line], model: Option<&mut ModelProc>) -> (Result<VarOut, String>, bool) {
    match std::panic::catch_unwind(std::panic::AssertUnwindSafe(|| rt.block_on(run_variant(backend, lines, model)))) {
        Ok(r) => (r, false),
        Err(_) => (Err("panic".into()), true),
    }
}

fn show_lines(lines: &[Line]) -> Vec<String> {
    lines.iter().map(|l| l.show()).collect()
}

fn parse_lines(ops: &[String]) -> Result<Vec<Line>, String> {
    ops.iter().map(|l| Line::parse(l).ok_or_else(|| format!("bad op line: {l}"))).collect()
}

/// shrinks a variant on which the oracle fires with `key` (real code + oracle only)
fn shrink_failure(rt: &tokio::runtime::Runtime, backend: Backend, lines: &[Line], key: &str) -> (Vec<String>, Option<(String, String, String, String)>) {
    let small = shrink(
        show_lines(lines),
        |cand| {
            let Ok(ls) = parse_lines(cand) else { return false };
            let (r, p) = run_case(rt, backend, &ls, None);
            (p && key == "panic") || r.is_ok_and(|o| o.failures.iter().any(|f| f.0 == key))
        },
        120,
    );
    let f = parse_lines(&small).ok().and_then(|ls| run_case(rt, backend, &ls, None).0.ok()).and_then(|o| o.failures.into_iter().find(|f| f.0 == key));
    (small, f)
}

struct Merger<'a> {
    rep: &'a mut Report,
}

impl Merger<'_> {
    fn add(&mut self, backend: Backend, r: CaseResult, small: Option<(Vec<String>, Option<(String, String, String, String)>)>) {
        let canon = format!("{}|{}", backend.name(), r.lines.join("|"));
        match r.out {
            Err(e) if r.panicked => {
                let _ = e;
                let ops = small.map(|s| s.0).unwrap_or(r.lines.clone());
                self.rep.oracle_failure("panic", "the implementation panicked", &ops, "no panic", &format!("panic in case {} on {}", r.name, backend.name()));
                self.rep.case(&canon, false);
            }
            Err(e) => {
                self.rep.hit("case_error");
                if self.rep.notes.len() < 10 {
                    self.rep.notes.push(format!("case {} could not run: {e}", r.name));
                }
            }
            Ok(o) => {
                self.rep.case(&canon, o.nontrivial);
                self.rep.model_compared += o.compared;
                for h in &o.hits {
                    self.rep.hit(h);
                }
                self.rep.hit(&format!("backend:{}", backend.name()));
                for (what, m, i) in &o.disagreements {
                    self.rep.disagreement(&format!("{what} [{}; case {}]", backend.name(), r.name), &r.lines, m, i);
                }
                if let Some(f) = o.failures.first() {
                    let (ops, f2) = match small {
                        Some((ops, Some(f2))) => (ops, f2),
                        _ => (r.lines.clone(), f.clone()),
                    };
                    self.rep.oracle_failure(&f2.0, &format!("{} [{}; case {}]", f2.1, backend.name(), r.name), &ops, &f2.2, &f2.3);
                }
                if self.rep.samples.len() < self.rep.max_samples && o.nontrivial && r.lines.len() > 6 {
                    self.rep.sample(json!({"case": r.name, "backend": backend.name(), "ops": r.lines, "answers": o.outs.iter().map(|x| x.1.clone()).collect::<Vec<_>>()}));
                }
            }
        }
    }
}

fn tail(rc: &mut u64, fl: &mut u64, body: u64) -> Vec<Line> {
    let mut t = vec![];
    *rc += 1;
    t.push(Line::Reopen(*rc));
    t.push(Line::Add(DocC { body, a: 0, ws: vec![0] }));
    *fl += 1;
    t.push(Line::Flush(*fl));
    *rc += 1;
    t.push(Line::Reopen(*rc));
    t
}

/// abstracted (non-model) mutations at the end of raw[from..to]
fn trailing_garbage(raw: &[(char, String)], from: usize, to: usize) -> u64 {
    raw[from.min(raw.len())..to.min(raw.len())].iter().rev().take_while(|(op, p)| model_event(*op, p).is_none()).count() as u64
}

fn model_count(raw: &[(char, String)], from: usize, to: usize) -> u64 {
    raw[from.min(raw.len())..to.min(raw.len())].iter().filter(|(op, p)| model_event(*op, p).is_some()).count() as u64
}

/// all variants of a base workload (`full`: every cut / every nested cut / every single fault)
fn variants(rt: &tokio::runtime::Runtime, base: &[Line], rng: &mut Rng, full: bool, clean: &VarOut, mem: bool) -> Vec<(String, Vec<Line>)> {
    let _ = rt;
    let mut out = vec![];
    let n_base = base.len();
    // raw length when the base ops are done = total mutations of the workload
    let n_real = clean.raw_after[..n_base].iter().rev().find(|x| **x != usize::MAX).copied().unwrap_or(0);
    let (mut rc, mut fl) = counters(base);
    let with_tail = |pre: Vec<Line>, mid: Vec<Line>, rc: &mut u64, fl: &mut u64| {
        let mut v = pre;
        v.extend(base.iter().cloned());
        v.extend(mid);
        v.extend(tail(rc, fl, 900));
        v
    };
    let mut cuts: Vec<usize> = (0..=n_real).collect();
    if !full && cuts.len() > 12 {
        // keep the cuts around the last checkpoint sequence, sample the rest
        let mut keep: Vec<usize> = vec![];
        if let Some(p) = clean.raw[..n_real].iter().rposition(|(_, p)| p == "db/c/meta.cbor") {
            keep.extend([p, p + 1, p + 2, p + 3].into_iter().filter(|x| *x <= n_real));
        }
        rng.shuffle(&mut cuts);
        for c in cuts.iter().take(12usize.saturating_sub(keep.len())) {
            if !keep.contains(c) {
                keep.push(*c);
            }
        }
        keep.sort();
        cuts = keep;
    }
    for k in &cuts {
        let km = model_count(&clean.raw, 0, *k);
        let (mut rc2, mut fl2) = (rc, fl);
        out.push((format!("crash@{k}"), with_tail(vec![Line::Arm(Kind::Crash, km, if mem { trailing_garbage(&clean.raw, 0, *k) } else { *k as u64 })], vec![], &mut rc2, &mut fl2)));
    }
    // single faults on model-level mutations
    let mut poss: Vec<usize> = (0..n_real).filter(|i| model_event(clean.raw[*i].0, &clean.raw[*i].1).is_some()).collect();
    if !full {
        rng.shuffle(&mut poss);
        poss.truncate(4);
    }
    for p in poss {
        let pm = model_count(&clean.raw, 0, p);
        let kinds: Vec<Kind> = if full { vec![Kind::Fail, Kind::Unknown] } else { vec![if rng.chance(2, 3) { Kind::Unknown } else { Kind::Fail }] };
        for kind in kinds {
            let (mut rc2, mut fl2) = (rc, fl);
            out.push((format!("{}@{p}", kind.name()), with_tail(vec![Line::Arm(kind, pm, if mem { 0 } else { p as u64 })], vec![], &mut rc2, &mut fl2)));
        }
    }
    let _ = (&mut rc, &mut fl);
    out
}

/// nested variants of one crash variant: a second fault inside the recovery
fn nested(base_variant: &[Line], first: &VarOut, rng: &mut Rng, full: bool, mem: bool) -> Vec<(String, Vec<Line>)> {
    let mut out = vec![];
    // the reopen that recovered from the power loss
    let Some(ri) = (0..base_variant.len()).find(|i| matches!(base_variant[*i], Line::Reopen(_)) && first.off_before.get(*i) == Some(&true) && first.raw_before[*i] != usize::MAX) else { return out };
    if first.raw_before.get(ri).is_none_or(|x| *x == usize::MAX) {
        return out;
    }
    let (s, e) = (first.raw_before[ri], first.raw_after[ri]);
    if e <= s {
        return out;
    }
    let mut js: Vec<usize> = (0..(e - s)).collect();
    if !full {
        rng.shuffle(&mut js);
        js.truncate(3);
    }
    let Line::Reopen(rc0) = base_variant[ri] else { return out };
    for j in js {
        let jm = model_count(&first.raw, s, s + j);
        let is_model = model_event(first.raw[s + j].0, &first.raw[s + j].1).is_some();
        let kinds: Vec<Kind> = if full && is_model { vec![Kind::Crash, Kind::Unknown] } else if !full && is_model && rng.chance(1, 4) { vec![Kind::Unknown] } else { vec![Kind::Crash] };
        for kind in kinds {
            let mut v: Vec<Line> = base_variant[..ri].to_vec();
            v.push(Line::Arm(kind, jm, if !mem { j as u64 } else if kind == Kind::Crash { trailing_garbage(&first.raw, s, s + j) } else { 0 }));
            v.push(Line::Reopen(rc0)); // hit by the fault
            // later wall-clock stand-ins shift by one
            for l in &base_variant[ri..] {
                v.push(match l {
                    Line::Reopen(n) => Line::Reopen(n + 1),
                    Line::Close(n) => Line::Close(n + 1),
                    other => other.clone(),
                });
            }
            out.push((format!("+{}@{j}", kind.name()), v));
        }
    }
    out
}

/// highest wall-clock / flush stand-ins used by a base workload
fn counters(base: &[Line]) -> (u64, u64) {
    let mut rc = 0;
    let mut fl = 1_000_000;
    for l in base {
        match l {
            Line::Reopen(n) | Line::Close(n) => rc = rc.max(*n),
            Line::Flush(n) => fl = fl.max(*n),
            _ => {}
        }
    }
    (rc, fl)
}

struct Worker {
    rt: tokio::runtime::Runtime,
    model: Option<ModelProc>,
}

impl Worker {
    fn new(args: &Args) -> Worker {
        Worker { rt: tokio::runtime::Builder::new_current_thread().enable_all().build().unwrap(), model: ModelProc::from_args(args) }
    }

    fn one(&mut self, backend: Backend, name: String, lines: &[Line], with_model: bool) -> (CaseResult, Option<(Vec<String>, Option<(String, String, String, String)>)>) {
        let model = if with_model && backend == Backend::Mem { self.model.as_mut() } else { None };
        let (out, panicked) = run_case(&self.rt, backend, lines, model);
        let small = match &out {
            Ok(o) if !o.failures.is_empty() => Some(shrink_failure(&self.rt, backend, lines, &o.failures[0].0)),
            Err(_) if panicked => Some(shrink_failure(&self.rt, backend, lines, "panic")),
            _ => None,
        };
        (CaseResult { name, lines: show_lines(lines), out, panicked }, small)
    }

    /// a base workload and its variants
    fn base(&mut self, backend: Backend, name: &str, base: &[Line], rng: &mut Rng, full: bool, sink: &Mutex<Vec<(Backend, CaseResult, Option<(Vec<String>, Option<(String, String, String, String)>)>)>>) {
        let (rc, fl) = counters(base);
        let (mut rc2, mut fl2) = (rc, fl);
        let mut clean_lines = base.to_vec();
        clean_lines.extend(tail(&mut rc2, &mut fl2, 900));
        let (clean, small) = self.one(backend, format!("{name}/clean"), &clean_lines, true);
        let vars = match &clean.out {
            Ok(o) => variants(&self.rt, base, rng, full, o, backend == Backend::Mem),
            Err(_) => vec![],
        };
        sink.lock().unwrap().push((backend, clean, small));
        let mut nested_budget = if full { usize::MAX } else { 2 };
        for (vn, lines) in vars {
            let (r, small) = self.one(backend, format!("{name}/{vn}"), &lines, true);
            let nest = match &r.out {
                Ok(o) if vn.starts_with("crash@") && nested_budget > 0 && (full || rng.chance(1, 3)) => {
                    let n = nested(&lines, o, rng, full, backend == Backend::Mem);
                    if !n.is_empty() {
                        nested_budget -= 1;
                    }
                    n
                }
                _ => vec![],
            };
            sink.lock().unwrap().push((backend, r, small));
            for (nn, nl) in nest {
                let (r, small) = self.one(backend, format!("{name}/{vn}{nn}"), &nl, true);
                sink.lock().unwrap().push((backend, r, small));
            }
        }
    }
}

/// crash inside database / collection creation: reopens, possibly after the documented
/// delete-and-recreate, and accepts writes (oracle only; the model starts after creation)
async fn create_crash(backend: Backend, k: u64) -> Result<(bool, Vec<String>), String> {
    let mut real = Real::blank(backend, false);
    real.ctl.crash_after(k);
    let first = real.exec(&Line::Reopen(0)).await;
    let crashed = real.off();
    real.ctl.disarm();
    let outcome = real.open_after_create_crash().await;
    let mut problems = vec![];
    let recreated = match outcome {
        OpenOutcome::Ok => false,
        OpenOutcome::Recreated => true,
        OpenOutcome::Err(e) => {
            problems.push(format!("create crashed after {k} mutations ({first}); reopen failed even with delete-and-recreate: {e}"));
            return Ok((crashed, problems));
        }
    };
    let _ = recreated;
    let a = real.exec(&Line::Add(DocC { body: 1, a: 1, ws: vec![1] })).await;
    let f = real.exec(&Line::Flush(1_000_001)).await;
    let r = real.exec(&Line::Reopen(5)).await;
    let g = real.get(1).await;
    if a != "ok 1" || !f.starts_with("ok") || r != "ok" || g != "ok doc 1 0:1,1:1" {
        problems.push(format!("create crashed after {k} mutations; afterwards add -> {a}, flush -> {f}, reopen -> {r}, get 1 -> {g}"));
    }
    Ok((crashed, problems))
}

fn main() {
    let args = Args::parse();
    let mut rep = Report::new(
        "C01",
        &args,
        "case = one variant (clean run | crash after the k-th backend mutation | that plus a second fault inside the recovery | one call failing / landing-but-reporting-failure) \
         of a generated base workload (4..16 ops over add/update/remove/save_extension/flush/close/reopen, B-tree + BM25 indexed fields; `ext` bases add compaction and an index created/removed in the open callback, real code + oracle only), always followed by reopen, add, flush, reopen; \
         distinct = distinct op list per backend; non-trivial = at least one add/update/remove was acknowledged and a reopen succeeded with a non-empty id set",
    );
    let thorough = args.thorough() || args.focus.is_some();
    let sink = Mutex::new(vec![]);

    if let Some(p) = &args.replay {
        let ops = read_replay(p);
        let mut w = Worker::new(&args);
        match parse_lines(&ops) {
            Ok(lines) => {
                let (r, small) = w.one(Backend::Mem, "replay".into(), &lines, true);
                sink.lock().unwrap().push((Backend::Mem, r, small.map(|_| (ops.clone(), None))));
            }
            Err(e) => rep.notes.push(e),
        }
    } else {
        // ---- corpus (first) ------------------------------------------------------------
        let mut w = Worker::new(&args);
        if let Some(dir) = &args.corpus {
            for (name, ops) in read_corpus(dir) {
                let expand = ops.first().is_some_and(|l| l == "expand");
                match parse_lines(&ops[if expand { 1 } else { 0 }..]) {
                    Ok(lines) => {
                        if expand {
                            let mut rng = Rng::for_case(args.seed, 0xC0DE);
                            w.base(Backend::Mem, &name, &lines, &mut rng, true, &sink);
                        } else {
                            let (r, small) = w.one(Backend::Mem, name, &lines, true);
                            sink.lock().unwrap().push((Backend::Mem, r, small));
                        }
                    }
                    Err(e) => rep.notes.push(format!("corpus {name}: {e}")),
                }
            }
        }
        drop(w);
        // ---- generated base workloads, sharded over threads ------------------------------
        let n_bases = args.budget(140, 6000);
        let n_full = args.budget(4, 120); // bases expanded exhaustively (every cut, every nested cut, every single fault)
        let next = AtomicU64::new(0);
        let threads = std::thread::available_parallelism().map(|n| n.get()).unwrap_or(4).clamp(2, 12);
        std::thread::scope(|s| {
            for _ in 0..threads {
                s.spawn(|| {
                    let mut w = Worker::new(&args);
                    loop {
                        let i = next.fetch_add(1, Ordering::Relaxed);
                        if i >= n_bases {
                            break;
                        }
                        let mut rng = Rng::for_case(args.seed, i);
                        let full = i < n_full;
                        let base = gen_::gen_base(&mut rng, if full { 7 } else if thorough { 16 } else { 12 });
                        w.base(Backend::Mem, &format!("gen{i}"), &base, &mut rng, full, &sink);
                        // operations the model does not have (compaction, index created / removed in
                        // the open callback), small index buckets: implementation + oracle
                        if i % 5 == 2 || (thorough && i % 4 == 0) {
                            let mut r2 = Rng::for_case(args.seed ^ 0xE87, i);
                            let ext = gen_::gen_base_ext(&mut r2, 8);
                            let be = [Backend::Mem, Backend::Meta, Backend::Enc][(i % 3) as usize];
                            w.base(be, &format!("ext{i}"), &ext, &mut r2, false, &sink);
                        }
                        // compaction with small buckets, compared with the model
                        if i % 5 == 1 || (thorough && i % 4 == 1) {
                            let mut r2 = Rng::for_case(args.seed ^ 0xC0A, i);
                            // wall-clock stand-ins must stay ordered for the model: renumber them
                            let mut rc = 0u64;
                            let cmp: Vec<Line> = gen_::gen_base_ext(&mut r2, 8)
                                .into_iter()
                                .filter(|l| !l.unmodelled())
                                .map(|l| match l {
                                    Line::Reopen(_) => {
                                        rc += 1;
                                        Line::Reopen(rc)
                                    }
                                    Line::Close(_) => {
                                        rc += 1;
                                        Line::Close(rc)
                                    }
                                    other => other,
                                })
                                .collect();
                            w.base(Backend::Mem, &format!("cmp{i}"), &cmp, &mut r2, false, &sink);
                        }
                        // the other two backends: implementation + oracle (the wrappers' own write
                        // protocol is C07/C08's model, not this one's)
                        if i % 7 == 3 || (thorough && i % 3 == 0) {
                            for be in [Backend::Meta, Backend::Enc] {
                                let mut r2 = Rng::for_case(args.seed ^ 0xBEEF, i);
                                w.base(be, &format!("gen{i}"), &base, &mut r2, false, &sink);
                            }
                        }
                    }
                });
            }
        });
        // ---- crash inside creation ------------------------------------------------------
        let rt = tokio::runtime::Builder::new_current_thread().enable_all().build().unwrap();
        for be in [Backend::Mem, Backend::Meta, Backend::Enc] {
            let mut fired = 0;
            for k in 0..40u64 {
                match std::panic::catch_unwind(std::panic::AssertUnwindSafe(|| rt.block_on(create_crash(be, k)))) {
                    Ok(Ok((crashed, problems))) => {
                        rep.case(&format!("create-crash|{}|{k}", be.name()), crashed);
                        rep.hit("op:create-crash");
                        if crashed {
                            fired += 1;
                        }
                        for p in problems {
                            rep.oracle_failure("create-crash", "a crash inside creation left a collection that cannot be reopened or recreated", &[format!("create-crash {} {k}", be.name())], "reopen, or AlreadyExists then delete_collection + recreate, then writes persist", &p);
                        }
                        if !crashed {
                            break;
                        }
                    }
                    Ok(Err(e)) => rep.notes.push(format!("create-crash {k}: {e}")),
                    Err(_) => rep.oracle_failure("panic", "panic while reopening after a crash inside creation", &[format!("create-crash {} {k}", be.name())], "no panic", "panic"),
                }
            }
            rep.measured.insert(format!("create_crash_points_{}", be.name()), json!(fired));
        }
    }

    let results = sink.into_inner().unwrap();
    let mut by_name: Vec<_> = results.into_iter().collect();
    by_name.sort_by(|a, b| (a.0 != Backend::Mem, a.0.name(), &a.1.name).cmp(&(b.0 != Backend::Mem, b.0.name(), &b.1.name)));
    let mut m = Merger { rep: &mut rep };
    for (be, r, small) in by_name {
        m.add(be, r, small);
    }
    let _ = Arc::new(());
    rep.write(&args);
}
