//! Harness for property C01 (stub: not built yet).
fn main() {
    let a = vh_common::Args::parse();
    let r = vh_common::Report::new("C01", &a, "stub");
    r.write(&a);
}
