//! Line protocol of C01 (shared by the harness, the Lean driver, corpus and replay files).
//!
//!   add <body> <keys>            keys = `0:<a>,1:<w>[,1:<w>]`   (index 0 = B-tree on `a`, 1 = BM25 on `t`)
//!   update <id> <body> <patch>   patch = `-` | `0=<a>` | `1=<w>/<w>` | `0=<a>,1=<w>`
//!   remove <id>
//!   saveext <n>                  `Collection::save_extension` (metadata-only write)
//!   compact <0|1>                compact the B-tree / BM25 index            (real code + oracle only)
//!   wantix <0|1>                 later reopens create / remove a B-tree index on `n` in the open callback (real code + oracle only)
//!   flush <now> | close <now> | reopen <now>      `now`: order-isomorphic stand-in of the wall clock
//!   arm crash|fail|unknown <n_model> <n_real>     fault on the (n+1)-th coming backend mutation
//!   disarm
//!
//! `arm <kind> <km> <b>`: `km` counts the mutations the model knows (document objects, ids, meta,
//! checkpoint, watermark, intents, one manifest commit per index). On the plain backend `b` is the
//! number of further *abstracted* mutations (bucket objects, obsolete-object deletes, database-level
//! objects) let through after the km-th one before a crash — so a fault position does not depend on how
//! many bucket objects the index crates happen to write. On the wrapper backends (no model) `b`
//! counts every raw backend mutation.

pub const WORDS: [&str; 5] = ["alpha", "beta", "gamma", "delta", "omega"];
pub const KEYS_A: u64 = 5;

#[derive(Clone, Debug, PartialEq, Eq, PartialOrd, Ord)]
pub struct DocC {
    pub body: u64,
    pub a: u64,
    pub ws: Vec<usize>, // sorted, distinct
}

impl DocC {
    pub fn keys(&self) -> String {
        let mut v = vec![format!("0:{}", self.a)];
        for w in &self.ws {
            v.push(format!("1:{w}"));
        }
        v.join(",")
    }
    pub fn text(&self) -> String {
        self.ws.iter().map(|w| WORDS[*w]).collect::<Vec<_>>().join(" ")
    }
    pub fn show(&self) -> String {
        format!("ok doc {} {}", self.body, self.keys())
    }
    pub fn patched(&self, p: &PatchC) -> DocC {
        DocC { body: p.body, a: p.a.unwrap_or(self.a), ws: p.ws.clone().unwrap_or_else(|| self.ws.clone()) }
    }
}

#[derive(Clone, Debug, PartialEq, Eq)]
pub struct PatchC {
    pub body: u64,
    pub a: Option<u64>,
    pub ws: Option<Vec<usize>>,
}

impl PatchC {
    pub fn show(&self) -> String {
        let mut v = vec![];
        if let Some(a) = self.a {
            v.push(format!("0={a}"));
        }
        if let Some(ws) = &self.ws {
            v.push(format!("1={}", ws.iter().map(|w| w.to_string()).collect::<Vec<_>>().join("/")));
        }
        if v.is_empty() { "-".into() } else { v.join(",") }
    }
}

#[derive(Clone, Copy, Debug, PartialEq, Eq)]
pub enum Kind {
    Crash,
    Fail,
    Unknown,
}

impl Kind {
    pub fn name(self) -> &'static str {
        match self {
            Kind::Crash => "crash",
            Kind::Fail => "fail",
            Kind::Unknown => "unknown",
        }
    }
}

#[derive(Clone, Debug, PartialEq, Eq)]
pub enum Line {
    Add(DocC),
    Update(u64, PatchC),
    Remove(u64),
    SaveExt(u64),
    /// compact index 0 (B-tree `a`) / 1 (BM25 `t`); the model is told whether the index flushed itself
    Compact(u64),
    /// from the next reopen on, the open callback creates (1) / removes (0) a B-tree index on `n` — real code only
    WantIx(bool),
    Flush(u64),
    Close(u64),
    Reopen(u64),
    Arm(Kind, u64, u64),
    Disarm,
}

impl Line {
    pub fn show(&self) -> String {
        match self {
            Line::Add(d) => format!("add {} {}", d.body, d.keys()),
            Line::Update(id, p) => format!("update {id} {} {}", p.body, p.show()),
            Line::Remove(id) => format!("remove {id}"),
            Line::SaveExt(n) => format!("saveext {n}"),
            Line::Compact(ix) => format!("compact {ix}"),
            Line::WantIx(b) => format!("wantix {}", *b as u8),
            Line::Flush(n) => format!("flush {n}"),
            Line::Close(n) => format!("close {n}"),
            Line::Reopen(n) => format!("reopen {n}"),
            Line::Arm(k, m, r) => format!("arm {} {m} {r}", k.name()),
            Line::Disarm => "disarm".into(),
        }
    }
    /// what the Lean driver is sent
    pub fn model_line(&self) -> String {
        match self {
            Line::Arm(k, m, _) => format!("arm {} {m}", k.name()),
            other => other.show(),
        }
    }
    /// the Lean model has no counterpart of this line
    pub fn unmodelled(&self) -> bool {
        matches!(self, Line::WantIx(_))
    }
    /// the case runs with tiny index buckets, so that buckets split and compaction really merges
    pub fn wants_small_buckets(&self) -> bool {
        matches!(self, Line::Compact(_) | Line::WantIx(_))
    }
    pub fn tag(&self) -> &'static str {
        match self {
            Line::Add(_) => "add",
            Line::Update(..) => "update",
            Line::Remove(_) => "remove",
            Line::SaveExt(_) => "saveext",
            Line::Compact(_) => "compact",
            Line::WantIx(_) => "wantix",
            Line::Flush(_) => "flush",
            Line::Close(_) => "close",
            Line::Reopen(_) => "reopen",
            Line::Arm(Kind::Crash, ..) => "arm-crash",
            Line::Arm(Kind::Fail, ..) => "arm-fail",
            Line::Arm(Kind::Unknown, ..) => "arm-unknown",
            Line::Disarm => "disarm",
        }
    }
    pub fn parse(s: &str) -> Option<Line> {
        let t: Vec<&str> = s.split(' ').filter(|x| !x.is_empty()).collect();
        Some(match t.as_slice() {
            ["add", b, ks] => {
                let mut a = None;
                let mut ws = vec![];
                for k in ks.split(',') {
                    let (ix, v) = k.split_once(':')?;
                    match ix {
                        "0" => a = Some(v.parse().ok()?),
                        "1" => ws.push(v.parse::<usize>().ok().filter(|w| *w < WORDS.len())?),
                        _ => return None,
                    }
                }
                ws.sort();
                ws.dedup();
                Line::Add(DocC { body: b.parse().ok()?, a: a?, ws })
            }
            ["update", id, b, p] => {
                let mut a = None;
                let mut ws = None;
                if *p != "-" {
                    for item in p.split(',') {
                        let (ix, v) = item.split_once('=')?;
                        match ix {
                            "0" => a = Some(v.parse().ok()?),
                            "1" => {
                                let mut l = vec![];
                                if !v.is_empty() {
                                    for w in v.split('/') {
                                        l.push(w.parse::<usize>().ok().filter(|w| *w < WORDS.len())?);
                                    }
                                }
                                l.sort();
                                l.dedup();
                                ws = Some(l);
                            }
                            _ => return None,
                        }
                    }
                }
                Line::Update(id.parse().ok()?, PatchC { body: b.parse().ok()?, a, ws })
            }
            ["remove", id] => Line::Remove(id.parse().ok()?),
            ["saveext", n] => Line::SaveExt(n.parse().ok()?),
            ["compact", ix] => Line::Compact(ix.parse().ok().filter(|x| *x < 2)?),
            ["wantix", b] => Line::WantIx(*b == "1"),
            ["flush", n] => Line::Flush(n.parse().ok()?),
            ["close", n] => Line::Close(n.parse().ok()?),
            ["reopen", n] => Line::Reopen(n.parse().ok()?),
            ["arm", k, m, r] => {
                let k = match *k {
                    "crash" => Kind::Crash,
                    "fail" => Kind::Fail,
                    "unknown" => Kind::Unknown,
                    _ => return None,
                };
                Line::Arm(k, m.parse().ok()?, r.parse().ok()?)
            }
            ["disarm"] => Line::Disarm,
            _ => return None,
        })
    }
}

/// canonical model-level event of a backend mutation, `None` for the ones the model abstracts
/// away (bucket / segment objects, obsolete-object deletes, database-level objects)
pub fn model_event(op: char, path: &str) -> Option<String> {
    let rel = path.strip_prefix("db/c/")?;
    if rel == "alloc_watermark.cbor" {
        return Some("wm".into());
    }
    if let Some(f) = rel.strip_prefix("data/") {
        let id = f.strip_suffix(".cbor")?;
        return Some(match op {
            'D' => format!("del {id}"),
            _ => format!("doc {id}"),
        });
    }
    if rel.starts_with("mutation_intents/") {
        return Some(if op == 'D' { "intent-".into() } else { "intent+".into() });
    }
    if rel == "btree_indexes/a/meta.cbor" && op == 'P' {
        return Some("ixc 0".into());
    }
    if rel == "bm25_indexes/t/meta.cbor" && op == 'P' {
        return Some("ixc 1".into());
    }
    if rel == "meta.cbor" {
        return Some("meta".into());
    }
    if rel == "ids.cbor" {
        return Some("ids".into());
    }
    if rel == "storage_meta.cbor" {
        return Some("cp".into());
    }
    None
}
