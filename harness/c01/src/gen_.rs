//! Generator of base workloads (fault-free histories). A shadow state (ids assumed sequential,
//! every op assumed to succeed) only steers the choice of targets — repeated updates of one
//! document, update to the same indexed value, remove-then-add, ops on removed / unknown ids.
use crate::ops::*;
use std::collections::BTreeMap;
use vh_common::Rng;

fn words(r: &mut Rng) -> Vec<usize> {
    let mut ws = vec![r.usize(WORDS.len())];
    if r.chance(1, 3) {
        ws.push(r.usize(WORDS.len()));
    }
    ws.sort();
    ws.dedup();
    ws
}

/// base workload with the operations only the real code runs: index compaction and an index
/// created / removed in the open callback (many adds so that the small index buckets overflow)
pub fn gen_base_ext(r: &mut Rng, max_ops: usize) -> Vec<Line> {
    let mut base = gen_base(r, max_ops);
    let mut body = 500u64;
    // front-load documents so buckets split
    let n_pre = 4 + r.usize(6);
    let mut pre = vec![];
    for _ in 0..n_pre {
        body += 1;
        pre.push(Line::Add(DocC { body, a: r.below(KEYS_A), ws: words(r) }));
    }
    pre.extend(base.drain(..));
    let mut out = vec![];
    let mut rc = 0u64;
    for l in &pre {
        if let Line::Reopen(n) | Line::Close(n) = l {
            rc = rc.max(*n);
        }
    }
    let mut want = false;
    for l in pre {
        out.push(l);
        match r.below(100) {
            0..=9 => out.push(Line::Compact(r.below(2))),
            10..=15 => {
                want = !want;
                out.push(Line::WantIx(want));
                // renumber: wall-clock stand-ins only matter for the model, which does not run here
                rc += 1;
                out.push(Line::Reopen(rc));
            }
            _ => {}
        }
    }
    out
}

pub fn gen_base(r: &mut Rng, max_ops: usize) -> Vec<Line> {
    let n = 4 + r.usize(max_ops.saturating_sub(3).max(1));
    let mut out = vec![];
    let mut live: BTreeMap<u64, DocC> = BTreeMap::new();
    let mut next_id = 1u64;
    let mut body = 10u64;
    let mut fl = 1_000_000u64;
    let mut rc = 0u64;
    let mut closed = false;
    let mut flushed = false;
    for i in 0..n {
        body += 1;
        if closed && r.chance(9, 10) {
            rc += 1;
            out.push(Line::Reopen(rc));
            closed = false;
            continue;
        }
        let pick = r.below(100);
        if pick < 34 || live.is_empty() && pick < 60 {
            let d = DocC { body, a: r.below(KEYS_A), ws: words(r) };
            live.insert(next_id, d.clone());
            next_id += 1;
            out.push(Line::Add(d));
        } else if pick < 60 {
            let id = if r.chance(5, 6) && !live.is_empty() { *live.keys().nth(r.usize(live.len())).unwrap() } else { 1 + r.below(next_id + 1) };
            let cur = live.get(&id).cloned();
            let a = match r.below(10) {
                0..=2 => None,
                3 => cur.as_ref().map(|c| c.a).or(Some(0)), // same value: BTree::update is a no-op
                _ => Some(r.below(KEYS_A)),
            };
            let ws = match r.below(10) {
                0..=4 => None,
                5 => cur.as_ref().map(|c| c.ws.clone()).or(Some(vec![0])), // same text: BM25 still re-indexes
                _ => Some(words(r)),
            };
            let p = PatchC { body, a, ws };
            if let Some(c) = cur {
                live.insert(id, c.patched(&p));
            }
            out.push(Line::Update(id, p));
        } else if pick < 72 {
            let id = if r.chance(5, 6) && !live.is_empty() { *live.keys().nth(r.usize(live.len())).unwrap() } else { 1 + r.below(next_id + 1) };
            live.remove(&id);
            out.push(Line::Remove(id));
        } else if pick < 77 {
            out.push(Line::SaveExt(body));
        } else if pick < 91 {
            fl += 1;
            flushed = true;
            out.push(Line::Flush(fl));
        } else if pick < 96 {
            rc += 1;
            out.push(Line::Reopen(rc));
        } else {
            rc += 1;
            closed = true;
            flushed = true;
            out.push(Line::Close(rc));
        }
        let _ = i;
    }
    if !flushed {
        fl += 1;
        let at = 1 + r.usize(out.len());
        out.insert(at.min(out.len()), Line::Flush(fl));
    }
    out
}
