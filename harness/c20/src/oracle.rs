//! The independent oracle of C20: written from the property statement, not from the Lean model.
//! Eligibility by the statement's list (lifecycle, validity window, admissible mode), grouping as
//! connected components of the "shares an actor or an Evidence id" graph (union-find), the score
//! `1 - prod(1 - strongest)` in exact integer arithmetic, classification by the two thresholds.
use crate::ops::*;
use std::collections::{BTreeMap, BTreeSet};

#[derive(Clone, Debug)]
pub struct OState {
    pub policy: PolicySpec,
    pub policy_err: bool,
    pub now: u32,
    pub functional: bool,
    pub slot: Vec<usize>,
    pub rows: Vec<RowSpec>,
}

impl Default for OState {
    fn default() -> Self {
        OState { policy: PolicySpec::baseline(), policy_err: false, now: 0, functional: false, slot: vec![], rows: vec![] }
    }
}

#[derive(Clone, Debug, Default)]
pub struct Expect {
    pub prop: Option<usize>,
    pub st: String,
    pub sup: (i128, i128),
    pub sg: u64,
    pub opp: (i128, i128),
    pub og: u64,
    pub s: Vec<usize>,
    pub o: Vec<usize>,
    pub u: Vec<usize>,
    pub x: Vec<(usize, String)>,
    pub pol: String,
    pub at: u32,
    pub no_eligible: bool,
    pub accept_f: f64,
    pub material_f: f64,
    pub threshold_adjacent: bool,
    pub rival_ineligible: usize,
}

// small adapters so that main.rs can write `e.sup.value()`
pub trait QValue { fn value(&self) -> f64; }
impl QValue for (i128, i128) {
    fn value(&self) -> f64 { self.0 as f64 / self.1 as f64 }
}

/// `Policy::from_settings` as the statement of the settings block describes it (thresholds in
/// `[0,1]`, material <= accept, known policy names, known modes; any override renames the policy).
fn apply_settings(k: u64, name: &str, accept: &str, material: &str, modes: &str) -> Result<PolicySpec, ()> {
    let mut p = PolicySpec::baseline();
    let d = 10 * k as i64;
    p.den = d as u64;
    p.accept = 7 * k as i64;
    p.material = 3 * k as i64;
    p.unstated = 5 * k as i64;
    match name {
        "-" | "b" => {}
        "f" => { p.base = 'f'; p.modes = "pi".into() }
        _ => return Err(()),
    }
    let mut over = false;
    for (text, slot) in [(accept, 0), (material, 1)] {
        if text == "-" { continue }
        let v: i64 = text.parse().map_err(|_| ())?;
        if v < 0 || v > d { return Err(()) }
        if slot == 0 { p.accept = v } else { p.material = v }
        over = true;
    }
    if modes != "-" {
        let m = if modes == "e" { "" } else { modes };
        if m.contains('?') { return Err(()) }
        p.modes = m.to_string();
        over = true;
    }
    if p.material > p.accept { return Err(()) }
    p.custom = over;
    Ok(p)
}

struct Uf { parent: Vec<usize> }
impl Uf {
    fn new(n: usize) -> Self { Uf { parent: (0..n).collect() } }
    fn find(&mut self, x: usize) -> usize {
        if self.parent[x] != x { let r = self.find(self.parent[x]); self.parent[x] = r }
        self.parent[x]
    }
    fn union(&mut self, a: usize, b: usize) {
        let (a, b) = (self.find(a), self.find(b));
        if a != b { self.parent[a] = b }
    }
}

impl OState {
    /// Eligibility by the statement: `Ok(effective confidence)` or the reason it is excluded.
    pub fn eligible(&self, r: &RowSpec) -> Result<i64, &'static str> {
        match r.status {
            'a' => {}
            'r' => return Err("retracted"),
            's' => return Err("superseded"),
            'e' => return Err("expired"),
            _ => return Err("invalid_schema"),
        }
        if !r.visible { return Err("not_visible") }
        if let Some(f) = r.from && self.now < f { return Err("outside_valid_time") }
        if let Some(u) = r.until && u <= self.now { return Err("outside_valid_time") }
        if r.mode == '?' { return Err("invalid_schema") }
        if !self.policy.modes.contains(r.mode) {
            return Err(match r.mode { 'h' => "hypothetical_not_requested", 'p' => "prediction_not_requested", _ => "policy_excluded" });
        }
        Ok(if r.conf < 0 { self.policy.unstated } else { r.conf })
    }

    pub fn effective_conf(&self, i: usize) -> i64 {
        let r = &self.rows[i];
        if r.conf < 0 { self.policy.unstated } else { r.conf }
    }

    pub fn admitted_mode(&self) -> Option<char> { self.policy.modes.chars().next() }

    pub fn rivals(&self, target: usize) -> Vec<usize> {
        if self.functional && self.policy.expand { self.slot.iter().copied().filter(|p| *p != target).collect() } else { vec![] }
    }

    /// The eligible Assertions bearing on `target`: (row index, lands on the opposing side).
    pub fn eligible_rows(&self, target: usize) -> Vec<(usize, bool)> {
        let rivals = self.rivals(target);
        let mut out = Vec::new();
        for (i, r) in self.rows.iter().enumerate() {
            if self.eligible(r).is_err() { continue }
            if r.prop == target {
                match r.stance { 's' => out.push((i, false)), 'r' => out.push((i, true)), _ => {} }
            } else if rivals.contains(&r.prop) && r.stance == 's' {
                out.push((i, true));
            }
        }
        out
    }

    fn keys(&self, i: usize) -> Vec<String> {
        let r = &self.rows[i];
        let mut k = vec![match r.actor { Some(a) => format!("actor:{a}"), None => format!("anon:{i}") }];
        k.extend(r.evs.iter().map(|e| format!("evidence:{e}")));
        k
    }

    /// Connected components of one side: for each component the strongest effective confidence
    /// and the set of its keys.
    pub fn components(&self, members: &[usize]) -> Vec<(i64, BTreeSet<String>)> {
        let mut ids: BTreeMap<String, usize> = BTreeMap::new();
        for &i in members {
            for k in self.keys(i) {
                let n = ids.len();
                ids.entry(k).or_insert(n);
            }
        }
        let mut uf = Uf::new(ids.len());
        for &i in members {
            let ks = self.keys(i);
            for k in &ks[1..] { uf.union(ids[&ks[0]], ids[k]) }
        }
        let mut comp: BTreeMap<usize, (i64, BTreeSet<String>)> = BTreeMap::new();
        for &i in members {
            let root = uf.find(ids[&self.keys(i)[0]]);
            let e = comp.entry(root).or_insert((i64::MIN, BTreeSet::new()));
            e.0 = e.0.max(self.effective_conf(i));
            e.1.extend(self.keys(i));
        }
        comp.into_values().collect()
    }

    /// `1 - prod(1 - clamp(c))` as an exact fraction.
    fn score(&self, comps: &[(i64, BTreeSet<String>)]) -> (i128, i128) {
        let d = self.policy.den as i128;
        let (mut prod, mut den) = (1i128, 1i128);
        for (c, _) in comps {
            prod *= d - (*c as i128).clamp(0, d);
            den *= d;
        }
        (den - prod, den)
    }

    pub fn expect(&self, target: usize) -> Expect {
        let mut e = Expect { pol: format!("{}@{}", self.policy.id(), self.policy.version), at: self.now, ..Default::default() };
        let rivals = self.rivals(target);
        let mut any_eligible = false;
        for (i, r) in self.rows.iter().enumerate() {
            if r.prop == target {
                match self.eligible(r) {
                    Ok(_) => {
                        any_eligible = true;
                        match r.stance { 's' => e.s.push(i), 'r' => e.o.push(i), _ => e.u.push(i) }
                    }
                    Err(reason) => e.x.push((i, reason.to_string())),
                }
            }
        }
        // the rivals' supporters oppose, rival by rival
        for p in &rivals {
            for (i, r) in self.rows.iter().enumerate() {
                if r.prop == *p {
                    match self.eligible(r) {
                        Ok(_) => {
                            any_eligible = true;
                            if r.stance == 's' { e.o.push(i) }
                        }
                        Err(_) => e.rival_ineligible += 1,
                    }
                }
            }
        }
        let side = self.eligible_rows(target);
        let sup: Vec<usize> = side.iter().filter(|(_, o)| !*o).map(|(i, _)| *i).collect();
        let opp: Vec<usize> = side.iter().filter(|(_, o)| *o).map(|(i, _)| *i).collect();
        let (cs, co) = (self.components(&sup), self.components(&opp));
        e.sg = cs.len() as u64;
        e.og = co.len() as u64;
        e.sup = self.score(&cs);
        e.opp = self.score(&co);
        e.no_eligible = !any_eligible;
        let p = &self.policy;
        e.accept_f = p.accept as f64 / p.den as f64;
        e.material_f = p.material as f64 / p.den as f64;
        // classification (exact): score >= t/den  <=>  num * den >= t * sden
        let d = p.den as i128;
        let ge = |s: (i128, i128), t: i64| s.0 * d >= t as i128 * s.1;
        let engaged = e.sg > 0 || e.og > 0 || !e.u.is_empty();
        e.st = if !engaged { "insufficient" }
            else if ge(e.sup, p.accept) && !ge(e.opp, p.material) { "accepted" }
            else if ge(e.opp, p.accept) && !ge(e.sup, p.material) { "rejected" }
            else if ge(e.sup, p.material) && ge(e.opp, p.material) { "contested" }
            else { "uncertain" }.to_string();
        // a score that sits on (or within 1e-9 of) a threshold, other than an exact 0 or 1
        let near = |s: (i128, i128), t: i64| {
            let exact = s.0 * d == t as i128 * s.1;
            if exact { return !(s.0 == 0 || s.0 == s.1) }
            ((s.0 as f64 / s.1 as f64) - (t as f64 / d as f64)).abs() < 1e-9
        };
        e.threshold_adjacent = engaged && (near(e.sup, p.accept) || near(e.sup, p.material) || near(e.opp, p.accept) || near(e.opp, p.material));
        e
    }

    pub fn apply(&mut self, op: &Op) -> Option<Vec<Expect>> {
        match op {
            Op::Reset => { *self = OState::default(); None }
            Op::Policy(p) => { self.policy = p.clone(); self.policy_err = false; None }
            Op::Settings { k, name, accept, material, modes } => {
                if let Ok(p) = apply_settings(*k, name, accept, material, modes) { self.policy = p }
                None
            }
            Op::Now(t) => { self.now = *t; None }
            Op::Slot { functional, props } => { self.functional = *functional; self.slot = props.clone(); None }
            Op::A(r) => { self.rows.push(r.clone()); None }
            Op::Raise(i, c) => { if let Some(r) = self.rows.get_mut(*i) { r.conf = *c } None }
            Op::Status(i, s) => { if let Some(r) = self.rows.get_mut(*i) { r.status = *s } None }
            // a withdrawn or replaced claim contributes nothing at EVERY evaluation instant: the
            // instant of the lifecycle change is deliberately not looked at
            Op::Retract(i, _) => { if let Some(r) = self.rows.get_mut(*i) { r.status = 'r' } None }
            Op::Supersede(i, j, _) => { if *j < self.rows.len() && i != j && let Some(r) = self.rows.get_mut(*i) { r.status = 's' } None }
            Op::Project(t) => Some(vec![self.expect(*t)]),
            Op::SlotProject => Some(self.slot.clone().iter().map(|p| { let mut e = self.expect(*p); e.prop = Some(*p); e }).collect()),
            Op::Route(_) | Op::Spell(_) | Op::Norm(_) | Op::Bad(_) => None,
        }
    }
}

/// Per op: `None` for ops that answer `ok`, the expected answers for projections.
pub fn oracle_run(ops: &[Op]) -> Vec<Option<Vec<Expect>>> {
    let mut st = OState::default();
    ops.iter().map(|op| st.apply(op)).collect()
}

pub fn oracle_state(ops: &[Op]) -> OState {
    let mut st = OState::default();
    for op in ops { st.apply(op); }
    st
}

/// Op indices of the Assertions that are ineligible under the (single) policy and time of a
/// simple history.
pub fn ineligible_everywhere(ops: &[Op]) -> BTreeSet<usize> {
    let st = oracle_state(ops);
    let mut out = BTreeSet::new();
    for (i, op) in ops.iter().enumerate() {
        if let Op::A(r) = op && st.eligible(r).is_err() { out.insert(i); }
    }
    out
}

pub struct Law {
    /// the new Assertion shares an actor or an Evidence id with an eligible Assertion of its side
    pub shares_key: bool,
    /// it is more confident than everything already in the group(s) it joins
    pub stronger: bool,
    /// how many existing groups it touches
    pub touched: usize,
}

/// What the property says about adding `rep` (eligible, on side `opposing` of `target`) to `st`.
pub fn repetition_law(st: &OState, target: usize, opposing: bool, rep: &RowSpec) -> Law {
    let members: Vec<usize> = st.eligible_rows(target).into_iter().filter(|(_, o)| *o == opposing).map(|(i, _)| i).collect();
    let comps = st.components(&members);
    let mut keys: BTreeSet<String> = BTreeSet::new();
    keys.insert(match rep.actor { Some(a) => format!("actor:{a}"), None => "anon:new".to_string() });
    keys.extend(rep.evs.iter().map(|e| format!("evidence:{e}")));
    let hit: Vec<&(i64, BTreeSet<String>)> = comps.iter().filter(|(_, ks)| ks.intersection(&keys).next().is_some()).collect();
    let conf = if rep.conf < 0 { st.policy.unstated } else { rep.conf };
    let d = st.policy.den as i64;
    let strongest = hit.iter().map(|(c, _)| (*c).clamp(0, d)).max().unwrap_or(i64::MIN);
    Law { shares_key: !hit.is_empty(), stronger: conf.clamp(0, d) > strongest, touched: hit.len() }
}
