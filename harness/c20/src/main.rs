//! Harness for property C20 — belief is projected: silence is not rejection, repetition is not
//! support.
//!
//! One case = a list of op lines (the line protocol of `lean/AndaVerif/Drv/C20.lean`).
//! For every case the harness
//!   1. runs the real `anda_cognitive_nexus` projection (`Context::project_belief` /
//!      `project_slot` over rows written with `Store::insert`, policies built directly or through
//!      `Policy::from_settings`; the `kml` route writes through `MUTATE`/`RETRACT` and reads through
//!      `FIND(?b) WHERE { ?b BELIEF (...) } WITH EPISTEMIC {...} FOR TIME ...`),
//!   2. pipes the same lines to the Lean model driver and compares (correspondence),
//!   3. evaluates an independent oracle of the property (eligibility from the statement,
//!      union-find connected components, exact rational scores, the classification thresholds),
//!   4. re-runs the real code on derived histories: permutations of the recording order, the
//!      history without its ineligible Assertions, one repeated Assertion more, one confidence
//!      raised — and checks the laws the property states about them.
mod oracle;
mod ops;
mod world;

use ops::*;
use oracle::*;
use std::sync::mpsc;
use vh_common::serde_json::{Value, json};
use vh_common::{Args, ModelProc, Report, Rng};
use world::World;


pub const SCORE_EPS: f64 = 1e-9;

/// What one evaluated case contributes to the report.
#[derive(Default)]
pub struct Outcome {
    pub canon: String,
    pub nontrivial: bool,
    pub hits: Vec<String>,
    pub model_compared: u64,
    pub disagreement: Option<(String, String, String)>,
    pub failures: Vec<Failure>,
    pub f64_order_dependence: u64,
    pub threshold_adjacent: u64,
    pub projections: u64,
    pub f64_max_abs_err: f64,
    pub bridge_lowered: u64,
    pub rival_ineligible_unlisted: u64,
    pub impl_runs: u64,
    pub sample: Option<Value>,
}

#[derive(Clone, Debug)]
pub struct Failure {
    pub key: String,
    pub what: String,
    pub expected: String,
    pub observed: String,
}

fn fail(out: &mut Outcome, key: &str, what: String, expected: String, observed: String) {
    out.failures.push(Failure { key: key.to_string(), what, expected, observed });
}

/// Compares one model answer line with one implementation answer line.
/// `None` = agree. Scores: exact fraction vs f64 within `SCORE_EPS`; the status is compared exactly
/// unless the exact score sits on a threshold (a behaviour the rational model cannot exhibit).
fn compare_lines(model: &str, imp: &str, adj: bool) -> Option<String> {
    if model.contains(" | ") || imp.contains(" | ") {
        let ms: Vec<&str> = model.split(" | ").collect();
        let is: Vec<&str> = imp.split(" | ").collect();
        if ms.len() != is.len() {
            return Some("slot size".into());
        }
        for (m, i) in ms.iter().zip(is.iter()) {
            if let Some(d) = compare_lines(m, i, adj) {
                return Some(d);
            }
        }
        return None;
    }
    if model.starts_with("slot accepted=") && imp.starts_with("slot accepted=") && adj {
        // derived from statuses that sit on a threshold: checked against the reported statuses by the oracle
        return None;
    }
    let (Some(m), Some(i)) = (Ans::parse(model), Ans::parse(imp)) else {
        return if model == imp { None } else { Some("line".into()) };
    };
    if m.prop != i.prop {
        return Some("prop".into());
    }
    if m.sg != i.sg || m.og != i.og {
        return Some("groups".into());
    }
    if (m.sup.value() - i.sup.value()).abs() > SCORE_EPS || (m.opp.value() - i.opp.value()).abs() > SCORE_EPS {
        return Some("score".into());
    }
    if m.st != i.st && !adj {
        return Some("status".into());
    }
    if m.s != i.s || m.o != i.o || m.u != i.u {
        return Some("ledger".into());
    }
    if m.x != i.x {
        return Some("excluded".into());
    }
    if m.pol != i.pol {
        return Some("policy".into());
    }
    if m.at != i.at {
        return Some("valid_at".into());
    }
    None
}

/// Runs the real code on `ops`; a panic is reported as the single line `panic`.
fn run_impl(world: &mut World, ops: &[Op], out: &mut Outcome) -> Vec<String> {
    out.impl_runs += 1;
    world.run(ops)
}

/// Everything that is checked for one case.
fn check_case(world: &mut World, model: &mut Option<ModelProc>, lines: &[String], route_kml: bool, deep: bool) -> Outcome {
    let mut out = Outcome::default();
    let parsed: Vec<Op> = lines.iter().map(|l| Op::parse(l)).collect();
    out.canon = lines.join("\n");
    // protocol rule: confidences are numerators over the resolution in force, so the resolution
    // must not change once an Assertion has been recorded
    {
        let (mut den, mut rows) = (10u64, false);
        for op in &parsed {
            match op {
                Op::A(_) => rows = true,
                Op::Reset => { den = 10; rows = false }
                Op::Policy(p) if p.den != den => { if rows { out.hits.push("invalid:resolution-changed".into()); return out } den = p.den }
                Op::Settings { k, .. } if 10 * k != den => { if rows { out.hits.push("invalid:resolution-changed".into()); return out } den = 10 * k }
                _ => {}
            }
        }
    }
    let imp = if route_kml {
        out.impl_runs += 1;
        world.run_kml(&parsed)
    } else {
        run_impl(world, &parsed, &mut out)
    };

    // ---- the oracle's own evaluation of the same history --------------------------------------
    let exp = oracle_run(&parsed);
    debug_assert_eq!(exp.len(), imp.len());

    // ---- correspondence with the Lean model ----------------------------------------------------
    if let Some(m) = model.as_mut() {
        let _ = m.ask("reset");
        let mut model_out = Vec::with_capacity(lines.len());
        for l in lines {
            model_out.push(m.ask(l));
        }
        out.model_compared += 1;
        for (k, ((mo, io), ex)) in model_out.iter().zip(imp.iter()).zip(exp.iter()).enumerate() {
            let adj = ex.as_ref().map(|e| e.iter().any(|p| p.threshold_adjacent)).unwrap_or(false);
            if let Some(d) = compare_lines(mo, io, adj) {
                out.disagreement = Some((format!("{} (op #{k}: {})", d, lines[k]), mo.clone(), io.clone()));
                break;
            }
        }
    }

    // ---- oracle: the property evaluated on the implementation's answers -----------------------
    let mut any_answer = false;
    for (k, (io, ex)) in imp.iter().zip(exp.iter()).enumerate() {
        if io == "panic" {
            fail(&mut out, "panic", format!("the projection panicked at op #{k}: {}", lines[k]), "an answer".into(), "panic".into());
            continue;
        }
        let Some(ex) = ex else { continue };
        let mut answers: Vec<&str> = io.split(" | ").collect();
        // the slot summary must follow from the candidate projections the same answer reports
        if let Some(last) = answers.last().copied() && last.starts_with("slot accepted=") {
            answers.pop();
            let parsed_answers: Vec<Ans> = answers.iter().filter_map(|a| Ans::parse(a)).collect();
            let accepted: Vec<usize> = parsed_answers.iter().filter(|a| a.st == "accepted").filter_map(|a| a.prop).collect();
            let contested = accepted.len() > 1 || parsed_answers.iter().any(|a| a.st == "contested");
            let want = format!("slot accepted={} contested={}", show_list(&accepted), contested as u8);
            out.hits.push(format!("branch:slot-contested:{}", contested as u8));
            out.hits.push(format!("branch:slot-accepted:{}", accepted.len().min(2)));
            if last != want {
                fail(&mut out, "slot-summary", format!("the slot's accepted values / contested flag do not follow from its candidate projections at op #{k}"), want, last.to_string());
            }
        }
        if answers.len() != ex.len() {
            if !(ex.is_empty() && io == "-") {
                fail(&mut out, "slot-size", format!("slot projection size at op #{k}"), format!("{}", ex.len()), io.clone());
            }
            continue;
        }
        for (a, e) in answers.iter().zip(ex.iter()) {
            let Some(ans) = Ans::parse(a) else {
                fail(&mut out, "unreadable", format!("unreadable answer at op #{k}"), "an answer line".into(), a.to_string());
                continue;
            };
            any_answer = true;
            check_answer(&mut out, k, &lines[k], &ans, e);
            out.hits.push(format!("status:{}", ans.st));
            out.hits.push(format!("sg:{}", ans.sg.min(6)));
            out.hits.push(format!("og:{}", ans.og.min(6)));
            if ans.sg + ans.og > 0 || !ans.u.is_empty() || !ans.x.is_empty() {
                out.nontrivial = true;
            }
            for (_, r) in &ans.x {
                out.hits.push(format!("excluded:{r}"));
            }
            out.projections += 1;
            if e.threshold_adjacent {
                out.threshold_adjacent += 1;
            }
            let err = (ans.sup.value() - e.sup.value()).abs().max((ans.opp.value() - e.opp.value()).abs());
            if err > out.f64_max_abs_err {
                out.f64_max_abs_err = err;
            }
            out.rival_ineligible_unlisted += e.rival_ineligible as u64;
        }
    }
    for op in &parsed {
        out.hits.push(format!("op:{}", op.name()));
    }
    for (op, line) in parsed.iter().zip(imp.iter()) {
        if matches!(op, Op::Settings { .. }) {
            out.hits.push(format!("branch:settings:{}", line.split(' ').next().unwrap_or("?")));
        }
    }
    out.hits.extend(branch_hits(&parsed));
    if !any_answer {
        return out;
    }
    if out.sample.is_none() {
        out.sample = Some(json!({"ops": lines, "impl": imp}));
    }
    // ---- the evaluation instant is an instant, not a text ------------------------------------
    // route `kml-spell`: the same history, `FOR TIME` written in every other spelling of the same
    // instants: every answer must be byte-identical
    if route_kml && lines.first().is_some_and(|l| l == "route kml-spell") {
        for k in 0..ops::SPELLINGS {
            let variant: Vec<Op> = parsed.iter().map(|o| if let Op::Spell(_) = o { Op::Spell(k) } else { o.clone() }).collect();
            if variant == parsed { continue }
            out.impl_runs += 1;
            let outs = world.run_kml(&variant);
            out.hits.push(format!("derived:spelling:{k}"));
            for (j, (b, g)) in imp.iter().zip(outs.iter()).enumerate() {
                if b != g {
                    fail(&mut out, "evaluation-instant-text-dependent", format!("the answer depends on how the evaluation instant is spelled (spelling {k} of the same instant) at op #{j} `{}`", lines[j]), b.clone(), g.clone());
                    break;
                }
            }
        }
    }
    if !deep || route_kml {
        return out;
    }

    // ---- derived histories --------------------------------------------------------------------
    let mut rng = Rng::new(fnv(&out.canon));
    let a_idx: Vec<usize> = parsed.iter().enumerate().filter(|(_, o)| matches!(o, Op::A(_))).map(|(i, _)| i).collect();
    let has_mut = parsed.iter().any(|o| matches!(o, Op::Raise(..) | Op::Status(..) | Op::Retract(..) | Op::Supersede(..)));
    let last_answers = |outs: &[String]| -> Vec<Ans> {
        outs.iter().rev().find(|l| l.starts_with("st=") || l.starts_with("p=")).map(|l| l.split(" | ").filter_map(Ans::parse).collect()).unwrap_or_default()
    };
    let base_final = last_answers(&imp);
    let exp_final: Vec<Expect> = exp.iter().rev().flatten().next().cloned().unwrap_or_default();
    let adj_final = exp_final.iter().any(|e| e.threshold_adjacent);

    // (0) lifecycle exclusion is time-independent: move every retraction / supersession instant
    //     before every evaluation instant, then after every one; no answer may change.
    if parsed.iter().any(|o| matches!(o, Op::Retract(..) | Op::Supersede(..))) {
        for shifted in [Some(0u32), Some(3000u32), None] {
            let variant: Vec<Op> = parsed.iter().map(|o| match o {
                Op::Retract(i, _) => Op::Retract(*i, shifted),
                Op::Supersede(i, j, _) => Op::Supersede(*i, *j, shifted),
                other => other.clone(),
            }).collect();
            if variant == parsed { continue }
            let outs = run_impl(world, &variant, &mut out);
            out.hits.push("derived:lifecycle-instant-moved".into());
            for (k, (b, g)) in imp.iter().zip(outs.iter()).enumerate() {
                if b != g {
                    let lines_v: Vec<String> = variant.iter().map(|o| o.render()).collect();
                    fail(&mut out, "lifecycle-exclusion-depends-on-time", format!("moving the instant of a retraction / supersession relative to the evaluation time changes the answer at op #{k}; moved history: {}", lines_v.join(" ; ")), b.clone(), g.clone());
                    break;
                }
            }
        }
    }

    // (a) order independence: same multiset of Assertions, other recording orders. Only for
    //     histories whose Assertions all precede the projections and are not mutated afterwards.
    let first_proj = parsed.iter().position(|o| matches!(o, Op::Project(_) | Op::SlotProject)).unwrap_or(parsed.len());
    let simple = !has_mut && a_idx.iter().all(|&i| i < first_proj);
    if simple && a_idx.len() >= 2 {
        let perms = if a_idx.len() <= 3 { all_perms(a_idx.len()) } else { (0..3).map(|_| { let mut p: Vec<usize> = (0..a_idx.len()).collect(); rng.shuffle(&mut p); p }).collect() };
        for perm in perms {
            if perm.iter().enumerate().all(|(i, &j)| i == j) {
                continue;
            }
            // new position i holds old Assertion perm[i]; old ordinal -> new ordinal
            let mut permuted = parsed.clone();
            for (i, &j) in perm.iter().enumerate() {
                permuted[a_idx[i]] = parsed[a_idx[j]].clone();
            }
            let mut new_of_old = vec![0usize; perm.len()];
            for (i, &j) in perm.iter().enumerate() {
                new_of_old[j] = i;
            }
            let outs = run_impl(world, &permuted, &mut out);
            let got = last_answers(&outs);
            out.hits.push("derived:permutation".into());
            if got.len() != base_final.len() {
                fail(&mut out, "order-dependent", format!("recording order {:?} changes the number of answers", perm), format!("{}", base_final.len()), format!("{}", got.len()));
                continue;
            }
            for (b, g) in base_final.iter().zip(got.iter()) {
                let g = g.renumbered(&|new| perm.get(new).copied().unwrap_or(new));
                let _ = &new_of_old;
                let same_groups = b.sg == g.sg && b.og == g.og;
                let same_scores = (b.sup.value() - g.sup.value()).abs() <= SCORE_EPS && (b.opp.value() - g.opp.value()).abs() <= SCORE_EPS;
                let same_sets = b.sets() == g.sets();
                if !(same_groups && same_scores && same_sets) || (b.st != g.st && !adj_final) {
                    let permuted_lines: Vec<String> = permuted.iter().map(|o| o.render()).collect();
                    fail(&mut out, "order-dependent", format!("the answer depends on the recording order; permuted history: {}", permuted_lines.join(" ; ")), b.render_sets(), g.render_sets());
                } else if b.st != g.st || b.sup.value().to_bits() != g.sup.value().to_bits() || b.opp.value().to_bits() != g.opp.value().to_bits() {
                    out.f64_order_dependence += 1;
                }
            }
        }
    }

    // (b) excluded Assertions contribute nothing: drop every Assertion the oracle finds ineligible
    //     for every projection of the history (time and policy are fixed in simple histories).
    if simple && !a_idx.is_empty() {
        let inel = ineligible_everywhere(&parsed);
        if !inel.is_empty() && inel.len() < a_idx.len() + 1 {
            let dropped: Vec<Op> = parsed.iter().enumerate().filter(|(i, _)| !inel.contains(i)).map(|(_, o)| o.clone()).collect();
            let outs = run_impl(world, &dropped, &mut out);
            let got = last_answers(&outs);
            out.hits.push("derived:drop-ineligible".into());
            for (b, g) in base_final.iter().zip(got.iter()) {
                if b.sg != g.sg || b.og != g.og || (b.st != g.st && !adj_final)
                    || (b.sup.value() - g.sup.value()).abs() > SCORE_EPS || (b.opp.value() - g.opp.value()).abs() > SCORE_EPS
                {
                    fail(&mut out, "excluded-contributes", "removing the ineligible Assertions changes groups, scores or status".into(), b.render_sets(), g.render_sets());
                }
            }
        }
    }

    // (c) repetition is not support; (d) monotone in a confidence. Both extend the history by one
    //     op and one more projection of the same target, and compare the two last answers.
    if let Some(last_proj) = parsed.iter().rposition(|o| matches!(o, Op::Project(_))) {
        let Op::Project(target) = parsed[last_proj].clone() else { unreachable!() };
        let base_final: Vec<Ans> = Ans::parse(&imp[last_proj]).into_iter().collect();
        // the history up to and including that projection
        let parsed: Vec<Op> = parsed[..=last_proj].to_vec();
        let st = oracle_state(&parsed);
        let elig = st.eligible_rows(target);
        if !elig.is_empty() {
            // (c) a repetition: same actor as, or Evidence already cited by, an eligible Assertion
            //     of one side; same side.
            let &(ri, opposing) = rng.pick(&elig);
            let src = st.rows[ri].clone();
            let mut rep = src.clone();
            rep.status = 'a';
            rep.visible = true;
            rep.from = None;
            rep.until = None;
            if let Some(mode) = st.admitted_mode() {
                rep.mode = mode;
                match rng.below(3) {
                    0 => {}
                    1 => {
                        if !src.evs.is_empty() {
                            rep.actor = Some(90 + rng.below(5) as u32);
                            rep.evs = vec![*rng.pick(&src.evs)];
                        }
                    }
                    _ => {
                        // a bridge: cite the Evidence of another eligible Assertion of that side too
                        let same: Vec<&(usize, bool)> = elig.iter().filter(|(_, o)| *o == opposing).collect();
                        let other = st.rows[rng.pick(&same).0].clone();
                        rep.evs.extend(other.evs.iter().copied());
                        rep.evs.sort();
                        rep.evs.dedup();
                    }
                }
                rep.conf = match rng.below(4) { 0 => -1, 1 => src.conf, 2 => rng.range(0, st.policy.den as i64), _ => (src.conf - 1).max(0) };
                let mut ext = parsed.clone();
                ext.push(Op::A(rep.clone()));
                ext.push(Op::Project(target));
                let outs = run_impl(world, &ext, &mut out);
                let after = last_answers(&outs);
                out.hits.push("derived:repetition".into());
                if let (Some(b), Some(a)) = (base_final.last(), after.last()) {
                    let law = repetition_law(&st, target, opposing, &rep);
                    let (gb, ga, sb, sa) = if opposing { (b.og, a.og, b.opp.value(), a.opp.value()) } else { (b.sg, a.sg, b.sup.value(), a.sup.value()) };
                    let ext_lines: Vec<String> = ext.iter().map(|o| o.render()).collect();
                    if law.shares_key && ga > gb {
                        fail(&mut out, "repetition-adds-group", format!("an Assertion that shares an actor or Evidence with its side increased the group count; history: {}", ext_lines.join(" ; ")), format!("groups <= {gb}"), format!("groups = {ga}"));
                    }
                    if law.shares_key && !law.stronger && sa > sb + SCORE_EPS {
                        fail(&mut out, "repetition-raises-score", format!("an Assertion no stronger than its group raised the score; history: {}", ext_lines.join(" ; ")), format!("score <= {sb}"), format!("score = {sa}"));
                    }
                    if law.shares_key && !law.stronger && law.touched == 1 && (sa - sb).abs() > SCORE_EPS {
                        fail(&mut out, "repetition-changes-score", format!("an Assertion no stronger than the one group it joins changed the score; history: {}", ext_lines.join(" ; ")), format!("score = {sb}"), format!("score = {sa}"));
                    }
                    if law.shares_key && !law.stronger && law.touched > 1 && sa < sb - SCORE_EPS {
                        out.bridge_lowered += 1;
                    }
                }
            }

            // (d) raise the confidence of one eligible Assertion
            let &(ri, opposing) = rng.pick(&elig);
            let old = st.effective_conf(ri);
            let den = st.policy.den as i64;
            if old < den {
                let newc = rng.range(old.max(0) + 1, den.max(old.max(0) + 1));
                let mut ext = parsed.clone();
                ext.push(Op::Raise(ri, newc));
                ext.push(Op::Project(target));
                let outs = run_impl(world, &ext, &mut out);
                let after = last_answers(&outs);
                out.hits.push("derived:raise".into());
                if let (Some(b), Some(a)) = (base_final.last(), after.last()) {
                    let (gb, ga, sb, sa) = if opposing { (b.og, a.og, b.opp.value(), a.opp.value()) } else { (b.sg, a.sg, b.sup.value(), a.sup.value()) };
                    let ext_lines: Vec<String> = ext.iter().map(|o| o.render()).collect();
                    if ga != gb {
                        fail(&mut out, "raise-changes-groups", format!("raising a confidence changed the grouping; history: {}", ext_lines.join(" ; ")), format!("{gb}"), format!("{ga}"));
                    }
                    if sa < sb - 1e-12 {
                        fail(&mut out, "score-not-monotone", format!("raising a confidence lowered the score; history: {}", ext_lines.join(" ; ")), format!("score >= {sb}"), format!("score = {sa}"));
                    }
                }
            }
        }
    }
    out
}

/// The per-answer part of the oracle.
fn check_answer(out: &mut Outcome, k: usize, line: &str, ans: &Ans, e: &Expect) {
    let ctx = format!("op #{k} `{line}`");
    // scores stay within [0,1]
    for (name, s) in [("support", ans.sup.value()), ("opposition", ans.opp.value())] {
        if !(0.0..=1.0).contains(&s) {
            fail(out, "score-range", format!("{name} score outside [0,1] at {ctx}"), "0 <= score <= 1".into(), format!("{s}"));
        }
    }
    // groups are the connected components
    if ans.sg != e.sg || ans.og != e.og {
        fail(out, "groups-not-components", format!("independent groups are not the connected components at {ctx}"), format!("support {} opposition {}", e.sg, e.og), format!("support {} opposition {}", ans.sg, ans.og));
    }
    // score = 1 - prod(1 - max_c) exactly (up to float rounding)
    if (ans.sup.value() - e.sup.value()).abs() > SCORE_EPS || (ans.opp.value() - e.opp.value()).abs() > SCORE_EPS {
        fail(out, "score-value", format!("score differs from 1 - prod(1 - strongest) at {ctx}"), format!("support {} opposition {}", e.sup.value(), e.opp.value()), format!("support {} opposition {}", ans.sup.value(), ans.opp.value()));
    }
    // silence is insufficient, never rejected
    if e.no_eligible && ans.st != "insufficient" {
        fail(out, "silence-not-insufficient", format!("no eligible Assertion bears on the Proposition or a rival, yet the status is not insufficient at {ctx}"), "insufficient".into(), ans.st.clone());
    }
    // rejection requires positive opposition
    // (for every pair of thresholds: theorem `rejection_needs_opposition`)
    if ans.st == "rejected" && !(ans.opp.value() > 0.0 && ans.og > 0) {
        fail(out, "rejected-without-opposition", format!("rejected without positive opposition at {ctx}"), "opposition > 0 and at least one opposing group".into(), format!("opposition {} groups {}", ans.opp.value(), ans.og));
    }
    if ans.st == "rejected" && e.no_eligible {
        fail(out, "silence-rejected", format!("silence was read as rejection at {ctx}"), "insufficient".into(), ans.st.clone());
    }
    // the classification by the policy's thresholds (exact scores; skipped on a threshold)
    if !e.threshold_adjacent && ans.st != e.st {
        fail(out, "status", format!("status differs from the threshold classification of the exact scores at {ctx}"), e.st.clone(), ans.st.clone());
    }
    // on or off a threshold, the status must be the classification of the scores the answer reports
    {
        let (sup, opp) = (ans.sup.value(), ans.opp.value());
        let engaged = ans.sg > 0 || ans.og > 0 || !ans.u.is_empty();
        let by_reported = if !engaged { "insufficient" }
            else if sup >= e.accept_f && opp < e.material_f { "accepted" }
            else if opp >= e.accept_f && sup < e.material_f { "rejected" }
            else if sup >= e.material_f && opp >= e.material_f { "contested" }
            else { "uncertain" };
        if ans.st != by_reported {
            fail(out, "status-vs-reported-scores", format!("status is not the threshold classification of the reported scores at {ctx}"), by_reported.into(), ans.st.clone());
        }
    }
    // the ledger: who supports, opposes, hedges; who was excluded and why
    if ans.s != e.s || ans.o != e.o || ans.u != e.u {
        fail(out, "ledger", format!("ledger differs at {ctx}"), format!("S={:?} O={:?} U={:?}", e.s, e.o, e.u), format!("S={:?} O={:?} U={:?}", ans.s, ans.o, ans.u));
    }
    if ans.x != e.x {
        fail(out, "excluded-ledger", format!("excluded Assertions are not listed with their reason at {ctx}"), format!("{:?}", e.x), format!("{:?}", ans.x));
    }
    // the answer names the policy that produced it
    if ans.pol != e.pol {
        fail(out, "policy-identity", format!("the answer does not name the policy it ran under at {ctx}"), e.pol.clone(), ans.pol.clone());
    }
    if ans.at != e.at {
        fail(out, "valid-at", format!("the answer does not report the evaluation time at {ctx}"), e.at.to_string(), ans.at.to_string());
    }
}

/// Which branches of the model this history drives (for the coverage histogram; not an oracle).
fn branch_hits(parsed: &[Op]) -> Vec<String> {
    let mut hits = Vec::new();
    let st = oracle_state(parsed);
    let Some(Op::Project(target)) = parsed.iter().rev().find(|o| matches!(o, Op::Project(_))).cloned() else { return hits };
    let den = st.policy.den as i64;
    hits.push(format!("branch:functional:{}", st.functional as u8));
    hits.push(format!("branch:expand:{}", st.policy.expand as u8));
    hits.push(format!("branch:rivals:{}", st.rivals(target).len().min(2)));
    for r in &st.rows {
        if st.eligible(r).is_ok() {
            hits.push("branch:eligible".into());
            if r.conf < 0 { hits.push("branch:conf-unstated".into()) }
            let eff = if r.conf < 0 { st.policy.unstated } else { r.conf };
            if eff > den { hits.push("branch:conf-clamped-high".into()) }
            if eff < 0 { hits.push("branch:conf-clamped-low".into()) }
            if r.actor.is_none() { hits.push("branch:actor-anonymous".into()) }
            match (r.from, r.until) {
                (Some(_), Some(_)) => hits.push("branch:window-both".into()),
                (Some(_), None) => hits.push("branch:window-from".into()),
                (None, Some(_)) => hits.push("branch:window-until".into()),
                _ => {}
            }
        }
    }
    // the merge loop: how many existing groups each candidate touches when it arrives
    for opposing in [false, true] {
        let members: Vec<usize> = st.eligible_rows(target).into_iter().filter(|(_, o)| *o == opposing).map(|(i, _)| i).collect();
        let mut groups: Vec<std::collections::BTreeSet<String>> = Vec::new();
        for i in members {
            let r = &st.rows[i];
            let mut keys: std::collections::BTreeSet<String> = std::collections::BTreeSet::new();
            keys.insert(match r.actor { Some(a) => format!("actor:{a}"), None => format!("anon:{i}") });
            keys.extend(r.evs.iter().map(|e| format!("evidence:{e}")));
            let (hit, miss): (Vec<_>, Vec<_>) = groups.into_iter().partition(|g| g.intersection(&keys).next().is_some());
            hits.push(format!("branch:merge-touches:{}", hit.len().min(3)));
            let mut merged = keys;
            for g in hit { merged.extend(g) }
            groups = miss;
            groups.push(merged);
        }
    }
    hits
}

fn all_perms(n: usize) -> Vec<Vec<usize>> {
    fn rec(cur: &mut Vec<usize>, used: &mut Vec<bool>, n: usize, out: &mut Vec<Vec<usize>>) {
        if cur.len() == n {
            out.push(cur.clone());
            return;
        }
        for i in 0..n {
            if !used[i] {
                used[i] = true;
                cur.push(i);
                rec(cur, used, n, out);
                cur.pop();
                used[i] = false;
            }
        }
    }
    let mut out = Vec::new();
    rec(&mut Vec::new(), &mut vec![false; n], n, &mut out);
    out
}

pub fn fnv(s: &str) -> u64 {
    let mut h: u64 = 0xcbf2_9ce4_8422_2325;
    for b in s.bytes() {
        h ^= b as u64;
        h = h.wrapping_mul(0x0000_0100_0000_01B3);
    }
    h
}

// ---------------------------------------------------------------------------------------------
// driver
// ---------------------------------------------------------------------------------------------

enum Job {
    Case { label: String, lines: Vec<String>, kml: bool, deep: bool },
}

struct Done {
    label: String,
    lines: Vec<String>,
    out: Outcome,
}

fn worker(args: Args, rx: std::sync::Arc<std::sync::Mutex<mpsc::Receiver<Job>>>, tx: mpsc::Sender<Done>) {
    let rt = tokio::runtime::Builder::new_current_thread().enable_all().build().expect("runtime");
    let mut world = World::new(rt);
    let mut model = ModelProc::from_args(&args);
    let mut served = 0u64;
    loop {
        let job = { rx.lock().unwrap().recv() };
        let Ok(Job::Case { label, lines, kml, deep }) = job else { break };
        // the in-memory database only grows: start a fresh one now and then
        served += 1;
        if served % 4000 == 0 {
            world.recycle();
        }
        let mut out = check_case(&mut world, &mut model, &lines, kml, deep);
        let mut lines = lines;
        // shrink what failed, keeping the same failure key (or the disagreement)
        if let Some(f) = out.failures.first().cloned() {
            let key = f.key.clone();
            let small = vh_common::shrink(lines.clone(), |cand| {
                let cand: Vec<String> = cand.to_vec();
                check_case(&mut world, &mut None, &cand, kml, deep).failures.iter().any(|g| g.key == key)
            }, 200);
            if small.len() < lines.len() {
                let again = check_case(&mut world, &mut model, &small, kml, deep);
                if again.failures.iter().any(|g| g.key == key) {
                    let (runs, cmp) = (out.impl_runs, out.model_compared);
                    out = again;
                    out.impl_runs += runs;
                    out.model_compared += cmp;
                    lines = small;
                }
            }
        } else if out.disagreement.is_some() && model.is_some() {
            let small = vh_common::shrink(lines.clone(), |cand| {
                let cand: Vec<String> = cand.to_vec();
                check_case(&mut world, &mut model, &cand, kml, false).disagreement.is_some()
            }, 200);
            if small.len() < lines.len() {
                let again = check_case(&mut world, &mut model, &small, kml, false);
                if again.disagreement.is_some() {
                    out.disagreement = again.disagreement;
                    lines = small;
                }
            }
        }
        if tx.send(Done { label, lines, out }).is_err() {
            break;
        }
    }
}

fn main() {
    let args = Args::parse();
    let mut report = Report::new(
        "C20",
        &args,
        "a case is non-trivial when at least one projection in it has an eligible group, an uncertain assertor or an excluded Assertion (i.e. the answer is not the empty-history `insufficient`)",
    );
    std::panic::set_hook(Box::new(|_| {}));

    let threads = std::thread::available_parallelism().map(|n| n.get()).unwrap_or(4).min(16);
    // jobs are produced by a generator thread into a bounded queue and results are consumed
    // while they arrive, so that memory stays bounded in the thorough tier
    let (job_tx, job_rx) = mpsc::sync_channel::<Job>(20_000);
    let job_rx = std::sync::Arc::new(std::sync::Mutex::new(job_rx));
    let (done_tx, done_rx) = mpsc::channel::<Done>();
    let mut handles = Vec::new();
    for _ in 0..threads {
        let (a, rx, tx) = (args.clone(), job_rx.clone(), done_tx.clone());
        handles.push(std::thread::spawn(move || worker(a, rx, tx)));
    }
    drop(done_tx);

    let gen_args = args.clone();
    let producer = std::thread::spawn(move || -> u64 {
        let args = gen_args;
        let mut n_jobs = 0u64;
        let mut send = |label: String, lines: Vec<String>, kml: bool, deep: bool| {
            n_jobs += 1;
            let _ = job_tx.send(Job::Case { label, lines, kml, deep });
        };
        if let Some(path) = &args.replay {
            let lines = vh_common::read_replay(path);
            let kml = lines.iter().any(|l| l.starts_with("route kml"));
            send("replay".into(), lines, kml, true);
        } else {
            // 1. corpus
            if let Some(dir) = &args.corpus {
                for (name, lines) in vh_common::read_corpus(dir) {
                    let kml = lines.iter().any(|l| l.starts_with("route kml"));
                    send(format!("corpus:{name}"), lines, kml, true);
                }
            }
            // 2. bounded-exhaustive grouping: every sequence of up to `n` Assertions over 3 actors x
            //    subsets of 3 Evidence ids (all orders are sequences), one side, confidences by position
            //    (quick: every sequence up to 3, and up to 4 modulo renaming of actors / Evidence ids;
            //     thorough: every sequence up to 4, and up to 5 modulo renaming)
            let full_len = args.extra.get("exhaustive").and_then(|s| s.parse().ok()).unwrap_or(args.budget(3, 4) as usize);
            let canon_len = args.extra.get("exhaustive-canonical").and_then(|s| s.parse().ok()).unwrap_or(args.budget(4, 5) as usize);
            ops::exhaustive_group_cases(full_len, false, 1, &mut |lines| send("exhaustive".into(), lines, false, false));
            ops::exhaustive_group_cases(canon_len, true, full_len + 1, &mut |lines| send("exhaustive-canonical".into(), lines, false, false));
            // 3. random histories through the store route, with derived histories
            let n_random = args.extra.get("random").and_then(|s| s.parse().ok()).unwrap_or(if args.focus.is_some() { 80_000 } else { args.budget(2500, 40_000) });
            for i in 0..n_random {
                let mut rng = Rng::for_case(args.seed, i);
                let lines = ops::random_case(&mut rng, i);
                send(format!("random:{i}"), lines, false, true);
            }
            // 4. end to end through KML / KQL
            let n_kml = args.extra.get("kml").and_then(|s| s.parse().ok()).unwrap_or(if args.focus.is_some() { 1000 } else { args.budget(120, 800) });
            for i in 0..n_kml {
                let mut rng = Rng::for_case(args.seed ^ 0x6b6d6c, i);
                let lines = ops::random_kml_case(&mut rng);
                send(format!("kml:{i}"), lines, true, false);
            }
            // 5. the evaluation instant in equivalent spellings (route kml-spell), and time::normalize itself
            let n_spell = args.extra.get("spell").and_then(|s| s.parse().ok()).unwrap_or(if args.focus.is_some() { 400 } else { args.budget(60, 500) });
            for i in 0..n_spell {
                let mut rng = Rng::for_case(args.seed ^ 0x7370656c, i);
                let lines = ops::random_kml_spell_case(&mut rng);
                send(format!("spell:{i}"), lines, true, false);
            }
            for i in 0..args.budget(40, 400) {
                let mut rng = Rng::for_case(args.seed ^ 0x6e6f726d, i);
                let mut lines = Vec::new();
                for _ in 0..12 {
                    let ms = world::SPELL_BASE_MS + rng.range(-400_000_000_000, 400_000_000_000);
                    let ms = if rng.chance(1, 2) { ms - ms.rem_euclid(1000) + *rng.pick(&[0, 250, 500, 999]) } else { ms };
                    let mut text = world::spell_instant(ms, rng.below(ops::SPELLINGS as u64) as u32);
                    if rng.chance(1, 6) {
                        // malformed: both sides must refuse
                        text = match rng.below(5) { 0 => text.replace(':', ""), 1 => text.trim_end_matches(|c| c == 'Z' || c == 'z').to_string() + "", 2 => text.replacen("-06-", "-13-", 1).replacen("-0", "-1", 0), 3 => format!("{}x", text), _ => text.replacen('T', "_", 1) };
                    }
                    lines.push(format!("norm {text}"));
                }
                send(format!("norm:{i}"), lines, false, false);
            }
        }
        n_jobs
    });

    let mut f64_order_dependence = 0u64;
    let mut threshold_adjacent = 0u64;
    let mut projections = 0u64;
    let mut bridge_lowered = 0u64;
    let mut rival_unlisted = 0u64;
    let mut impl_runs = 0u64;
    let mut max_err = 0f64;
    let mut kml_samples = 0;
    let mut received = 0u64;
    for done in done_rx.iter() {
        received += 1;
        let Done { label, lines, out } = done;
        report.case(&out.canon, out.nontrivial);
        report.model_compared += out.model_compared;
        for h in &out.hits {
            report.hit(h);
        }
        report.hit(&format!("route:{}", label.split(':').next().unwrap_or("?")));
        if let Some((what, m, i)) = &out.disagreement {
            report.disagreement(&format!("{label}: {what}"), &lines, m, i);
        }
        let mut seen = std::collections::BTreeSet::new();
        for f in &out.failures {
            if seen.insert(f.key.clone()) {
                report.oracle_failure(&f.key, &format!("{label}: {}", f.what), &lines, &f.expected, &f.observed);
            }
        }
        f64_order_dependence += out.f64_order_dependence;
        threshold_adjacent += out.threshold_adjacent;
        projections += out.projections;
        bridge_lowered += out.bridge_lowered;
        rival_unlisted += out.rival_ineligible_unlisted;
        impl_runs += out.impl_runs;
        if out.f64_max_abs_err > max_err {
            max_err = out.f64_max_abs_err;
        }
        if let Some(s) = out.sample {
            if label.starts_with("kml") {
                if kml_samples < 2 {
                    kml_samples += 1;
                    report.max_samples = 8;
                    report.samples.push(s);
                }
            } else if received % 97 == 1 {
                report.sample(s);
            }
        }
    }
    for h in handles {
        let _ = h.join();
    }
    let n_jobs = producer.join().unwrap_or(0);
    if received != n_jobs {
        report.notes.push(format!("only {received} of {n_jobs} cases completed (a worker died)"));
        report.oracle_failure("harness-incomplete", "a worker thread died", &[], &format!("{n_jobs}"), &format!("{received}"));
    }
    report.exhaustive = false;
    report.measured.insert("f64_answers_differing_between_recording_orders_within_1e-9".into(), json!(f64_order_dependence));
    report.measured.insert("projections_with_an_exact_score_on_a_threshold(status_not_compared_with_model)".into(), json!(threshold_adjacent));
    report.measured.insert("projections_checked_in_all".into(), json!(projections));
    report.measured.insert("max_abs_difference_f64_score_vs_exact_rational".into(), json!(max_err));
    report.measured.insert("bridging_repetitions_that_lowered_the_score".into(), json!(bridge_lowered));
    report.measured.insert("ineligible_rival_assertions_not_listed_as_excluded".into(), json!(rival_unlisted));
    report.measured.insert("implementation_runs_including_derived_histories".into(), json!(impl_runs));
    report.notes.push("scores are f64 in the code and exact fractions in the model/oracle: compared within 1e-9; a status exactly on a threshold is compared with neither".into());
    report.write(&args);
}
