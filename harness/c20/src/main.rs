//! Harness for property C20 (stub: not built yet).
fn main() {
    let a = vh_common::Args::parse();
    let r = vh_common::Report::new("C20", &a, "stub");
    r.write(&a);
}
